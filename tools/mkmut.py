#!/usr/bin/env python3
"""mkmut.py <out.diff> <repo-relative-file> <<< JSON [[old,new],...]  -> writes a -p1 unified diff against /repo"""
import sys, json, subprocess, tempfile, os, shutil
out, rel = sys.argv[1], sys.argv[2]
pairs = json.load(sys.stdin)
src = open('/repo/' + rel).read()
new = src
for old, rep in pairs:
    if old not in new:
        print("OLD TEXT NOT FOUND:", old[:80]); sys.exit(1)
    new = new.replace(old, rep, 1)
d = tempfile.mkdtemp()
os.makedirs(os.path.join(d, 'a', os.path.dirname(rel)), exist_ok=True)
os.makedirs(os.path.join(d, 'b', os.path.dirname(rel)), exist_ok=True)
open(os.path.join(d, 'a', rel), 'w').write(src)
open(os.path.join(d, 'b', rel), 'w').write(new)
r = subprocess.run(['diff', '-u', 'a/' + rel, 'b/' + rel], cwd=d, capture_output=True, text=True)
mode = 'a' if os.path.exists(out) and '--append' in sys.argv else 'w'
open(out, mode).write(r.stdout)
shutil.rmtree(d)
print("wrote", out, len(r.stdout.splitlines()), "lines")
