#!/usr/bin/env bash
# tools/confirm_seed.sh <seed-dir> <crate> <demo.rs> [extra cargo test args for the existing-tests run]
# Confirms a seeded change in a scratch worktree: (1) existing tests of <crate> pass with the patch,
# (2) the demonstration fails with the patch, (3) it passes without. Removes the worktree afterwards.
set -u
SD="$(realpath "$1")"; CRATE="$2"; DEMO="$3"; shift 3
WT="$(mktemp -d /tmp/confirm-XXXXXX)"; rmdir "$WT"
git -C /repo worktree add -q --detach "$WT" HEAD || exit 3
trap 'git -C /repo worktree remove --force "$WT" 2>/dev/null; rm -rf "$WT" "$WT-target"' EXIT
export CARGO_TARGET_DIR="$WT-target" CARGO_NET_OFFLINE=true
cd "$WT"
git apply "$SD/patch.diff" || { echo "PATCH DOES NOT APPLY"; exit 3; }
echo "== existing tests of $CRATE with the patch"
cargo test -p "$CRATE" --offline --no-fail-fast "$@" 2>&1 | grep -E "^test result|FAILED|failed|error(\[|:)" | head -40
name="$(basename "$DEMO" .rs)"
mkdir -p "$WT/$CRATE/tests"; cp "$SD/$DEMO" "$WT/$CRATE/tests/$name.rs"
echo "== demonstration WITH the patch (expected to fail)"
cargo test -p "$CRATE" --offline --test "$name" 2>&1 | grep -E "^test |^test result" | head -20
git apply -R "$SD/patch.diff"
echo "== demonstration WITHOUT the patch (expected to pass)"
cargo test -p "$CRATE" --offline --test "$name" 2>&1 | grep -E "^test |^test result" | head -20
