#!/usr/bin/env bash
# tools/run_mutants.sh <ID> [more check IDs to run against each mutant] : run every patch in tools/mutants/<ID>/ and summarise
ID="$1"; shift
CHECKS=("$ID" "$@")
for p in /verif/tools/mutants/"$ID"/*.diff; do
  out=$(/verif/tools/mutant_run.sh "$p" "${CHECKS[@]}" quick 2>&1)
  res=""
  for c in "${CHECKS[@]}"; do
    code=$(echo "$out" | grep "=== $c exit=" | sed 's/.*exit=//')
    nv=$(echo "$out" | grep -c "^VIOLATION property=$c")
    res="$res $c:exit=$code,viol=$nv"
  done
  first=$(echo "$out" | grep -A1 "^VIOLATION" | grep signature | head -1 | cut -c1-200)
  echo "MUTANT $(basename "$p") ->$res $first"
done
