#!/usr/bin/env python3
"""Regenerates /verif/MANIFEST.json. Edit CLAIMED / NOT_YET below, then run."""
import json, os

BASE = json.load(open('/root/.vp/BASELINE.json'))['cmd']

# id -> (level, text, note, technique, design_ref)
CLAIMED = {
 'C01': ('exploration',
  "Runtime monitoring with a reference-model oracle: execute_sparql_query (and the legacy adapter) are run on tens of thousands of generated (dataset, SELECT) pairs per run, covering every operator of the supported fragment in nested combinations, three independent dataset writers and datasets beyond the 64-row parallel chunk; each answer is compared as a multiset (sequence under ORDER BY, legal cut under LIMIT) with M-SPARQL, a nested-loop implementation of the SPARQL algebra over the lexical snapshot of the same database. Disagreements are minimised and attributed by re-running the oracle under relaxed readings of SPARQL's error cases. Held-on-observed, not a proof: the input space is sampled.",
  "Trusted: M-SPARQL (kvk/src/msparql.rs, ~450 lines, naive), the query printer, the M-TERM vocabulary assumption (untyped store; IRIs, canonical integers and words lexically disjoint). Order pairs mixing numbers and non-numbers are not judged.",
  "runtime monitor: brute-force SPARQL-algebra oracle over generated datasets x queries, witness shrinking", '4/C01'),
 'C02': ('exploration',
  "Metamorphic runtime monitoring: for each generated query the optimizer's plan is executed, then re-executed under every admissible assignment of {bind, hash, nested-loop} to its join nodes (exhaustive 3^k for small k), with scan kinds swapped and star joins expanded, under stale / empty / adversarial statistics, under BGP permutations through the text path, and inside rayon pools of 1-16 threads; all solution multisets must coincide with the baseline, which must coincide with M-SPARQL. Evidence reports distinct physical plans and the histogram of join algorithms actually executed.",
  "Trusted: M-SPARQL, the plan-rewriting code of the monitor (PhysicalOperator is public). A bind join is substituted only where the optimizer itself chose one or the right side has no FILTER/BIND (the property quantifies over candidates the optimizer considers). Thread schedules inside rayon are not controlled.",
  "runtime monitor: metamorphic plan rewriting / statistics injection / thread-pool sweep against a reference answer", '4/C02'),
 'C03': ('exploration',
  "Runtime monitoring of update histories: after EVERY step of thousands of random histories over the six update forms (plus interleaved requests that must be rejected) the lexical snapshot of the whole dataset, the named-graph catalog and the returned counts are compared with a reference implementation of SPARQL Update on a set of lexical quads (WHERE evaluated once by M-SPARQL on the pre-state, delete then insert, fresh blank nodes per solution matched up to bijection).",
  "Trusted: kvk/src/upd.rs reference semantics, M-SPARQL, blank-node matching by colour refinement (ambiguous matchings cut the history and are counted, never reported).",
  "runtime monitor: step-by-step dataset comparison against a reference SPARQL Update model over random histories", '4/C03'),
 'C04': ('exploration',
  "Runtime monitoring with an exhaustively enumerated sub-space: all operation sequences of length <= 3 (quick) / 4 (thorough) over a universe of 2 terms x 3 graphs (59 operations) and long random histories over larger universes are applied to DatasetIndex / SparqlDatabase; after every operation every read API and every bound/unbound shape is compared with a set-of-quads model, duplicates and mutator return values included.",
  "Trusted: the BTreeSet model and linear-scan filters of kvk/src/bin/c04/model.rs. The exhaustive flag is cleared by the runtime if any shard stops early.",
  "runtime monitor: exhaustive small-scope + random store histories, all read paths vs. set model after every operation", '4/C04'),
 'C05': ('exploration',
  "Runtime monitoring: four materialisation strategies x three fact/rule orders x two runs are executed on thousands of generated safe programs (1-4 premises, constants / repeated variables / variable predicates in every position, several heads, numeric filters, one negative stratum, recursion templates, >1000-fact bulk cases) and the resulting store, the returned delta and idempotence are compared with the least / stratified model computed by naive iteration (kvcore::mdatalog) and cross-checked by a second independent evaluator.",
  "Trusted: kvcore/src/mdatalog.rs (naive fixpoint), the second DFS evaluator in c05.rs. Filters restricted to the domain where their meaning is unambiguous (canonical integers).",
  "runtime monitor: naive least-fixpoint oracle, strategy/order differential, cause attribution by restricted re-evaluation", '4/C05'),
 'C06': ('exploration',
  "Runtime monitoring: probabilities recovered from DNF-WMC, SDD, min-max and Boolean provenance are compared, for every fact of thousands of generated (recursive, shared-evidence, late-improvement, negation) programs, with exhaustive possible-world enumeration (all 2^n subsets of <= 8/12 uncertain inputs, dyadic probabilities compared exactly, arbitrary ones within 1e-9); DNF formulas are additionally evaluated world by world.",
  "Trusted: M-WORLDS in c06.rs on top of kvcore::mdatalog. Noisy-or and top-k modes are approximate by design and only counted.",
  "runtime monitor: possible-worlds enumeration oracle over generated probabilistic programs", '4/C06'),
 'C07': ('fault_enumeration',
  "Runtime monitoring with exhaustive sub-spaces and fault enumeration: all 256x256x2 apply pairs and 256 negations over 3 variables in every introduction order (complete in the quick tier), all 65536 functions of 4 variables, random operation sequences with dynamic variable introduction over <= 8 variables, and - for every budgeted operation of short programs - the deadline expiring at every checkpoint k and every node budget, on fresh and on cumulative managers, with every earlier handle re-read through the public API afterwards. Oracle: 256-bit truth tables and a bijection table <-> handle.",
  "Trusted: truth-table arithmetic of c07.rs. Weighted counts are compared only for functions that decide every exclusive-group variable (what the engine's exactly_one encoding guarantees).",
  "runtime monitor: truth-table oracle, canonicity bijection, checkpoint-by-checkpoint budget fault injection", '4/C07'),
 'C08': ('fault_enumeration',
  "Runtime monitoring with fault enumeration through the injectable HybridClock: for generated lineage DAGs (all monotone functions of 4 seeds, all functions of 3 seeds, random DAGs over <= 12 seeds, exclusive groups, end-to-end Reasoner programs) and valid configurations at the edges of validate(), a dry run counts the clock readings and the deadline is then expired at every reading; every Exact / Bounded / LowerBound / NeedsExact / Alert / NoAlert claim is checked against brute-force world enumeration with dyadic probabilities (exact threshold comparisons).",
  "Trusted: world enumeration in c08.rs. evaluate_topk and infer_new_facts_with_hybrid have no injectable clock and are run with generous budgets.",
  "runtime monitor: possible-worlds oracle + deadline expiry injected at every clock reading", '4/C08'),
 'C09': ('exploration',
  "Runtime monitoring with an exhaustively enumerated sub-space: widths 1-5 x slides 1-5 x all in-order streams of 6 (quick) / 7-8 (thorough) arrivals with gaps 0..width+2, streams at timestamps up to 2^61, and long random streams, driven through the callback, the channel, WindowRunner and a consumer thread; every reported content must equal the items of one aligned interval [c-w,c) with c <= trigger, triggers strictly increase, intervals are non-decreasing, and under the completeness premise every closed non-empty interval is reported exactly once.",
  "Trusted: M-WINDOW (i128 interval arithmetic in c09.rs). Never-populated intervals may be reported 0 or 1 times (see DESIGN 4/C09).",
  "runtime monitor: exhaustive small streams + random long streams against an interval oracle", '4/C09'),
 'C10': ('exploration',
  "Runtime monitoring with schedule perturbation: single-window continuous queries built through RSPBuilder (RSTREAM / ISTREAM / DSTREAM, widths 1-8, slides 1-4, 10 BGP shapes, 0-3 rules of 10 kinds incl. rules whose conclusion also arrives as a raw item) are fed exhaustively enumerated short streams and random streams; a probe window with identical parameters tells what each firing's content was, and the consumer output must be, firing by firing, R2S(eval(query, content + least fixpoint of the rules over content)). Every input runs single-threaded and multi-threaded under free, sleepy, lock-step, backlog and hold-all schedules driven through the cfg(kolibrie_verif) yield points; quiescence is logical (the worker has drained its channel), outputs of all schedules must coincide with the single-thread output. Evidence counts hook events and distinct hook-event orders.",
  "Trusted: the probe WindowRunner (itself checked by C09), kvcore::mdatalog, the BGP evaluator of c10.rs. OS preemption inside critical sections is not controlled; ON_CONTENT_CHANGE / PERIODIC report strategies are not driven.",
  "runtime monitor: per-firing reference (probe window + Datalog + R2S) and single-/multi-thread differential under hook-driven schedule perturbation", '4/C10'),
 'C11': ('exploration',
  "Runtime monitoring: multi-window continuous queries (1-3 windows on different / shared / variable streams, optional static data, shared vocabulary with stream-specific subjects, policies Wait / Steal / Timeout, single- and multi-thread mode under hook-driven schedules) are run through RSPBuilder/RSPEngine next to one probe window per stream; every emitted row, restricted to one WINDOW block, must be an answer of that block over a content this very window had reported before the emission, and its static part an answer over the static data alone. A failing row is attributed by where its ground triples exist (other stream, other window on the same stream, static data, nowhere, ...).",
  "Trusted: probe windows (C09), the lexical instantiate-and-contain oracle of c11.rs. Soundness only (missing rows are outside the property).",
  "runtime monitor: provenance check of every emitted row against per-window probe contents, under schedule perturbation", '4/C11'),
 'C12': ('exploration',
  "Runtime monitoring: incremental_sds_plus is driven step by step (its own output fed forward) over exhaustively enumerated small histories (all 32x32 arrival patterns of two streams x 4 rule sets x 3 evaluation grids, complete in the quick tier) and tens of thousands of generated window-consistent histories (renewals just before / at / after expiry, triples in several windows, static graphs, recursion, several derivations with different lifetimes); at every evaluation time the per-component fact sets are compared with the least model over the alive facts (kvcore::mdatalog) and every stored expiry with a threshold sweep over the distinct base expiries (independent of ExpirationProvenance); naive_sds_plus is a second opinion.",
  "Trusted: kvcore::mdatalog, the alive-fact computation and threshold sweep in c12.rs. Positive rules only; histories are generated according to the window-content rule stated in the quantifier rather than produced by the S2R operators.",
  "runtime monitor: recomputation-from-scratch oracle + expiry threshold sweep at every step of generated stream histories", '4/C12'),
 'C13': ('exploration',
  "Runtime monitoring: the five loaders are driven with documents rendered by harness writers (sizes across the 1000-line / 8192-triple chunk boundaries, prefix declarations at the top / repeated / per block, ; and , groups, multi-line statements, CRLF, comments, duplicates) into seven kinds of prior database inside rayon pools of 1, 2, 4 and 16 threads; the lexical snapshot after the load must equal the snapshot before plus exactly the triples the writer recorded, the same triples in different formats must load identically, results must not depend on the pool size, and a second load must be idempotent. Failures are attributed by re-loading 1000-line blocks in isolation and by re-runs that vary size / prior / threads.",
  "Trusted: the document writers of c13.rs (the oracle is what the writer recorded, no parser involved). Blank nodes, escapes, language tags and datatypes are left to C14.",
  "runtime monitor: writer-recorded triple sets vs. lexical snapshots across chunk boundaries, priors, formats and thread pools", '4/C13'),
 'C14': ('exploration',
  "Runtime monitoring with exhaustively enumerated token sets: databases are filled at id level (no text involved), exported with generate_nquads / generate_ntriples / generate_turtle and re-imported into an empty database; the lexical quad set must be reproduced (all graphs for N-Quads, default graph otherwise, up to a blank-node bijection). Workload: 107 hostile literal tokens x 4 placements x 5 term positions x 3 formats and 27 IRI parts x 6 shapes (both exhaustive), token pairs, prefix tables with awkward names, datasets across the 1000-line reader chunk, random datasets with blank nodes in every position and quoted triples nested to depth 3. A failing dataset is taken apart by experiment (quad, object list, subject group, character classes, placement, export-vs-import side via an independent reference reader/writer) to name an irreducible cause.",
  "Trusted: the id-level source snapshot, the independent reference reader/serialiser of c14.rs, the IRI validity check that enforces the quantifier (valid IRIs; literals that cannot be mistaken for an IRI, blank node or quoted triple).",
  "runtime monitor: export/re-import round trip against the id-level source snapshot, exhaustive hostile-token matrix, experimental cause isolation", '4/C14'),
 'C15': ('exploration',
  "Runtime monitoring with online shadow bijections: random call sequences on Dictionary / QuotedTripleStore / encode_term_star (adversarial strings, nested quoted terms in five spellings, ids at the range limits) are checked after every call against a shadow map (same term same id, fresh ids never reused, high bit iff quoted, decode inverse, earlier ids unchanged); unions of 2-3 independently built databases with clashing ids (quads, named-graph catalog incl. empty graphs, nested quoted terms, probability seeds, chains and self-unions) are compared with the set union of lexical models, and both inputs must be bit-for-bit unchanged.",
  "Trusted: the shadow maps and lexical models of c15.rs. A term is its lexical value (untyped store).",
  "runtime monitor: shadow-map bijection checker + lexical set-union oracle for database union", '4/C15'),
 'C16': ('exploration',
  "Runtime monitoring in crash-isolated worker processes (8 MB stack): totality - nesting ladders up to depth 100000 for 22 recursive constructs, every multi-byte character inserted / every truncation and deletion at every offset of seed requests, word swaps, boundary numbers and 11 mutation kinds, through 20 parser entry points; a dead worker, a panic or accepted-but-unconsumed input is a violation. Faithfulness - generated SELECT / update trees are printed token by token with every term class, ; , lists, random layout, comments and keyword case, and the parsed shared::query tree must equal the tree's structural normal form.",
  "Trusted: the token printer and normal form of c16.rs. Extension grammars (RULE, REGISTER, MODEL, ...) appear only in the totality workloads.",
  "runtime monitor: crash-isolated parse workers, exhaustive per-offset mutation, generator/printer round trip against a structural normal form", '4/C16'),
 'C17': ('exploration',
  "Runtime monitoring in crash-isolated worker processes: hostile, generated and mutated request texts are executed through ten string entry points (execute_sparql_query, HTTP GET/POST/form query adapters, execute_sparql_update, execute_update, handle_update, HTTP update adapters, legacy entry) against six database states, with a lexical snapshot of quads and graph catalog before and after every request; query entry points must never change data and must refuse updates, requests the parser rejects must return an error and leave data unchanged, and nothing may panic or kill the process.",
  "Trusted: kvk::ds::snapshot, the worker protocol. One recorded finding (neural-relation predictions stored through the query endpoint) is listed in known_findings.json.",
  "runtime monitor: before/after dataset snapshots around hostile requests in crash-isolated workers", '4/C17'),
 'C18': ('exploration',
  "Runtime monitoring: Reasoner::backward_chaining is run on generated programs (20 rule templates x 12 goal shapes x 14 goal-variable namings incl. the names the engine generates internally, chains with minimal derivation heights 0..13, numeric filters, random safe programs) and every answer, applied to the goal, must be a fact of the least model (kvcore::mdatalog), while every model fact matching the goal with minimal derivation height <= 8 must be returned; each case is also run with goal variables renamed to names the engine can never generate and with shuffled fact / rule order, and the three answer sets must coincide.",
  "Trusted: kvcore::mdatalog (heights = first naive round). Positive safe rules only; completeness demanded for height <= 8 (a margin below the documented MAX_DEPTH of 10).",
  "runtime monitor: least-model oracle with derivation heights, goal-renaming and order differential", '4/C18'),
 'C19': ('exploration',
  "Runtime monitoring: query_with_repairs and repair-aware materialisation are executed on thousands of generated (facts, denial constraints, goal) cases, each repeated in fresh reasoners (per-instance hash seeds change the subset search order), and every returned answer set is compared with an oracle that enumerates all 2^n subsets, keeps the subset-maximal consistent ones and intersects the answers; the materialised store must be consistent and entailed.",
  "Trusted: the backtracking matcher of kvcore::mdatalog, subset enumeration (<= 10 facts).",
  "runtime monitor: all-subsets repair oracle over generated cases, repeated runs", '4/C19'),
}

PENDING_REASON = 'monitor under construction in this round (runtime monitoring applies, see DESIGN.md section 4); not claimed until it has been validated on the unchanged tree'

def main():
    props = [json.loads(l) for l in open('/verif/properties.jsonl')]
    checks, na = [], []
    for p in props:
        i = p['id']
        if i in CLAIMED:
            level, text, note, tech, ref = CLAIMED[i]
            checks.append({
                'property_id': i,
                'quick_cmd': f'./check {i} quick',
                'thorough_cmd': f'./check {i} thorough',
                'evidence_file': f'/verif/evidence/{i}.json',
                'replay_cmd_template': f'./check {i} --replay {{path}}',
                'engine': 'kverif',
                'level_claimed': {'category': level, 'text': text, 'design_ref': ref},
                'level_note': note,
                'technique': tech,
            })
        else:
            na.append({'property_id': i, 'reason': PENDING_REASON})
    hooks_commits = []
    try:
        hooks_commits = [l.strip() for l in open('/verif/tools/hook_commits.txt') if l.strip()]
    except FileNotFoundError:
        pass
    m = {
        'version': 1,
        'setup_cmd': './setup.sh',
        'hooks': {
            'guard': 'cfg(kolibrie_verif)',
            'enable': 'RUSTFLAGS="--cfg kolibrie_verif" (set in /verif/harness/.cargo/config.toml; reaches the repository crates through path dependencies)',
            'baseline_off_cmd': BASE,
            'source_commits': hooks_commits,
            'add_only': True,
        },
        'engines': [{
            'name': 'kverif', 'path': '/verif/harness',
            'serves_properties': [c['property_id'] for c in checks],
            'kind_free_text': 'Rust cargo workspace (kvcore runtime + kvd/kvk monitor binaries) linking the repository crates by path; one monitor binary per property, sharded over worker processes; independent brute-force reference models as oracles; seeded generators, witness shrinking, known-finding signatures',
        }],
        'checks': checks,
        'not_applicable': na,
        'notes': "Runtime monitoring and sanitizers family. ./check <ID> <tier> rebuilds the harness against /repo's working tree (hooks on), runs the monitor in 8/16 worker processes, writes evidence/<ID>.json; exit 0 held-on-observed / 1 VIOLATION / 2 inconclusive. known_findings.json lists recorded and repaired genuine defects. tools/mutant_run.sh runs checks against a patched scratch copy.",
    }
    json.dump(m, open('/verif/MANIFEST.json', 'w'), indent=1)
    print('claimed:', [c['property_id'] for c in checks])
    print('pending:', [n['property_id'] for n in na])

if __name__ == '__main__':
    main()
