#!/usr/bin/env bash
# tools/sweep.sh <tier> <seed> [<seed>...] : run every claimed check at the given seeds, one summary line each
cd /verif
TIER="$1"; shift
IDS=$(python3 -c "import json;print(' '.join(c['property_id'] for c in json.load(open('MANIFEST.json'))['checks']))")
for s in "$@"; do
  for id in $IDS; do
    out=$(VERIF_SEED=$s ./check $id $TIER 2>&1); rc=$?
    echo "seed=$s $id rc=$rc $(echo "$out" | grep -E 'verdict=' | tail -1 | sed 's/.*verdict=/verdict=/' | cut -c1-160)"
    [ $rc -ne 0 ] && echo "$out" | grep -E "^VIOLATION|signature|INCONCLUSIVE" | head -6 | cut -c1-300
  done
done
