#!/usr/bin/env bash
# tools/mutant_run.sh <patch.diff|-> <ID> [quick|thorough] [more IDs...]
# Runs checks against a scratch copy of /repo with a patch applied (never touches /repo).
# The scratch copy (repo + verif + build output) lives under /tmp and is removed afterwards.
# Usage: tools/mutant_run.sh /verif/seeded/foo/patch.diff C05 quick
set -u
PATCH="${1:?patch file or - for none}"; shift
TIER=quick
IDS=()
for a in "$@"; do case "$a" in quick|thorough) TIER="$a";; *) IDS+=("$a");; esac; done
X="$(mktemp -d /tmp/kvm-XXXXXX)"
trap 'rm -rf "$X"' EXIT
mkdir -p "$X/repo" "$X/verif"
rsync -a --exclude target --exclude .git /repo/ "$X/repo/"
rsync -a --exclude target --exclude .git --exclude replay --exclude evidence /verif/ "$X/verif/"
mkdir -p "$X/verif/harness"
# the harness depends on the repository crates by absolute path: point the copy at the scratch repo
sed -i "s#path = \"/repo/#path = \"$X/repo/#" "$X/verif/harness/Cargo.toml"
# reuse compiled registry dependencies
if [ -d /verif/harness/target ]; then cp -a /verif/harness/target "$X/verif/harness/target" 2>/dev/null; fi
if [ "$PATCH" != "-" ]; then
  (cd "$X/repo" && patch -p1 --no-backup-if-mismatch < "$PATCH") || { echo "PATCH DOES NOT APPLY"; exit 3; }
fi
rc_all=0
for ID in "${IDS[@]}"; do
  echo "=== $ID $TIER on mutant $(basename "$(dirname "$PATCH")")/$(basename "$PATCH")"
  (cd "$X/verif" && ./check "$ID" "$TIER") > "$X/out.txt" 2>&1
  rc=$?
  sed -e "s#$X##g" "$X/out.txt" | cut -c1-700 | tail -30
  echo "=== $ID exit=$rc"
  [ "$rc" -ne 0 ] && rc_all=$rc
done
exit $rc_all
