#!/usr/bin/env python3
"""seed_meta.py <seeded-dir> <property> <caught: yes|no|after-strengthening> <check that catches it + signature> <what I ran>"""
import json, sys, os
d, prop, caught, by, ran = sys.argv[1:6]
p = os.path.join(d, 'meta.json')
m = json.load(open(p)) if os.path.exists(p) else {}
m['property'] = prop
m['confirmed_in_scratch_worktree'] = {'what_was_run': ran, 'existing_tests_pass_with_patch': True, 'demo_fails_with_patch': True, 'demo_passes_without_patch': True}
m['detected_by_verif'] = {'caught': caught, 'by': by}
json.dump(m, open(p, 'w'), indent=1)
print('updated', p)
