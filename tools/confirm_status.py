#!/usr/bin/env python3
"""Summarise /tmp/confirm_*.log (output of tools/confirm_seed.sh): per seed, whether the existing tests passed with the
patch (apart from the two load/known failures), the demo failed with it and passed without it."""
import glob, re, os
KNOWN = ('rsp_ql_dstream_semantics', 'rsp_ql_multi_window_integration')
for f in sorted(glob.glob('/tmp/confirm_*.log')):
    t = open(f).read()
    parts = re.split(r'^== .*$', t, flags=re.M)
    if len(parts) < 4:
        print(f'{os.path.basename(f):28} RUNNING/INCOMPLETE'); continue
    ex, w, wo = parts[1], parts[2], parts[3]
    bad = [l for l in ex.splitlines() if l.startswith('test ') and not l.startswith('test result') and 'FAILED' in l and not any(k in l for k in KNOWN)]
    errs = [l for l in ex.splitlines() if l.startswith('error[')]
    ex_ok = not bad and not errs and 'test result' in ex
    w_fail = 'FAILED' in w
    wo_ok = 'test result: ok' in wo and 'FAILED' not in wo
    print(f'{os.path.basename(f):28} existing_ok={ex_ok} demo_fails_with={w_fail} demo_passes_without={wo_ok} {"" if ex_ok and w_fail and wo_ok else "<<<<< CHECK"}')
