#!/usr/bin/env bash
# MANIFEST.setup_cmd: build every monitor offline from files on disk (checked build).
set -eu
cd "$(dirname "$0")"
export CARGO_NET_OFFLINE=true
mkdir -p evidence replay target
cp -n /repo/Cargo.lock harness/Cargo.lock 2>/dev/null || true
(cd harness && cargo build --offline --workspace --bins 2>&1 | tail -5)
echo "setup done"
