//! One-step reductions of a query tree, used to minimise witnesses (a reduction is kept
//! only if the monitor still reports the same signature on it).

use crate::qast::*;

fn expr_reductions(e: &Expr) -> Vec<Expr> {
    let mut out = vec![];
    match e {
        Expr::And(a, b) | Expr::Or(a, b) => {
            out.push((**a).clone());
            out.push((**b).clone());
            for x in expr_reductions(a) {
                out.push(match e {
                    Expr::And(..) => Expr::And(Box::new(x), b.clone()),
                    _ => Expr::Or(Box::new(x), b.clone()),
                });
            }
            for x in expr_reductions(b) {
                out.push(match e {
                    Expr::And(..) => Expr::And(a.clone(), Box::new(x)),
                    _ => Expr::Or(a.clone(), Box::new(x)),
                });
            }
        }
        Expr::Not(a) => {
            out.push((**a).clone());
            for x in expr_reductions(a) {
                out.push(Expr::Not(Box::new(x)));
            }
        }
        _ => {}
    }
    out
}

fn p_reductions(p: &P) -> Vec<Vec<P>> {
    // each result is a replacement list for p (possibly empty = delete, or several elements = inline)
    let mut out: Vec<Vec<P>> = vec![vec![]];
    match p {
        P::Bgp(ts) => {
            if ts.len() > 1 {
                for i in 0..ts.len() {
                    let mut t = ts.clone();
                    t.remove(i);
                    out.push(vec![P::Bgp(t)]);
                }
            }
        }
        P::Group(g) => {
            out.push(g.clone());
            for r in group_reductions(g) {
                out.push(vec![P::Group(r)]);
            }
        }
        P::Union(bs) => {
            for b in bs {
                out.push(vec![P::Group(b.clone())]);
            }
            if bs.len() > 2 {
                for i in 0..bs.len() {
                    let mut b2 = bs.clone();
                    b2.remove(i);
                    out.push(vec![P::Union(b2)]);
                }
            }
            for (i, b) in bs.iter().enumerate() {
                for r in group_reductions(b) {
                    let mut b2 = bs.clone();
                    b2[i] = r;
                    out.push(vec![P::Union(b2)]);
                }
            }
        }
        P::Graph(n, g) => {
            out.push(vec![P::Group(g.clone())]);
            for r in group_reductions(g) {
                out.push(vec![P::Graph(n.clone(), r)]);
            }
        }
        P::Filter(e) => {
            for x in expr_reductions(e) {
                out.push(vec![P::Filter(x)]);
            }
        }
        P::Bind(args, v) => {
            if args.len() > 1 {
                for i in 0..args.len() {
                    let mut a = args.clone();
                    a.remove(i);
                    out.push(vec![P::Bind(a, v.clone())]);
                }
            }
        }
        P::Values(vars, rows) => {
            if rows.len() > 1 {
                for i in 0..rows.len() {
                    let mut r = rows.clone();
                    r.remove(i);
                    out.push(vec![P::Values(vars.clone(), r)]);
                }
            }
            if vars.len() > 1 {
                for i in 0..vars.len() {
                    let mut v = vars.clone();
                    v.remove(i);
                    let r: Vec<Vec<Option<String>>> = rows
                        .iter()
                        .map(|row| {
                            let mut x = row.clone();
                            x.remove(i);
                            x
                        })
                        .collect();
                    out.push(vec![P::Values(v, r)]);
                }
            }
        }
        P::Sub(s) => {
            out.push(vec![P::Group(s.group.clone())]);
            for r in select_reductions(s) {
                out.push(vec![P::Sub(Box::new(r))]);
            }
        }
    }
    out
}

pub fn group_reductions(g: &[P]) -> Vec<Vec<P>> {
    let mut out = vec![];
    for i in 0..g.len() {
        for rep in p_reductions(&g[i]) {
            let mut n: Vec<P> = g[..i].to_vec();
            n.extend(rep);
            n.extend_from_slice(&g[i + 1..]);
            out.push(n);
        }
    }
    out
}

pub fn select_reductions(q: &Select) -> Vec<Select> {
    let mut out = vec![];
    if q.distinct {
        out.push(Select { distinct: false, ..q.clone() });
    }
    if q.limit.is_some() {
        out.push(Select { limit: None, ..q.clone() });
    }
    if !q.order.is_empty() {
        out.push(Select { order: vec![], ..q.clone() });
        if q.order.len() > 1 {
            for i in 0..q.order.len() {
                let mut o = q.order.clone();
                o.remove(i);
                out.push(Select { order: o, ..q.clone() });
            }
        }
    }
    if !q.from.is_empty() || !q.from_named.is_empty() {
        out.push(Select { from: vec![], from_named: vec![], ..q.clone() });
        for i in 0..q.from.len() {
            let mut f = q.from.clone();
            f.remove(i);
            out.push(Select { from: f, ..q.clone() });
        }
        for i in 0..q.from_named.len() {
            let mut f = q.from_named.clone();
            f.remove(i);
            out.push(Select { from_named: f, ..q.clone() });
        }
    }
    if q.has_aggregates() || !q.group_by.is_empty() {
        out.push(Select { proj: Proj::Star, group_by: vec![], order: vec![], ..q.clone() });
        if let Proj::Items(items) = &q.proj {
            if items.len() > 1 {
                for i in 0..items.len() {
                    let mut it = items.clone();
                    let removed = it.remove(i);
                    let name = match &removed {
                        ProjItem::Var(v) => v.clone(),
                        ProjItem::Agg(_, _, a) => a.clone(),
                    };
                    let gb: Vec<String> = q.group_by.iter().filter(|g| **g != name).cloned().collect();
                    let ord: Vec<(String, bool)> = q.order.iter().filter(|(v, _)| *v != name).cloned().collect();
                    out.push(Select { proj: Proj::Items(it), group_by: gb, order: ord, ..q.clone() });
                }
            }
        }
    } else if let Proj::Items(items) = &q.proj {
        out.push(Select { proj: Proj::Star, order: vec![], ..q.clone() });
        if items.len() > 1 {
            for i in 0..items.len() {
                let mut it = items.clone();
                let removed = it.remove(i);
                let name = match &removed {
                    ProjItem::Var(v) => v.clone(),
                    ProjItem::Agg(_, _, a) => a.clone(),
                };
                let ord: Vec<(String, bool)> = q.order.iter().filter(|(v, _)| *v != name).cloned().collect();
                out.push(Select { proj: Proj::Items(it), order: ord, ..q.clone() });
            }
        }
    }
    for g in group_reductions(&q.group) {
        out.push(Select { group: g, ..q.clone() });
    }
    out
}

pub fn size(q: &Select) -> usize {
    print_select(q, &Style::default()).len()
}

// ---------------------------------------------------------------------------------------
// fragment check: a reduced query must still be inside the property's quantifier

fn group_in_fragment(g: &[P]) -> bool {
    let mut scope = vec![];
    group_vars_in_order(g, &mut scope);
    let mut before: Vec<String> = vec![];
    for (i, p) in g.iter().enumerate() {
        match p {
            P::Filter(e) => {
                let mut vs = vec![];
                e.vars(&mut vs);
                if !vs.iter().all(|v| scope.contains(v)) {
                    return false;
                }
            }
            P::Bind(args, out) => {
                for a in args {
                    if let BindArg::Var(v) = a {
                        if !before.contains(v) {
                            return false;
                        }
                    }
                }
                if before.contains(out) {
                    return false;
                }
            }
            P::Group(x) | P::Graph(_, x) => {
                if !group_in_fragment(x) {
                    return false;
                }
            }
            P::Union(bs) => {
                if !bs.iter().all(|b| group_in_fragment(b)) {
                    return false;
                }
            }
            P::Sub(s) => {
                if !select_in_fragment(s, false) {
                    return false;
                }
            }
            _ => {}
        }
        group_vars_in_order(&g[i..i + 1], &mut before);
    }
    true
}

pub fn select_in_fragment(q: &Select, top: bool) -> bool {
    let cols = q.columns();
    if !q.order.iter().all(|(v, _)| cols.contains(v)) {
        return false;
    }
    let mut inner = vec![];
    group_vars_in_order(&q.group, &mut inner);
    if q.has_aggregates() || !q.group_by.is_empty() {
        if let Proj::Items(items) = &q.proj {
            for it in items {
                match it {
                    ProjItem::Var(v) => {
                        if !q.group_by.contains(v) {
                            return false;
                        }
                    }
                    ProjItem::Agg(_, v, _) => {
                        if !inner.contains(v) {
                            return false;
                        }
                    }
                }
            }
        } else {
            return false;
        }
        if !q.group_by.iter().all(|v| inner.contains(v)) {
            return false;
        }
    } else if let Proj::Items(items) = &q.proj {
        for it in items {
            if let ProjItem::Var(v) = it {
                if !inner.contains(v) {
                    return false;
                }
            }
        }
    }
    if !top {
        if let Some(n) = q.limit {
            if n > 0 && q.order.len() != cols.len() {
                return false;
            }
        }
        if !q.from.is_empty() || !q.from_named.is_empty() {
            return false;
        }
    }
    group_in_fragment(&q.group)
}
