//! M-SPARQL: direct, deliberately naive evaluation of the SPARQL 1.1 algebra for the
//! supported fragment over M-DATASET, by nested loops on solution multisets.
//!
//! Nothing here looks at plans, ids, indexes or statistics. Values are lexical strings
//! (the store is untyped; generators keep kinds lexically disjoint).

use crate::ds::{is_num, Dataset, G};
use crate::qast::*;
use std::collections::{BTreeMap, BTreeSet};

pub type Row = BTreeMap<String, String>;
pub type Bag = Vec<Row>;

#[derive(Debug, Clone, PartialEq)]
pub enum EvalError {
    /// intermediate result too large for the brute-force oracle (case is skipped)
    TooBig,
    /// an aggregate ranges over a bound value that is not a number: SPARQL's answer (type
    /// error for SUM/AVG, term ordering for MIN/MAX) cannot be modelled in an untyped store,
    /// so the case is outside the fragment the oracle decides (skipped and counted)
    NonNumericAggregate,
}

pub const MAX_ROWS: usize = 120_000;

/// The query's dataset (after FROM / FROM NAMED replacement)
#[derive(Clone, Debug)]
pub struct View {
    /// graphs merged into the query default graph
    pub default: Vec<G>,
    /// named graphs visible to GRAPH
    pub named: BTreeSet<String>,
}

impl View {
    pub fn of(ds: &Dataset, q: &Select) -> View {
        if q.from.is_empty() && q.from_named.is_empty() {
            View { default: vec![G::Default], named: ds.graphs.clone() }
        } else {
            View {
                default: q.from.iter().map(|g| G::Named(g.clone())).collect(),
                // a graph is a member of the dataset only if it has an identity in the store
                named: q.from_named.iter().filter(|g| ds.graphs.contains(*g)).cloned().collect(),
            }
        }
    }
}

/// Alternative ("lexical") readings of the places where SPARQL raises an expression
/// error. The strict oracle has every flag off. The flags exist only to ATTRIBUTE a
/// disagreement to a cause (re-run the oracle with one reading relaxed and see whether it
/// then reproduces the engine's answer); they never make a disagreement acceptable.
#[derive(Clone, Copy, Debug, Default, PartialEq, Eq)]
pub struct Sem {
    /// an erroring sub-expression counts as false, so `!(error)` is true
    pub error_is_false: bool,
    /// ordering comparison on a non-numeric term uses 0 instead of raising a type error
    pub non_numeric_is_zero: bool,
    /// CONCAT over an unbound variable uses "" instead of leaving the BIND target unbound
    pub bind_unbound_is_empty: bool,
    /// AVG over an empty group is unbound instead of 0
    pub avg_of_nothing_is_unbound: bool,
    /// inside `GRAPH ?g { … }` the graph variable is already bound when the FILTERs / BINDs of
    /// that block's own group are evaluated (the algebra joins ?g only after the block)
    pub graph_variable_prebound: bool,
}

pub struct Ev<'a> {
    pub ds: &'a Dataset,
    pub view: View,
    pub sem: Sem,
}

fn compatible_merge(a: &Row, b: &Row) -> Option<Row> {
    for (k, v) in a {
        if let Some(w) = b.get(k) {
            if w != v {
                return None;
            }
        }
    }
    let mut m = a.clone();
    for (k, v) in b {
        m.entry(k.clone()).or_insert_with(|| v.clone());
    }
    Some(m)
}

pub fn join(a: &Bag, b: &Bag) -> Result<Bag, EvalError> {
    let mut out = vec![];
    for x in a {
        for y in b {
            if let Some(m) = compatible_merge(x, y) {
                out.push(m);
                if out.len() > MAX_ROWS {
                    return Err(EvalError::TooBig);
                }
            }
        }
    }
    Ok(out)
}

/// numeric value of a term: canonical integers of the vocabulary and the decimal spellings
/// produced by aggregates (never words such as "inf" or "nan")
pub fn num(s: &str) -> Option<f64> {
    if is_num(s) {
        return s.parse::<f64>().ok();
    }
    let b = s.as_bytes();
    if b.is_empty() || !(b[0].is_ascii_digit() || (b[0] == b'-' && b.len() > 1 && b[1].is_ascii_digit())) {
        return None;
    }
    if !s.chars().all(|c| c.is_ascii_digit() || matches!(c, '.' | '-' | 'e' | 'E' | '+')) {
        return None;
    }
    s.parse::<f64>().ok().filter(|x| x.is_finite())
}

fn eval_arith(a: &Arith, r: &Row) -> Option<f64> {
    match a {
        Arith::Var(v) => num(r.get(v)?),
        Arith::Num(n) => Some(*n as f64),
        Arith::Add(x, y) => Some(eval_arith(x, r)? + eval_arith(y, r)?),
        Arith::Sub(x, y) => Some(eval_arith(x, r)? - eval_arith(y, r)?),
        Arith::Mul(x, y) => Some(eval_arith(x, r)? * eval_arith(y, r)?),
        Arith::Div(x, y) => {
            let d = eval_arith(y, r)?;
            if d == 0.0 {
                None
            } else {
                Some(eval_arith(x, r)? / d)
            }
        }
    }
}

fn cmp_f(a: f64, op: &str, b: f64) -> bool {
    match op {
        "=" => a == b,
        "!=" => a != b,
        "<" => a < b,
        "<=" => a <= b,
        ">" => a > b,
        ">=" => a >= b,
        _ => false,
    }
}

/// SPARQL three-valued filter evaluation: None = error.
pub fn eval_expr(e: &Expr, r: &Row) -> Option<bool> {
    eval_expr_sem(e, r, &Sem::default())
}

pub fn eval_expr_sem(e: &Expr, r: &Row, sem: &Sem) -> Option<bool> {
    if sem.error_is_false {
        // two-valued reading: every error is false at the point where it arises
        return Some(match e {
            Expr::Not(x) => !eval_expr_sem(x, r, sem).unwrap_or(false),
            Expr::And(a, b) => eval_expr_sem(a, r, sem).unwrap_or(false) && eval_expr_sem(b, r, sem).unwrap_or(false),
            Expr::Or(a, b) => eval_expr_sem(a, r, sem).unwrap_or(false) || eval_expr_sem(b, r, sem).unwrap_or(false),
            atom => eval_expr_sem(atom, r, &Sem { error_is_false: false, ..*sem }).unwrap_or(false),
        });
    }
    match e {
        Expr::CmpL(..) => eval_expr_sem(&e.mirrored().expect("mirrored"), r, sem),
        Expr::Cmp(v, op, t) => {
            let l = r.get(v)?;
            let rv: &String = match t {
                T::Var(w) => r.get(w)?,
                T::Const(c) => c,
            };
            match *op {
                // RDF term equality (untyped store: lexical identity)
                "=" => Some(l == rv),
                "!=" => Some(l != rv),
                _ if sem.non_numeric_is_zero => Some(cmp_f(num(l).unwrap_or(0.0), op, num(rv).unwrap_or(0.0))),
                _ => Some(cmp_f(num(l)?, op, num(rv)?)),
            }
        }
        Expr::ArithCmp(a, op, b) => {
            // `=` / `!=` between two plain operands is RDF term equality (no arithmetic is
            // involved, so a non-numeric term is no error); everything else is numeric
            if matches!(*op, "=" | "!=") {
                let leaf = |x: &Arith| -> Option<Option<String>> {
                    match x {
                        Arith::Var(v) => Some(r.get(v).cloned()),
                        Arith::Num(n) => Some(Some(n.to_string())),
                        _ => None,
                    }
                };
                if let (Some(x), Some(y)) = (leaf(a), leaf(b)) {
                    let (x, y) = (x?, y?);
                    return Some((x == y) == (*op == "="));
                }
            }
            Some(cmp_f(eval_arith(a, r)?, op, eval_arith(b, r)?))
        }
        Expr::Not(x) => eval_expr_sem(x, r, sem).map(|b| !b),
        Expr::And(a, b) => match (eval_expr_sem(a, r, sem), eval_expr_sem(b, r, sem)) {
            (Some(false), _) | (_, Some(false)) => Some(false),
            (Some(true), Some(true)) => Some(true),
            _ => None,
        },
        Expr::Or(a, b) => match (eval_expr_sem(a, r, sem), eval_expr_sem(b, r, sem)) {
            (Some(true), _) | (_, Some(true)) => Some(true),
            (Some(false), Some(false)) => Some(false),
            _ => None,
        },
    }
}

impl<'a> Ev<'a> {
    pub fn new(ds: &'a Dataset, q: &Select) -> Ev<'a> {
        Ev { ds, view: View::of(ds, q), sem: Sem::default() }
    }
    pub fn with_sem(ds: &'a Dataset, q: &Select, sem: Sem) -> Ev<'a> {
        Ev { ds, view: View::of(ds, q), sem }
    }

    /// the set of triples of the active graph (None = the query default graph: the
    /// duplicate-free merge of the default-graph sources)
    fn active_triples(&self, active: &Option<String>) -> BTreeSet<(&'a str, &'a str, &'a str)> {
        let mut out = BTreeSet::new();
        match active {
            Some(g) => {
                for (s, p, o, qg) in &self.ds.quads {
                    if qg.name() == Some(g.as_str()) {
                        out.insert((s.as_str(), p.as_str(), o.as_str()));
                    }
                }
            }
            None => {
                for src in &self.view.default {
                    for (s, p, o, qg) in &self.ds.quads {
                        if qg == src {
                            out.insert((s.as_str(), p.as_str(), o.as_str()));
                        }
                    }
                }
            }
        }
        out
    }

    fn eval_tp(&self, tp: &TP, triples: &BTreeSet<(&str, &str, &str)>) -> Bag {
        let mut out = vec![];
        for (s, p, o) in triples {
            let mut row = Row::new();
            let mut ok = true;
            for (t, v) in [(&tp.0, s), (&tp.1, p), (&tp.2, o)] {
                match t {
                    T::Const(c) => {
                        if c != v {
                            ok = false;
                            break;
                        }
                    }
                    T::Var(name) => match row.get(name) {
                        Some(b) => {
                            if b != v {
                                ok = false;
                                break;
                            }
                        }
                        None => {
                            row.insert(name.clone(), v.to_string());
                        }
                    },
                }
            }
            if ok {
                out.push(row);
            }
        }
        out
    }

    /// Evaluate a group graph pattern (list of elements) with the given active graph.
    pub fn eval_group(&self, g: &[P], active: &Option<String>) -> Result<Bag, EvalError> {
        self.eval_group_seeded(g, active, Row::new())
    }

    fn eval_group_seeded(&self, g: &[P], active: &Option<String>, seed: Row) -> Result<Bag, EvalError> {
        let mut cur: Bag = vec![seed];
        let mut filters: Vec<&Expr> = vec![];
        for p in g {
            match p {
                P::Filter(e) => filters.push(e),
                P::Bind(args, v) => {
                    // Extend(cur, v, CONCAT(args)); an error leaves v unbound
                    for row in cur.iter_mut() {
                        let mut s = String::new();
                        let mut err = false;
                        for a in args {
                            match a {
                                BindArg::Str(x) => s.push_str(x),
                                BindArg::Var(x) => match row.get(x) {
                                    Some(val) => s.push_str(val),
                                    None => {
                                        if !self.sem.bind_unbound_is_empty {
                                            err = true
                                        }
                                    }
                                },
                            }
                        }
                        if !err {
                            row.insert(v.clone(), s);
                        }
                    }
                }
                other => {
                    let rhs = self.eval_p(other, active)?;
                    cur = join(&cur, &rhs)?;
                }
            }
        }
        if !filters.is_empty() {
            cur.retain(|r| filters.iter().all(|f| eval_expr_sem(f, r, &self.sem) == Some(true)));
        }
        Ok(cur)
    }

    fn eval_p(&self, p: &P, active: &Option<String>) -> Result<Bag, EvalError> {
        match p {
            P::Bgp(ts) => {
                let triples = self.active_triples(active);
                let mut cur: Bag = vec![Row::new()];
                for tp in ts {
                    let m = self.eval_tp(tp, &triples);
                    cur = join(&cur, &m)?;
                }
                Ok(cur)
            }
            P::Group(g) => self.eval_group(g, active),
            P::Union(bs) => {
                let mut out = vec![];
                for b in bs {
                    out.extend(self.eval_group(b, active)?);
                    if out.len() > MAX_ROWS {
                        return Err(EvalError::TooBig);
                    }
                }
                Ok(out)
            }
            P::Graph(GName::Iri(g), inner) => {
                if self.view.named.contains(g) && self.ds.graphs.contains(g) {
                    self.eval_group(inner, &Some(g.clone()))
                } else {
                    Ok(vec![])
                }
            }
            P::Graph(GName::Var(v), inner) => {
                let mut out = vec![];
                for g in &self.view.named {
                    if !self.ds.graphs.contains(g) {
                        continue;
                    }
                    let mut gb = Row::new();
                    gb.insert(v.clone(), g.clone());
                    let rows = if self.sem.graph_variable_prebound { self.eval_group_seeded(inner, &Some(g.clone()), gb.clone())? } else { self.eval_group(inner, &Some(g.clone()))? };
                    out.extend(join(&rows, &vec![gb])?);
                    if out.len() > MAX_ROWS {
                        return Err(EvalError::TooBig);
                    }
                }
                Ok(out)
            }
            P::Values(vars, rows) => Ok(rows
                .iter()
                .map(|r| {
                    let mut row = Row::new();
                    for (v, c) in vars.iter().zip(r.iter()) {
                        if let Some(c) = c {
                            row.insert(v.clone(), c.clone());
                        }
                    }
                    row
                })
                .collect()),
            P::Sub(q) => Ok(self.eval_select_inner(q, active)?.rows),
            P::Filter(_) | P::Bind(..) => unreachable!("handled by eval_group"),
        }
    }

    /// SELECT evaluation up to (not including) ORDER BY / LIMIT non-determinism:
    /// returns the full projected answer bag (DISTINCT applied) and, when the query has a
    /// LIMIT, the information needed to check a legal cut.
    pub fn eval_select_inner(&self, q: &Select, active: &Option<String>) -> Result<Answer, EvalError> {
        let rows = self.eval_group(&q.group, active)?;
        let mut rows = if q.has_aggregates() || !q.group_by.is_empty() { aggregate(rows, q, &self.sem)? } else { rows };
        // ORDER BY (stable, by the documented comparator) — only meaningful for the caller
        // when keys are of one kind; the sequence is used for sub-select LIMIT, which the
        // generator only emits with a total order over identical-or-distinct rows.
        if !q.order.is_empty() {
            rows.sort_by(|a, b| total_cmp_rows(a, b, &q.order));
        }
        let cols = q.columns();
        // keys that are not projected: the caller needs the sorted rows with the keys still in them
        let sorted_unprojected = if q.order.iter().any(|(k, _)| !cols.contains(k)) { rows.clone() } else { vec![] };
        let mut projected: Bag = rows
            .into_iter()
            .map(|r| r.into_iter().filter(|(k, _)| cols.contains(k)).collect::<Row>())
            .collect();
        if q.distinct {
            let mut seen = BTreeSet::new();
            projected.retain(|r| seen.insert(r.clone()));
        }
        let full = projected.clone();
        if let Some(l) = q.limit {
            projected.truncate(l);
        }
        Ok(Answer { rows: projected, full, columns: cols, sorted_unprojected })
    }
}

pub struct Answer {
    /// one legal answer (after LIMIT)
    pub rows: Bag,
    /// the answer before LIMIT
    pub full: Bag,
    pub columns: Vec<String>,
    /// only when an ORDER BY key is not projected: the solutions in sorted order, before projection
    pub sorted_unprojected: Bag,
}

/// canonical text of a number (aggregate outputs are compared by value)
pub fn canon_num(x: f64) -> String {
    let r = (x * 1e9).round() / 1e9;
    if r == r.trunc() && r.abs() < 1e15 {
        format!("{}", r as i64)
    } else {
        format!("{}", r)
    }
}

fn aggregate(rows: Bag, q: &Select, sem: &Sem) -> Result<Bag, EvalError> {
    let mut groups: BTreeMap<Vec<Option<String>>, Bag> = BTreeMap::new();
    for r in rows {
        let key: Vec<Option<String>> = q.group_by.iter().map(|v| r.get(v).cloned()).collect();
        groups.entry(key).or_default().push(r);
    }
    if groups.is_empty() && q.group_by.is_empty() {
        groups.insert(vec![], vec![]);
    }
    let items: Vec<ProjItem> = match &q.proj {
        Proj::Items(i) => i.clone(),
        Proj::Star => vec![],
    };
    let mut out = vec![];
    for (key, grp) in groups {
        let mut row = Row::new();
        for (v, k) in q.group_by.iter().zip(key.iter()) {
            if let Some(k) = k {
                row.insert(v.clone(), k.clone());
            }
        }
        for it in &items {
            if let ProjItem::Agg(a, v, alias) = it {
                // numeric values of the group; a bound non-numeric value is a type error for the
                // whole aggregate in SPARQL (generators keep aggregated variables numeric in the
                // core class; such cases are classified separately by the caller)
                if grp.iter().filter_map(|r| r.get(v)).any(|s| num(s).is_none()) {
                    return Err(EvalError::NonNumericAggregate);
                }
                let vals: Vec<f64> = grp.iter().filter_map(|r| r.get(v)).filter_map(|s| num(s)).collect();
                let val = match a {
                    Agg::Sum => Some(vals.iter().sum::<f64>()),
                    Agg::Avg => {
                        if vals.is_empty() {
                            if sem.avg_of_nothing_is_unbound {
                                None
                            } else {
                                Some(0.0)
                            }
                        } else {
                            Some(vals.iter().sum::<f64>() / vals.len() as f64)
                        }
                    }
                    Agg::Min => vals.iter().cloned().fold(None, |m: Option<f64>, x| Some(m.map_or(x, |m| m.min(x)))),
                    Agg::Max => vals.iter().cloned().fold(None, |m: Option<f64>, x| Some(m.map_or(x, |m| m.max(x)))),
                };
                if let Some(x) = val {
                    // spelled like Rust prints an f64 (sums of integers and their quotients
                    // are exactly determined); comparisons of result tables go by value
                    row.insert(alias.clone(), format!("{}", x + 0.0));
                }
            }
        }
        out.push(row);
    }
    Ok(out)
}

/// Compare two rows by ORDER BY keys with the documented comparator (numbers by value,
/// otherwise code-point order, unbound first). None when a key pair mixes a number with a
/// non-number (no order is specified for that in an untyped store).
pub fn cmp_rows(a: &Row, b: &Row, order: &[(String, bool)]) -> Option<std::cmp::Ordering> {
    use std::cmp::Ordering::*;
    for (v, desc) in order {
        let x = a.get(v).map(|s| s.as_str()).unwrap_or("");
        let y = b.get(v).map(|s| s.as_str()).unwrap_or("");
        let c = if x.is_empty() || y.is_empty() {
            x.is_empty().cmp(&y.is_empty()).reverse() // unbound (empty) first
        } else {
            match (num(x), num(y)) {
                (Some(p), Some(q)) => p.partial_cmp(&q).unwrap_or(Equal),
                (None, None) => x.cmp(y),
                _ => return None,
            }
        };
        let c = if *desc { c.reverse() } else { c };
        if c != Equal {
            return Some(c);
        }
    }
    Some(Equal)
}

/// A total order used only inside the oracle (sub-select ORDER BY + LIMIT): unbound, then
/// numbers by value, then other terms by code point. Coincides with `cmp_rows` wherever
/// that one is defined.
pub fn total_cmp_rows(a: &Row, b: &Row, order: &[(String, bool)]) -> std::cmp::Ordering {
    use std::cmp::Ordering::*;
    for (v, desc) in order {
        let key = |r: &Row| -> (u8, f64, String) {
            match r.get(v) {
                None => (0, 0.0, String::new()),
                Some(s) => match num(s) {
                    Some(x) => (1, x, String::new()),
                    None => (2, 0.0, s.clone()),
                },
            }
        };
        let (ka, kb) = (key(a), key(b));
        let c = ka.0.cmp(&kb.0).then(ka.1.partial_cmp(&kb.1).unwrap_or(Equal)).then(ka.2.cmp(&kb.2));
        let c = if *desc { c.reverse() } else { c };
        if c != Equal {
            return c;
        }
    }
    Equal
}
