//! kworker — crash-isolated worker for the C16 / C17 monitors (not a monitor itself).
//!
//! Reads one request per line on stdin (fields separated by TAB, the payload text escaped
//! with `\\`, `\n`, `\r`, `\t`, `\0`), performs it on a thread with an 8 MB stack (the
//! stack the HTTP server gives a request) and answers on the ORIGINAL stdout with
//!     `<id>\t<verdict...>`      after the operation produced its result, and
//!     `<id>\tdone`              after the result value (syntax tree, …) has been dropped.
//! File descriptor 1 itself is redirected to /dev/null so that anything the library
//! prints cannot corrupt the protocol. A panic of the code under test is caught and
//! reported as a verdict (`panic\t<msg @ file:line>`); anything that takes the process
//! down (stack overflow, abort) is seen by the parent as a death and attributed to the
//! request in flight.
//!
//! Requests
//!   `<id>\tP\t<entry>\t<flags>\t<text>`   parse `text` with entry point `entry`
//!        flags: `d` = answer with the JSON dump of the tree, `-` = verdict only
//!        answers: `ok\t<rest_len>\t<json|->` | `err\t<nom kind>\t<where>\t<pos>:<slice len>` | `panic\t<msg>`
//!   `<id>\tX\t<api>\t<state>\t<text>`     execute `text` through `api` against the database
//!        state `state` (`<kind>:<seed>`), snapshotting before and after (C17)
//!        answers: `res\t<json>` | `panic\t<msg>`
//!   `<id>\tQ`                              quit

use kolibrie::parser;
use kolibrie::sparql_database::SparqlDatabase;
use kvcore::Rng;
use kvk::ds::{self, Dataset, Route};
use serde_json::{json, Map, Value};
use shared::query::*;
use std::sync::Mutex;
use std::io::{BufRead, Write};

// ---------------------------------------------------------------------------------------
// protocol helpers

pub fn unescape(s: &str) -> String {
    let mut out = String::with_capacity(s.len());
    let mut it = s.chars();
    while let Some(c) = it.next() {
        if c == '\\' {
            match it.next() {
                Some('n') => out.push('\n'),
                Some('r') => out.push('\r'),
                Some('t') => out.push('\t'),
                Some('0') => out.push('\0'),
                Some('\\') => out.push('\\'),
                Some(o) => {
                    out.push('\\');
                    out.push(o)
                }
                None => out.push('\\'),
            }
        } else {
            out.push(c);
        }
    }
    out
}

fn one_line(s: &str) -> String {
    s.replace('\\', "\\\\").replace('\n', "\\n").replace('\r', "\\r").replace('\t', "\\t")
}

/// first panic message since the last guard() started (panics on rayon threads included)
static LAST_PANIC: Mutex<Option<String>> = Mutex::new(None);

fn guard<T>(f: impl FnOnce() -> T) -> Result<T, String> {
    *LAST_PANIC.lock().unwrap_or_else(|e| e.into_inner()) = None;
    match std::panic::catch_unwind(std::panic::AssertUnwindSafe(f)) {
        Ok(v) => Ok(v),
        Err(_) => Err(LAST_PANIC.lock().unwrap_or_else(|e| e.into_inner()).take().unwrap_or_else(|| "panic (no message)".to_string())),
    }
}

extern "C" {
    fn dup(fd: i32) -> i32;
    fn dup2(a: i32, b: i32) -> i32;
}

// ---------------------------------------------------------------------------------------
// mechanical JSON rendering of shared::query trees (no normalisation happens here)

fn d_arith(a: &ArithmeticExpression) -> Value {
    match a {
        ArithmeticExpression::Operand(s) => json!({ "t": s }),
        ArithmeticExpression::Add(l, r) => json!({"+": [d_arith(l), d_arith(r)]}),
        ArithmeticExpression::Subtract(l, r) => json!({"-": [d_arith(l), d_arith(r)]}),
        ArithmeticExpression::Multiply(l, r) => json!({"*": [d_arith(l), d_arith(r)]}),
        ArithmeticExpression::Divide(l, r) => json!({"/": [d_arith(l), d_arith(r)]}),
    }
}

/// the structure of a comparison operand as the lowering code obtains it: the raw slice
/// re-parsed by `parse_arithmetic_expression`, complete match only
fn d_operand(raw: &str) -> Value {
    match guard(|| parser::parse_arithmetic_expression(raw).ok().and_then(|(rest, e)| if rest.trim().is_empty() { Some(d_arith(&e)) } else { None })) {
        Ok(Some(v)) => v,
        Ok(None) => Value::Null,
        Err(e) => json!({ "panic": e }),
    }
}

fn d_filter(f: &FilterExpression) -> Value {
    match f {
        FilterExpression::Comparison(l, op, r) => json!({"cmp": [l, op, r], "la": d_operand(l), "ra": d_operand(r)}),
        FilterExpression::And(a, b) => json!({"and": [d_filter(a), d_filter(b)]}),
        FilterExpression::Or(a, b) => json!({"or": [d_filter(a), d_filter(b)]}),
        FilterExpression::Not(a) => json!({"not": d_filter(a)}),
        FilterExpression::ArithmeticExpr(a) => json!({"arith": d_arith(a)}),
        FilterExpression::FunctionCall(n, args) => json!({"call": [n, args]}),
    }
}

fn d_triples(ts: &[LexicalTriplePattern]) -> Value {
    Value::from(ts.iter().map(|(s, p, o)| json!([s, p, o])).collect::<Vec<_>>())
}

fn d_group(g: &GroupGraphPattern) -> Value {
    match g {
        GroupGraphPattern::Unit => json!("unit"),
        GroupGraphPattern::Bgp(ts) => json!({"bgp": d_triples(ts)}),
        GroupGraphPattern::Join(v) => json!({"join": v.iter().map(d_group).collect::<Vec<_>>()}),
        GroupGraphPattern::Union(v) => json!({"union": v.iter().map(d_group).collect::<Vec<_>>()}),
        GroupGraphPattern::Graph { name, pattern } => json!({"graph": name, "p": d_group(pattern)}),
        GroupGraphPattern::Filter(f) => json!({"filter": d_filter(f)}),
        GroupGraphPattern::Bind((f, args, v)) => json!({"bind": [f, args, v]}),
        GroupGraphPattern::Values(vc) => json!({"values": {"vars": vc.variables, "rows": vc.values.iter().map(|r| r.iter().map(|c| match c { shared::query::Value::Term(t) => Value::from(t.clone()), shared::query::Value::Undef => Value::Null }).collect::<Vec<_>>()).collect::<Vec<_>>()}}),
        GroupGraphPattern::SubQuery(s) => json!({"sub": d_select(&s.query)}),
    }
}

fn d_select(q: &SelectQuery) -> Value {
    json!({
        "distinct": q.distinct,
        "vars": q.variables.iter().map(|(k, v, a)| json!([k, v, a])).collect::<Vec<_>>(),
        "from": q.from,
        "from_named": q.from_named,
        "pattern": d_group(&q.pattern),
        "group_by": q.group_vars,
        "order": q.order_conditions.iter().map(|c| json!([c.variable, if c.direction == SortDirection::Desc { "DESC" } else { "ASC" }])).collect::<Vec<_>>(),
        "limit": q.limit,
    })
}

fn d_quads(qs: &[LexicalQuadPattern]) -> Value {
    Value::from(qs.iter().map(|q| json!([q.graph, q.triple.0, q.triple.1, q.triple.2])).collect::<Vec<_>>())
}

fn d_update(u: &UpdateOperation) -> Value {
    match u {
        UpdateOperation::InsertData(c) => json!({"insert_data": d_quads(&c.quads)}),
        UpdateOperation::DeleteData(c) => json!({"delete_data": d_quads(&c.quads)}),
        UpdateOperation::InsertWhere { insert, where_pattern } => json!({"insert_where": {"insert": d_quads(&insert.quads), "where": d_group(where_pattern)}}),
        UpdateOperation::DeleteWhere { delete, where_pattern } => json!({"delete_where": {"delete": d_quads(&delete.quads), "where": d_group(where_pattern)}}),
        UpdateOperation::DeleteInsertWhere { delete, insert, where_pattern } => json!({"delete_insert_where": {"delete": d_quads(&delete.quads), "insert": d_quads(&insert.quads), "where": d_group(where_pattern)}}),
        UpdateOperation::DeleteWhereShorthand { delete, where_pattern } => json!({"delete_where_short": {"delete": d_quads(&delete.quads), "where": d_group(where_pattern)}}),
    }
}

fn d_combined(c: &CombinedQuery) -> Value {
    let mut pf = Map::new();
    let mut keys: Vec<&String> = c.prefixes.keys().collect();
    keys.sort();
    for k in keys {
        pf.insert(k.clone(), Value::from(c.prefixes[k].clone()));
    }
    let sparql = match &c.sparql {
        None => Value::Null,
        Some(SparqlOperation::Select(q)) => json!({"select": d_select(q)}),
        Some(SparqlOperation::Update(u)) => json!({"update": d_update(u)}),
    };
    let mut ext = Map::new();
    if let Some(r) = &c.retrieve_clause {
        ext.insert("retrieve".into(), json!({"var": r.variable, "from": r.from_iri, "patterns": r.graph_pattern.len()}));
    }
    if let Some(r) = &c.register_clause {
        ext.insert("register".into(), json!({"out": r.output_stream_iri, "windows": r.query.window_clause.len(), "blocks": r.query.window_blocks.len(), "vars": r.query.variables.len()}));
    }
    if let Some(r) = &c.rule {
        ext.insert("rule".into(), json!({"head": r.head.predicate, "body": r.body.0.len(), "filters": r.body.1.len(), "negated": r.negated_body.len(), "conclusion": r.conclusion.len(), "windows": r.window_clause.len(), "prob": r.prob_annotation.is_some(), "ml_predict": r.ml_predict.is_some()}));
    }
    if let Some(m) = &c.ml_predict {
        ext.insert("ml_predict".into(), json!({"model": m.model, "output": m.output, "where": m.input_where.len(), "select": m.input_select.len()}));
    }
    if !c.model_decls.is_empty() {
        ext.insert("models".into(), json!(c.model_decls.len()));
    }
    if !c.neural_relation_decls.is_empty() {
        ext.insert("neural_relations".into(), json!(c.neural_relation_decls.len()));
    }
    if !c.train_neural_relation_decls.is_empty() {
        ext.insert("train_decls".into(), json!(c.train_neural_relation_decls.len()));
    }
    json!({"prefixes": pf, "sparql": sparql, "ext": ext})
}

// ---------------------------------------------------------------------------------------
// parse requests

/// where the slice carried by a nom error lies relative to the request text
fn locate(input: &str, e: &str) -> (String, i64) {
    let (a, b) = (input.as_ptr() as usize, input.as_ptr() as usize + input.len());
    let (x, y) = (e.as_ptr() as usize, e.as_ptr() as usize + e.len());
    if e.is_empty() {
        // (the comment skipper returns a static "" at the end of the input)
        return ("suffix".into(), input.len() as i64);
    }
    if x >= a && y <= b {
        let off = (x - a) as i64;
        if y == b {
            ("suffix".into(), off)
        } else {
            ("inner".into(), off)
        }
    } else {
        ("foreign".into(), -1)
    }
}

fn ok_line(input: &str, rest: &str, dump: Option<String>) -> String {
    let (w, off) = locate(input, rest);
    let restinfo = if w == "suffix" { format!("{}", rest.len()) } else { format!("{}:{}:{}", w, off, rest.len()) };
    format!("ok\t{}\t{}", restinfo, dump.unwrap_or_else(|| "-".to_string()))
}

fn err_line(input: &str, info: Option<(&str, String)>) -> String {
    match info {
        Some((slice, code)) => {
            let (w, off) = locate(input, slice);
            format!("err\t{}\t{}\t{}:{}", code, w, off, slice.len())
        }
        None => "err\tIncomplete\t-\t-1".to_string(),
    }
}

/// returns the verdict line; the parsed value is dropped by the caller AFTER the verdict
/// has been written (so that a death while dropping is attributed correctly)
fn do_parse(entry: &str, want_dump: bool, text: &str, emit: &mut dyn FnMut(&str)) {
    macro_rules! run {
        ($call:expr, $dump:expr) => {{
            // the nom types are not nameable from this crate (no direct dependency): the
            // error payload is reached through `nom::Err::map`
            match guard(|| match $call {
                Ok((rest, t)) => {
                    let d = if want_dump { Some(($dump)(&t).to_string()) } else { None };
                    (ok_line(text, rest, d), Some(t))
                }
                Err(e) => {
                    let mut info: Option<(&str, String)> = None;
                    let _ = e.map(|inner| {
                        info = Some((inner.input, format!("{:?}", inner.code)));
                    });
                    (err_line(text, info), None)
                }
            }) {
                Ok((line, val)) => {
                    emit(&line);
                    if let Err(e) = guard(move || drop(val)) {
                        emit(&format!("panic\tDROP {}", one_line(&e)));
                    }
                }
                Err(e) => emit(&format!("panic\t{}", one_line(&e))),
            }
        }};
    }
    let dbg_len = |s: String| json!({ "debug_len": s.len() });
    match entry {
        "combined" => run!(parser::parse_combined_query(text), |c: &CombinedQuery| d_combined(c)),
        "combined_alias" => run!(parser::parse_combined_query_with_options(text, true), |c: &CombinedQuery| d_combined(c)),
        "sparql" => run!(parser::parse_sparql_query(text), |q: &SelectQuery| d_select(q)),
        "group" => run!(parser::parse_group_graph_pattern(text), |g: &GroupGraphPattern| d_group(g)),
        "standalone_rule" => run!(parser::parse_standalone_rule(text), |r: &(CombinedRule, std::collections::HashMap<String, String>)| dbg_len(format!("{:?}", r.0))),
        "rule" => run!(parser::parse_rule(text), |r: &CombinedRule| dbg_len(format!("{:?}", r))),
        "ml_predict" => run!(parser::parse_ml_predict(text), |r: &MLPredictClause| dbg_len(format!("{:?}", r))),
        "model" => run!(parser::parse_model_decl(text), |r: &ModelDecl| dbg_len(format!("{:?}", r))),
        "neural" => run!(parser::parse_neural_relation_decl(text), |r: &NeuralRelationDecl| dbg_len(format!("{:?}", r))),
        "train" => run!(parser::parse_train_neural_relation_decl(text), |r: &TrainNeuralRelationDecl| dbg_len(format!("{:?}", r))),
        "register" => run!(parser::parse_register_clause(text), |r: &RegisterClause| dbg_len(format!("{:?}", r))),
        "retrieve" => run!(parser::parse_retrieve_clause(text), |r: &RetrieveClause| dbg_len(format!("{:?}", r))),
        "window" => run!(parser::parse_from_named_window(text), |r: &WindowClause| dbg_len(format!("{:?}", r))),
        "where" => run!(parser::parse_where(text), |r: &_| { let _ = r; json!({}) }),
        "filter" => run!(parser::parse_filter(text), |f: &FilterExpression| d_filter(f)),
        "insert" => run!(parser::parse_insert(text), |c: &InsertClause| d_quads(&c.quads)),
        "delete" => run!(parser::parse_delete(text), |c: &DeleteClause| d_quads(&c.quads)),
        "values" => run!(parser::parse_values(text), |v: &ValuesClause| json!({"vars": v.variables})),
        "bind" => run!(parser::parse_bind(text), |b: &(&str, Vec<&str>, &str)| json!([b.0, b.1, b.2])),
        "rule_call" => run!(parser::parse_rule_call(text), |r: &RuleHead| json!(r.predicate)),
        _ => emit("bad\tunknown entry point"),
    }
}

// ---------------------------------------------------------------------------------------
// execute requests (C17)

/// database states, a pure function of (kind, seed)
fn build_state(kind: &str, seed: u64) -> Result<SparqlDatabase, String> {
    let mut r = Rng::derive(seed, "kworker/state", 0);
    let v = ds::Vocab { n_ent: 4, n_pred: 4, n_graph: 2, n_num: 4, n_word: 2 };
    let mut db = match kind {
        "empty" => SparqlDatabase::new(),
        "small" => {
            let d = ds::gen_dataset(&mut r, &ds::Vocab { n_graph: 0, ..v.clone() }, 8);
            ds::load(&d, Route::InsertData)?
        }
        "graphs" | "stats" | "prefixes" => {
            let mut d = ds::gen_dataset(&mut r, &v, 14);
            // an empty named graph that only exists in the catalog
            d.graphs.insert(ds::graph(7));
            let route = if r.coin() { Route::InsertData } else { Route::Direct };
            ds::load(&d, route)?
        }
        "numeric" => {
            // every entity has a numeric p2 value and a p1 link: usable as features / labels
            let mut d = Dataset::default();
            for i in 0..6usize {
                d.quads.insert((ds::ent(i), ds::pred(2), format!("{}", i % 4), ds::G::Default));
                d.quads.insert((ds::ent(i), ds::pred(1), ds::ent((i + 1) % 6), ds::G::Default));
            }
            ds::load(&d, Route::InsertData)?
        }
        other => return Err(format!("unknown state kind {}", other)),
    };
    if kind == "stats" {
        // make the cached statistics / plan caches exist before the request arrives
        let _ = kolibrie::execute_query::execute_sparql_query("SELECT * WHERE { ?s ?p ?o }", &mut db);
        let _ = kolibrie::execute_query::execute_sparql_query("SELECT ?s WHERE { GRAPH ?g { ?s ?p ?o } }", &mut db);
    }
    if kind == "prefixes" {
        db.prefixes.insert("k".to_string(), ds::NS.to_string());
        db.prefixes.insert("ex".to_string(), "http://example.org/".to_string());
    }
    Ok(db)
}

fn dataset_diff(a: &Dataset, b: &Dataset) -> Value {
    let added: Vec<String> = b.quads.difference(&a.quads).take(5).map(|q| format!("{} {} {} @{}", q.0, q.1, q.2, q.3.name().unwrap_or("DEFAULT"))).collect();
    let removed: Vec<String> = a.quads.difference(&b.quads).take(5).map(|q| format!("{} {} {} @{}", q.0, q.1, q.2, q.3.name().unwrap_or("DEFAULT"))).collect();
    let g_added: Vec<&String> = b.graphs.difference(&a.graphs).collect();
    let g_removed: Vec<&String> = a.graphs.difference(&b.graphs).collect();
    json!({"quads_added": added, "quads_removed": removed, "graphs_added": g_added, "graphs_removed": g_removed, "quads_before": a.quads.len(), "quads_after": b.quads.len()})
}

fn http_envelope(api: &str, text: &str) -> Option<String> {
    fn pct(s: &str) -> String {
        let mut o = String::new();
        for b in s.bytes() {
            if b.is_ascii_alphanumeric() || matches!(b, b'-' | b'_' | b'.' | b'~') {
                o.push(b as char);
            } else {
                o.push_str(&format!("%{:02X}", b));
            }
        }
        o
    }
    Some(match api {
        "http_get" => format!("GET /sparql?query={} HTTP/1.1\r\nHost: localhost\r\n\r\n", pct(text)),
        "http_post_query" => format!("POST /sparql HTTP/1.1\r\nHost: localhost\r\nContent-Type: application/sparql-query\r\nContent-Length: {}\r\n\r\n{}", text.len(), text),
        "http_post_form_query" => {
            let body = format!("query={}", pct(text));
            format!("POST /sparql HTTP/1.1\r\nHost: localhost\r\nContent-Type: application/x-www-form-urlencoded\r\nContent-Length: {}\r\n\r\n{}", body.len(), body)
        }
        "http_post_update" => format!("POST /sparql HTTP/1.1\r\nHost: localhost\r\nContent-Type: application/sparql-update\r\nContent-Length: {}\r\n\r\n{}", text.len(), text),
        "http_post_form_update" => {
            let body = format!("update={}", pct(text));
            format!("POST /sparql HTTP/1.1\r\nHost: localhost\r\nContent-Type: application/x-www-form-urlencoded\r\nContent-Length: {}\r\n\r\n{}", body.len(), body)
        }
        _ => return None,
    })
}

struct StateCache {
    key: String,
    db: Option<SparqlDatabase>,
    snap: Dataset,
}

fn do_exec(api: &str, state: &str, text: &str, cache: &mut StateCache, emit: &mut dyn FnMut(&str)) {
    // (re)build the state unless the cached one is known to be untouched
    if cache.key != state || cache.db.is_none() {
        let (kind, seed) = state.split_once(':').unwrap_or((state, "0"));
        let seed: u64 = seed.parse().unwrap_or(0);
        match guard(|| build_state(kind, seed)) {
            Ok(Ok(db)) => match ds::snapshot(&db) {
                Ok(s) => {
                    cache.key = state.to_string();
                    cache.snap = s;
                    cache.db = Some(db);
                }
                Err(e) => {
                    emit(&format!("bad\tstate snapshot failed: {}", one_line(&e)));
                    return;
                }
            },
            Ok(Err(e)) => {
                emit(&format!("bad\tstate build failed: {}", one_line(&e)));
                return;
            }
            Err(e) => {
                emit(&format!("bad\tstate build panicked: {}", one_line(&e)));
                return;
            }
        }
    }
    let mut db = cache.db.take().expect("state");
    let before = cache.snap.clone();
    let prefixes_before = db.prefixes.len();
    // Ok(rows)/Err(msg) rendered as ("ok"|"err", short text)
    let outcome: Result<(String, String, SparqlDatabase), String> = guard(move || {
        let (k, t) = match api {
            "query" => match kolibrie::execute_query::execute_sparql_query(text, &mut db) {
                Ok(rows) => ("ok".to_string(), format!("{} rows", rows.len())),
                Err(e) => ("err".to_string(), e),
            },
            "update" => match kolibrie::execute_query::execute_sparql_update(text, &mut db) {
                Ok(s) => ("ok".to_string(), format!("+{} -{}", s.inserted_quads, s.deleted_quads)),
                Err(e) => ("err".to_string(), e),
            },
            "db_update" => match db.execute_update(text) {
                Ok(s) => ("ok".to_string(), format!("+{} -{}", s.inserted_quads, s.deleted_quads)),
                Err(e) => ("err".to_string(), e),
            },
            "handle_update" => {
                let s = db.handle_update(text);
                (if s.starts_with("Update Successful") { "ok".to_string() } else { "err".to_string() }, s)
            }
            "volcano" => {
                let rows = kolibrie::execute_query::execute_query_rayon_parallel2_volcano(text, &mut db);
                ("ok".to_string(), format!("{} rows", rows.len()))
            }
            h => match http_envelope(h, text) {
                Some(req) => {
                    let s = db.handle_http_request(&req);
                    let k = if s.starts_with("Query Failed") || s == "Update Failed" || s == "Bad Request" { "err" } else { "ok" };
                    (k.to_string(), s)
                }
                None => ("bad".to_string(), "unknown api".to_string()),
            },
        };
        (k, t, db)
    });
    match outcome {
        Err(e) => {
            // the database value was moved into the panicking closure and is gone
            cache.db = None;
            emit(&format!("panic\t{}", one_line(&e)));
        }
        Ok((k, t, db)) => {
            let after = ds::snapshot(&db);
            let short: String = t.chars().take(300).collect();
            match after {
                Err(e) => {
                    cache.db = None;
                    emit(&format!("res\t{}", json!({"result": k, "text": short, "snapshot_error": e})));
                }
                Ok(a) => {
                    let changed = a != before;
                    let v = json!({"result": k, "text": short, "changed": changed, "diff": if changed { dataset_diff(&before, &a) } else { Value::Null }, "quads": a.quads.len(), "graphs": a.graphs.len(), "prefixes_before": prefixes_before, "prefixes_after": db.prefixes.len()});
                    if changed || db.prefixes.len() != prefixes_before {
                        cache.db = None; // rebuild next time
                    } else {
                        cache.db = Some(db);
                    }
                    emit(&format!("res\t{}", v));
                }
            }
        }
    }
}

// ---------------------------------------------------------------------------------------

fn serve() {
    // keep the protocol channel, silence fd 1 for everything else
    let out_fd = unsafe { dup(1) };
    if let Ok(devnull) = std::fs::OpenOptions::new().write(true).open("/dev/null") {
        use std::os::unix::io::AsRawFd;
        unsafe {
            dup2(devnull.as_raw_fd(), 1);
        }
    }
    use std::os::unix::io::FromRawFd;
    let mut out = unsafe { std::fs::File::from_raw_fd(out_fd) };
    let stdin = std::io::stdin();
    let mut cache = StateCache { key: String::new(), db: None, snap: Dataset::default() };
    let mut line = String::new();
    loop {
        line.clear();
        match stdin.lock().read_line(&mut line) {
            Ok(0) | Err(_) => return,
            Ok(_) => {}
        }
        let l = line.trim_end_matches('\n');
        let mut f = l.splitn(5, '\t');
        let id = f.next().unwrap_or("").to_string();
        let op = f.next().unwrap_or("");
        let mut emit = |s: &str| {
            let _ = out.write_all(format!("{}\t{}\n", id, s).as_bytes());
            let _ = out.flush();
        };
        match op {
            "P" => {
                let entry = f.next().unwrap_or("");
                let flags = f.next().unwrap_or("-");
                let text = unescape(f.next().unwrap_or(""));
                do_parse(entry, flags.contains('d'), &text, &mut emit);
            }
            "X" => {
                let api = f.next().unwrap_or("");
                let state = f.next().unwrap_or("");
                let text = unescape(f.next().unwrap_or(""));
                do_exec(api, state, &text, &mut cache, &mut emit);
            }
            "Q" => return,
            _ => emit("bad\tunknown operation"),
        }
        emit("done");
    }
}

fn main() {
    std::panic::set_hook(Box::new(|info| {
        let msg = if let Some(s) = info.payload().downcast_ref::<&str>() {
            s.to_string()
        } else if let Some(s) = info.payload().downcast_ref::<String>() {
            s.clone()
        } else {
            "<non-string panic>".to_string()
        };
        let loc = info.location().map(|l| format!("{}:{}", l.file(), l.line())).unwrap_or_default();
        let mut g = LAST_PANIC.lock().unwrap_or_else(|e| e.into_inner());
        if g.is_none() {
            *g = Some(format!("{} @ {}", msg, loc));
        }
    }));
    let stack = std::env::var("KWORKER_STACK_MB").ok().and_then(|s| s.parse::<usize>().ok()).unwrap_or(8);
    let t = std::thread::Builder::new().name("kworker-main".into()).stack_size(stack << 20).spawn(serve).expect("spawn worker thread");
    let _ = t.join();
}
