//! C14 — Exported data re-imports to the same dataset.
//!
//! Event: the text produced by `generate_nquads` / `generate_ntriples` / `generate_turtle`
//! on a database filled through the id-level API (dictionary + quoted-triple store +
//! `add_quad`, no text involved), and the lexical quads of a fresh database after
//! `parse_nquads_and_add` / `parse_ntriples_and_add` / `parse_turtle` of that text.
//! Oracle: set equality of lexical quads (N-Quads: all graphs; the other two: the default
//! graph only), up to a bijection on blank-node labels.  No engine code produces the
//! expected value: it is the snapshot of what was put in.
//!
//! Attribution of a refuted case (all of it by experiment, nothing by pattern-matching
//! messages):
//!  * isolation: every quad on its own, then object lists, then subject groups, then the
//!    rest; inside one literal the character classes are tried apart (sub-sets of size
//!    0..3 kept, the other non-alphanumeric characters turned into letters);
//!  * reduction: quads by ddmin (bisection on the count for big datasets), prefix table,
//!    graph names, one occurrence at a time, quoted triples, consistent renaming of every
//!    term to a plain one, characters of the remaining literals / IRIs - every step must
//!    stay inside the quantifier, keep failing in the same way (difference / same panic)
//!    and must not move a hostile character between the inside and the ends of a literal;
//!  * placement: the reduced literal padded with a letter on both sides, run again;
//!  * fault side: the export of the reduced case read by a reference reader (W3C
//!    N-Triples-star / N-Quads-star grammar + the Turtle subset the writer uses) and the
//!    reference serialisation of the reduced case read by the engine.
//! The signature is (format, fault side, what could NOT be removed).

use kolibrie::sparql_database::SparqlDatabase;
use kvcore::{guard, hash_str, json, panic_site, Ctx, Rng, Spec, Value};
use shared::dataset_index::{GraphId, Quad};
use shared::quoted_triple_store::is_quoted_triple_id;
use std::collections::{BTreeMap, BTreeSet, HashMap};

const RULE: &str = "Phases: (tokens) every token of a 107-entry hostile alphabet (quotes, backslash, LF/CR/CRLF/tab, other control characters, Unicode white space, < > << >> <b>, # @ @en ^^ ^^<datatype>, . ; , {| |}, escape look-alikes, non-BMP / combining / RTL / CJK, numbers, pname look-alikes, brackets ...) x 4 placements (alone, leading, inner, trailing) x 5 term positions (object literal in the default graph / in a named graph, literal inside a quoted triple used as object / as subject / nested twice) x 3 formats, exhaustively; (iris) every character class legal in an IRI x 6 IRI shapes (http, https, urn, mailto, custom scheme) x 5 positions x 3 formats, exhaustively; (big) 1001-2600 quad datasets (N-Triples reader chunking) with benign literals; (pairs) ordered pairs of tokens as one object literal x 3 formats (exhaustive in the thorough tier, sampled in quick); (prefixes) random datasets with a prefix table on the database (Turtle emits it) whose names include the empty name, names that are legal IRI schemes and names that are not, and terms spelled like prefixed names; (random) random datasets of 1-10 quads with repeated subjects/predicates, IRIs of many schemes, blank nodes in subject/object/graph position, quoted triples up to depth 3, named graphs incl. the same triple in two graphs, literals concatenated from 0-6 hostile tokens, x 3 formats - a failing dataset is taken apart (every quad alone, object lists, subject groups, rest). Every literal is filtered so that neither it nor its trimmed form looks like an absolute IRI (scheme ':'), a blank node ('_:') or a quoted triple ('<<'). Non-trivial = the dataset holds a literal with a non-alphanumeric character (or the empty literal), a blank node or a quoted triple and the export was re-imported; distinct by hash of (dataset, prefix table).";

// ---------------------------------------------------------------------------------------
// model terms (typed, so the quantifier can be checked) and their untyped image

#[derive(Clone, Debug, PartialEq, Eq, PartialOrd, Ord, Hash)]
enum T {
    Iri(String),
    /// label including the leading "_:"
    Blank(String),
    Lit(String),
    Q(Box<(T, T, T)>),
}

#[derive(Clone, Debug, PartialEq, Eq, PartialOrd, Ord, Hash)]
struct Qd {
    s: T,
    p: T,
    o: T,
    g: Option<T>,
}

#[derive(Clone, Debug, PartialEq, Eq)]
struct Case {
    quads: Vec<Qd>,
    prefixes: Vec<(String, String)>,
}

/// what the (untyped) store can hold: strings and quoted triples of them
#[derive(Clone, Debug, PartialEq, Eq, PartialOrd, Ord, Hash)]
enum U {
    A(String),
    Q(Box<(U, U, U)>),
}
type UQuad = (U, U, U, Option<U>);
type LexQuad = (String, String, String, Option<String>);

fn erase(t: &T) -> U {
    match t {
        T::Iri(x) | T::Blank(x) | T::Lit(x) => U::A(x.clone()),
        T::Q(b) => U::Q(Box::new((erase(&b.0), erase(&b.1), erase(&b.2)))),
    }
}

/// the rendering `decode_any` documents: `<< s p o >>`, atoms verbatim
fn lex(u: &U) -> String {
    match u {
        U::A(x) => x.clone(),
        U::Q(b) => format!("<< {} {} {} >>", lex(&b.0), lex(&b.1), lex(&b.2)),
    }
}
fn lex_quad(q: &UQuad) -> LexQuad {
    (lex(&q.0), lex(&q.1), lex(&q.2), q.3.as_ref().map(lex))
}

#[derive(Clone, Copy, Debug, PartialEq, Eq)]
enum F {
    NQuads,
    NTriples,
    Turtle,
}
const FORMATS: [F; 3] = [F::NQuads, F::NTriples, F::Turtle];
impl F {
    fn name(self) -> &'static str {
        match self {
            F::NQuads => "nquads",
            F::NTriples => "ntriples",
            F::Turtle => "turtle",
        }
    }
}

// ---------------------------------------------------------------------------------------
// the quantifier: syntactically valid IRIs, literals that cannot be mistaken

/// `scheme ":"` with scheme = ALPHA *( ALPHA / DIGIT / "+" / "-" / "." ) — written from RFC 3986,
/// not copied from the repository.
fn has_scheme(s: &str) -> bool {
    match s.find(':') {
        None => false,
        Some(i) => {
            let sch = &s[..i];
            let mut cs = sch.chars();
            match cs.next() {
                Some(c) if c.is_ascii_alphabetic() => cs.all(|c| c.is_ascii_alphanumeric() || c == '+' || c == '-' || c == '.'),
                _ => false,
            }
        }
    }
}

fn valid_iri(s: &str) -> bool {
    if !has_scheme(s) {
        return false;
    }
    let i = s.find(':').unwrap();
    let rest: Vec<char> = s[i + 1..].chars().collect();
    if rest.is_empty() {
        return false;
    }
    let mut hashes = 0;
    let mut k = 0;
    while k < rest.len() {
        let c = rest[k];
        match c {
            'A'..='Z' | 'a'..='z' | '0'..='9' => {}
            '-' | '.' | '_' | '~' | '!' | '$' | '&' | '\'' | '(' | ')' | '*' | '+' | ',' | ';' | '=' | ':' | '@' | '/' | '?' => {}
            '#' => {
                hashes += 1;
                if hashes > 1 {
                    return false;
                }
            }
            '%' => {
                if k + 2 >= rest.len() {
                    return false;
                }
                if !(rest[k + 1].is_ascii_hexdigit() && rest[k + 2].is_ascii_hexdigit()) {
                    return false;
                }
                k += 2;
            }
            c if (c as u32) >= 0xA0 && c.is_alphanumeric() => {}
            _ => return false,
        }
        k += 1;
    }
    true
}

/// a literal that neither as written nor trimmed looks like an IRI, a blank node or a quoted triple
fn unmistakable(l: &str) -> bool {
    for v in [l, l.trim()] {
        if has_scheme(v) || v.starts_with("_:") || v.starts_with("<<") {
            return false;
        }
    }
    true
}

fn valid_blank(b: &str) -> bool {
    match b.strip_prefix("_:") {
        None => false,
        Some(l) => {
            let cs: Vec<char> = l.chars().collect();
            !cs.is_empty() && cs[0].is_ascii_alphanumeric() && cs[cs.len() - 1] != '.' && cs.iter().all(|c| c.is_ascii_alphanumeric() || *c == '_' || *c == '-' || *c == '.')
        }
    }
}

#[derive(Clone, Copy, PartialEq)]
enum Pos {
    S,
    P,
    O,
    G,
}

fn valid_term(t: &T, pos: Pos) -> bool {
    match t {
        T::Iri(x) => valid_iri(x),
        T::Blank(x) => pos != Pos::P && valid_blank(x),
        T::Lit(x) => pos == Pos::O && unmistakable(x),
        T::Q(b) => (pos == Pos::S || pos == Pos::O) && valid_term(&b.0, Pos::S) && valid_term(&b.1, Pos::P) && valid_term(&b.2, Pos::O),
    }
}

fn valid_case(c: &Case) -> bool {
    c.quads.iter().all(|q| valid_term(&q.s, Pos::S) && valid_term(&q.p, Pos::P) && valid_term(&q.o, Pos::O) && q.g.as_ref().map_or(true, |g| !matches!(g, T::Q(_)) && valid_term(g, Pos::G)))
        && c.prefixes.iter().all(|(_, iri)| valid_iri(iri))
}

// ---------------------------------------------------------------------------------------
// driving the real API

fn enc(db: &SparqlDatabase, t: &T) -> u32 {
    match t {
        T::Iri(x) | T::Blank(x) | T::Lit(x) => db.dictionary.write().unwrap().encode(x),
        T::Q(b) => {
            let (s, p, o) = (enc(db, &b.0), enc(db, &b.1), enc(db, &b.2));
            db.quoted_triple_store.write().unwrap().encode(s, p, o)
        }
    }
}

fn build(c: &Case, order: Option<&mut Rng>) -> SparqlDatabase {
    let mut db = SparqlDatabase::new();
    let mut qs: Vec<&Qd> = c.quads.iter().collect();
    if let Some(r) = order {
        r.shuffle(&mut qs);
    }
    for q in qs {
        let (s, p, o) = (enc(&db, &q.s), enc(&db, &q.p), enc(&db, &q.o));
        let graph = match &q.g {
            None => GraphId::Default,
            Some(g) => GraphId::Named(enc(&db, g)),
        };
        db.add_quad(Quad { subject: s, predicate: p, object: o, graph });
    }
    if !c.prefixes.is_empty() {
        db.set_prefixes(c.prefixes.iter().cloned().collect::<HashMap<_, _>>());
    }
    db
}

fn dec(db: &SparqlDatabase, id: u32) -> Result<U, String> {
    if is_quoted_triple_id(id) {
        let c = db.quoted_triple_store.read().unwrap().decode(id).ok_or_else(|| format!("quoted triple id {} undecodable", id))?;
        Ok(U::Q(Box::new((dec(db, c.0)?, dec(db, c.1)?, dec(db, c.2)?))))
    } else {
        db.dictionary.read().unwrap().decode(id).map(|s| U::A(s.to_string())).ok_or_else(|| format!("term id {} undecodable", id))
    }
}

fn snapshot(db: &SparqlDatabase) -> Result<BTreeSet<UQuad>, String> {
    let mut out = BTreeSet::new();
    for q in db.dataset_index.all_quads() {
        let g = match q.graph {
            GraphId::Default => None,
            GraphId::Named(id) => Some(dec(db, id)?),
        };
        out.insert((dec(db, q.subject)?, dec(db, q.predicate)?, dec(db, q.object)?, g));
    }
    Ok(out)
}

/// A panic named by source file and message with every number and quoted value blanked
/// ("begin > end (1 > 0) when slicing `\"`" -> "begin > end (N > N) when slicing"): line
/// numbers move with every edit of the file and must not be part of a signature.
fn panic_kind(msg: &str) -> String {
    let site = panic_site(msg);
    let file = site.rsplit_once(':').map(|(f, _)| f.to_string()).unwrap_or(site);
    let text = msg.rsplit_once(" @ ").map(|(m, _)| m).unwrap_or(msg);
    // cut at the first quoted value, blank the numbers
    let text = text.split('`').next().unwrap_or("").trim_end();
    let mut out = String::new();
    let mut last_digit = false;
    for c in text.chars() {
        if c.is_ascii_digit() {
            if !last_digit {
                out.push('N');
            }
            last_digit = true;
        } else {
            out.push(c);
            last_digit = false;
        }
    }
    format!("{}: {}", file, out.chars().take(80).collect::<String>())
}

enum Res {
    Same { structural_same: bool, relabelled: bool, text_len: usize },
    Diff { text: String, expected: BTreeSet<LexQuad>, got: BTreeSet<LexQuad> },
    Panic { stage: &'static str, msg: String },
    /// the store does not hold what was put in: nothing can be said about the round trip
    Store(String),
}

impl Res {
    fn mode(&self) -> Option<String> {
        match self {
            Res::Diff { .. } => Some("diff".into()),
            Res::Panic { stage, msg } => Some(format!("panic/{}/{}", stage, panic_kind(msg))),
            _ => None,
        }
    }
}

fn blanks_of(set: &BTreeSet<UQuad>) -> BTreeSet<String> {
    fn walk(u: &U, out: &mut BTreeSet<String>) {
        match u {
            U::A(x) => {
                if x.starts_with("_:") {
                    out.insert(x.clone());
                }
            }
            U::Q(b) => {
                walk(&b.0, out);
                walk(&b.1, out);
                walk(&b.2, out);
            }
        }
    }
    let mut out = BTreeSet::new();
    for q in set {
        walk(&q.0, &mut out);
        walk(&q.1, &mut out);
        walk(&q.2, &mut out);
        if let Some(g) = &q.3 {
            walk(g, &mut out);
        }
    }
    out
}

fn relabel(u: &U, m: &BTreeMap<String, String>) -> U {
    match u {
        U::A(x) => U::A(m.get(x).cloned().unwrap_or_else(|| x.clone())),
        U::Q(b) => U::Q(Box::new((relabel(&b.0, m), relabel(&b.1, m), relabel(&b.2, m)))),
    }
}

/// is there a bijection got-blanks -> expected-blanks making the sets equal (<= 6 blanks)?
fn equal_up_to_blanks(expected: &BTreeSet<UQuad>, got: &BTreeSet<UQuad>) -> bool {
    let be: Vec<String> = blanks_of(expected).into_iter().collect();
    let bg: Vec<String> = blanks_of(got).into_iter().collect();
    if be.len() != bg.len() || be == bg || be.is_empty() || be.len() > 6 || expected.len() != got.len() {
        return false;
    }
    fn perms(n: usize) -> Vec<Vec<usize>> {
        if n == 0 {
            return vec![vec![]];
        }
        let mut out = vec![];
        for p in perms(n - 1) {
            for i in 0..=p.len() {
                let mut q = p.clone();
                q.insert(i, n - 1);
                out.push(q);
            }
        }
        out
    }
    for p in perms(be.len()) {
        let m: BTreeMap<String, String> = bg.iter().enumerate().map(|(i, b)| (b.clone(), be[p[i]].clone())).collect();
        let mapped: BTreeSet<UQuad> = got.iter().map(|q| (relabel(&q.0, &m), relabel(&q.1, &m), relabel(&q.2, &m), q.3.as_ref().map(|g| relabel(g, &m)))).collect();
        if &mapped == expected {
            return true;
        }
    }
    false
}

fn roundtrip(c: &Case, f: F, order: Option<&mut Rng>) -> Res {
    let built = guard(|| {
        let db = build(c, order);
        let snap = snapshot(&db);
        (db, snap)
    });
    let (db, snap) = match built {
        Ok(x) => x,
        Err(e) => return Res::Store(format!("building the source database panicked: {}", e)),
    };
    let stored = match snap {
        Ok(s) => s,
        Err(e) => return Res::Store(e),
    };
    let put_in: BTreeSet<UQuad> = c.quads.iter().map(|q| (erase(&q.s), erase(&q.p), erase(&q.o), q.g.as_ref().map(erase))).collect();
    if stored != put_in {
        return Res::Store(format!("source database holds {} quads, {} distinct quads were added", stored.len(), put_in.len()));
    }
    let expected: BTreeSet<UQuad> = match f {
        F::NQuads => stored,
        _ => stored.into_iter().filter(|q| q.3.is_none()).collect(),
    };
    let text = match guard(|| match f {
        F::NQuads => db.generate_nquads(),
        F::NTriples => db.generate_ntriples(),
        F::Turtle => db.generate_turtle(),
    }) {
        Ok(t) => t,
        Err(e) => return Res::Panic { stage: "generate", msg: e },
    };
    let parsed = guard(|| {
        let mut d = SparqlDatabase::new();
        match f {
            F::NQuads => d.parse_nquads_and_add(&text),
            F::NTriples => d.parse_ntriples_and_add(&text),
            F::Turtle => d.parse_turtle(&text),
        }
        snapshot(&d)
    });
    let got = match parsed {
        Err(e) => return Res::Panic { stage: "parse", msg: e },
        Ok(Err(e)) => {
            // an undecodable id after import: report as a difference with nothing readable
            return Res::Diff { text, expected: expected.iter().map(lex_quad).collect(), got: [(format!("<snapshot of the re-imported database failed: {}>", e), String::new(), String::new(), None)].into_iter().collect() };
        }
        Ok(Ok(g)) => g,
    };
    let le: BTreeSet<LexQuad> = expected.iter().map(lex_quad).collect();
    let lg: BTreeSet<LexQuad> = got.iter().map(lex_quad).collect();
    if le == lg {
        return Res::Same { structural_same: expected == got, relabelled: false, text_len: text.len() };
    }
    if equal_up_to_blanks(&expected, &got) {
        return Res::Same { structural_same: true, relabelled: true, text_len: text.len() };
    }
    Res::Diff { text, expected: le, got: lg }
}

// ---------------------------------------------------------------------------------------
// reference writer and reader (W3C N-Triples-star / N-Quads-star grammar and the Turtle
// subset generate_turtle uses: @prefix lines, ';' and ',' lists, statements over several
// lines).  Used ONLY to say which half of a failing round trip is at fault; never to
// produce the expected dataset.

fn ref_escape(x: &str) -> String {
    let mut o = String::new();
    for c in x.chars() {
        match c {
            '\\' => o.push_str("\\\\"),
            '"' => o.push_str("\\\""),
            '\n' => o.push_str("\\n"),
            '\r' => o.push_str("\\r"),
            c => o.push(c),
        }
    }
    o
}
fn ref_term(t: &T) -> String {
    match t {
        T::Iri(x) => format!("<{}>", x),
        T::Blank(x) => x.clone(),
        T::Lit(x) => format!("\"{}\"", ref_escape(x)),
        T::Q(b) => format!("<< {} {} {} >>", ref_term(&b.0), ref_term(&b.1), ref_term(&b.2)),
    }
}
fn ref_write(c: &Case, f: F) -> String {
    let mut o = String::new();
    match f {
        F::NQuads | F::NTriples => {
            for q in &c.quads {
                match (&q.g, f) {
                    (None, _) => o.push_str(&format!("{} {} {} .\n", ref_term(&q.s), ref_term(&q.p), ref_term(&q.o))),
                    (Some(g), F::NQuads) => o.push_str(&format!("{} {} {} {} .\n", ref_term(&q.s), ref_term(&q.p), ref_term(&q.o), ref_term(g))),
                    _ => {}
                }
            }
        }
        F::Turtle => {
            for (p, i) in &c.prefixes {
                o.push_str(&format!("@prefix {}: <{}> .\n", p, i));
            }
            let mut by_s: BTreeMap<&T, BTreeMap<&T, Vec<&T>>> = BTreeMap::new();
            for q in c.quads.iter().filter(|q| q.g.is_none()) {
                by_s.entry(&q.s).or_default().entry(&q.p).or_default().push(&q.o);
            }
            for (s, ps) in by_s {
                o.push_str(&ref_term(s));
                for (i, (p, os)) in ps.iter().enumerate() {
                    o.push_str(if i == 0 { " " } else { " ;\n    " });
                    o.push_str(&ref_term(p));
                    for (j, ob) in os.iter().enumerate() {
                        o.push_str(if j == 0 { " " } else { " , " });
                        o.push_str(&ref_term(ob));
                    }
                }
                o.push_str(" .\n");
            }
        }
    }
    o
}

struct RefReader {
    cs: Vec<char>,
    i: usize,
    /// second reading only: inside << >> accept a bare token without white space, quote,
    /// angle bracket or backslash as the term it spells (the repository writes the
    /// components of quoted triples that way; not N-Triples-star, but unambiguous)
    bare_inside_quoted: bool,
    depth: usize,
}
impl RefReader {
    fn peek(&self) -> Option<char> {
        self.cs.get(self.i).copied()
    }
    fn skip(&mut self) {
        while let Some(c) = self.peek() {
            if c == ' ' || c == '\t' || c == '\n' || c == '\r' {
                self.i += 1;
            } else if c == '#' {
                while let Some(c) = self.peek() {
                    if c == '\n' {
                        break;
                    }
                    self.i += 1;
                }
            } else {
                break;
            }
        }
    }
    fn err<X>(&self, what: &str) -> Result<X, String> {
        Err(format!("{} at character {}", what, self.i))
    }
    fn term(&mut self) -> Result<U, String> {
        self.skip();
        match self.peek() {
            Some('<') if self.cs.get(self.i + 1) == Some(&'<') => {
                self.i += 2;
                self.depth += 1;
                let s = self.term()?;
                let p = self.term()?;
                let o = self.term()?;
                self.depth -= 1;
                self.skip();
                if self.peek() == Some('>') && self.cs.get(self.i + 1) == Some(&'>') {
                    self.i += 2;
                    Ok(U::Q(Box::new((s, p, o))))
                } else {
                    self.err("quoted triple not closed by '>>' after three terms")
                }
            }
            Some('<') => {
                self.i += 1;
                let mut x = String::new();
                loop {
                    match self.peek() {
                        None => return self.err("IRI not closed"),
                        Some('>') => {
                            self.i += 1;
                            return Ok(U::A(x));
                        }
                        Some(c) if (c as u32) <= 0x20 || "<\"{}|^`\\".contains(c) => return self.err("character not allowed inside <...>"),
                        Some(c) => {
                            x.push(c);
                            self.i += 1;
                        }
                    }
                }
            }
            Some('_') if self.cs.get(self.i + 1) == Some(&':') => {
                let mut x = String::from("_:");
                self.i += 2;
                while let Some(c) = self.peek() {
                    if c.is_alphanumeric() || c == '_' || c == '-' || c == '.' {
                        x.push(c);
                        self.i += 1;
                    } else {
                        break;
                    }
                }
                while x.ends_with('.') {
                    x.pop();
                    self.i -= 1;
                }
                if x.len() == 2 {
                    return self.err("empty blank node label");
                }
                Ok(U::A(x))
            }
            Some('"') => {
                self.i += 1;
                let mut x = String::new();
                loop {
                    let Some(c) = self.peek() else { return self.err("literal not closed") };
                    self.i += 1;
                    match c {
                        '"' => break,
                        '\n' | '\r' => return self.err("raw line break inside a literal"),
                        '\\' => {
                            let Some(e) = self.peek() else { return self.err("dangling backslash") };
                            self.i += 1;
                            match e {
                                't' => x.push('\t'),
                                'b' => x.push('\u{8}'),
                                'n' => x.push('\n'),
                                'r' => x.push('\r'),
                                'f' => x.push('\u{c}'),
                                '"' => x.push('"'),
                                '\'' => x.push('\''),
                                '\\' => x.push('\\'),
                                'u' | 'U' => {
                                    let n = if e == 'u' { 4 } else { 8 };
                                    let mut v = 0u32;
                                    for _ in 0..n {
                                        let Some(d) = self.peek().and_then(|d| d.to_digit(16)) else { return self.err("bad \\u escape") };
                                        v = v * 16 + d;
                                        self.i += 1;
                                    }
                                    match char::from_u32(v) {
                                        Some(ch) => x.push(ch),
                                        None => return self.err("\\u escape is not a scalar value"),
                                    }
                                }
                                _ => return self.err("unknown escape in literal"),
                            }
                        }
                        c => x.push(c),
                    }
                }
                match self.peek() {
                    Some('@') | Some('^') => self.err("language tag / datatype (never emitted for this store)"),
                    _ => Ok(U::A(x)),
                }
            }
            Some(c) if self.bare_inside_quoted && self.depth > 0 && c != '>' => {
                let mut x = String::new();
                while let Some(c) = self.peek() {
                    if c == ' ' || c == '\t' || c == '\n' || c == '\r' {
                        break;
                    }
                    if c == '"' || c == '<' || c == '>' || c == '\\' {
                        return self.err("bare term inside << >> contains a delimiter character");
                    }
                    x.push(c);
                    self.i += 1;
                }
                Ok(U::A(x))
            }
            Some(_) => self.err("not the start of a term"),
            None => self.err("unexpected end of text"),
        }
    }
    fn punct(&mut self, c: char) -> bool {
        self.skip();
        if self.peek() == Some(c) {
            self.i += 1;
            true
        } else {
            false
        }
    }
}

fn ref_read(text: &str, f: F, bare_inside_quoted: bool) -> Result<BTreeSet<UQuad>, String> {
    let mut r = RefReader { cs: text.chars().collect(), i: 0, bare_inside_quoted, depth: 0 };
    let mut out = BTreeSet::new();
    loop {
        r.skip();
        if r.peek().is_none() {
            return Ok(out);
        }
        if f == F::Turtle && r.peek() == Some('@') {
            // @prefix name: <iri> .
            while let Some(c) = r.peek() {
                if c == '<' {
                    break;
                }
                if c == '\n' {
                    return r.err("malformed @prefix line");
                }
                r.i += 1;
            }
            r.term()?;
            if !r.punct('.') {
                return r.err("'.' expected after @prefix");
            }
            continue;
        }
        let s = r.term()?;
        loop {
            let p = r.term()?;
            loop {
                let o = r.term()?;
                let mut g = None;
                if f == F::NQuads {
                    r.skip();
                    if r.peek() != Some('.') {
                        g = Some(r.term()?);
                    }
                }
                out.insert((s.clone(), p.clone(), o, g));
                if f == F::Turtle && r.punct(',') {
                    continue;
                }
                break;
            }
            if f == F::Turtle && r.punct(';') {
                r.skip();
                if r.peek() == Some('.') {
                    break;
                }
                continue;
            }
            break;
        }
        if !r.punct('.') {
            return r.err("'.' expected at the end of the statement");
        }
        if f != F::Turtle {
            // one statement per line
            while let Some(c) = r.peek() {
                if c == '\n' {
                    break;
                }
                if c != ' ' && c != '\t' && c != '\r' {
                    return r.err("second statement on the same line");
                }
                r.i += 1;
            }
        }
    }
}

/// which half of the round trip of `c` is at fault, judged against the reference grammar
fn fault_side(c: &Case, f: F) -> (String, Value, bool) {
    let db = build(c, None);
    let expected: BTreeSet<LexQuad> = c.quads.iter().filter(|q| f == F::NQuads || q.g.is_none()).map(|q| lex_quad(&(erase(&q.s), erase(&q.p), erase(&q.o), q.g.as_ref().map(erase)))).collect();
    let text = guard(|| match f {
        F::NQuads => db.generate_nquads(),
        F::NTriples => db.generate_ntriples(),
        F::Turtle => db.generate_turtle(),
    });
    let mut export_valid = true;
    let (export_ok, export_note) = match &text {
        Err(e) => (false, format!("export panicked: {}", e)),
        Ok(t) => match ref_read(t, f, false) {
            Err(e) => {
                export_valid = false;
                // not the standard grammar; is it at least the unambiguous bare spelling?
                match ref_read(t, f, true) {
                    Ok(set) if set.iter().map(lex_quad).collect::<BTreeSet<LexQuad>>() == expected => (true, format!("export is not valid {} ({}), but with bare terms inside << >> read as written it denotes the dataset", f.name(), e)),
                    _ => (false, format!("export is not valid {}: {}", f.name(), e)),
                }
            }
            Ok(set) => {
                let l: BTreeSet<LexQuad> = set.iter().map(lex_quad).collect();
                if l == expected {
                    (true, "export is valid and denotes the dataset".to_string())
                } else {
                    (false, format!("export is valid {} but denotes a different dataset", f.name()))
                }
            }
        },
    };
    let rtext = ref_write(c, f);
    let imported = guard(|| {
        let mut d = SparqlDatabase::new();
        match f {
            F::NQuads => d.parse_nquads_and_add(&rtext),
            F::NTriples => d.parse_ntriples_and_add(&rtext),
            F::Turtle => d.parse_turtle(&rtext),
        }
        snapshot(&d)
    });
    let (import_ok, import_note) = match imported {
        Err(e) => (false, format!("import of the reference text panicked: {}", e)),
        Ok(Err(e)) => (false, e),
        Ok(Ok(set)) => {
            let l: BTreeSet<LexQuad> = set.iter().map(lex_quad).collect();
            if l == expected {
                (true, "the reader reads the reference serialisation correctly".to_string())
            } else {
                (false, "the reader misreads the reference serialisation".to_string())
            }
        }
    };
    // a wrong export is reported as such whether or not the reader has a defect of its own
    // for the same content (that defect shows, as an import fault, in the formats whose
    // export is right, and in the attribution detail here)
    let side = match (export_ok, import_ok) {
        (false, _) => "export",
        (true, false) => "import",
        (true, true) => "only_in_combination",
    };
    (side.to_string(), json!({"export": export_note, "import": import_note, "reference_serialisation": rtext}), export_valid)
}

// ---------------------------------------------------------------------------------------
// alphabet

const TOKENS: &[(&str, &str)] = &[
    ("dquote", "\""),
    ("backslash", "\\"),
    ("lf", "\n"),
    ("cr", "\r"),
    ("crlf", "\r\n"),
    ("tab", "\t"),
    ("nul", "\0"),
    ("soh", "\u{1}"),
    ("backspace", "\u{8}"),
    ("vtab", "\u{b}"),
    ("formfeed", "\u{c}"),
    ("esc", "\u{1b}"),
    ("unit_sep", "\u{1f}"),
    ("del", "\u{7f}"),
    ("nel", "\u{85}"),
    ("nbsp", "\u{a0}"),
    ("line_sep", "\u{2028}"),
    ("para_sep", "\u{2029}"),
    ("bom", "\u{feff}"),
    ("zwsp", "\u{200b}"),
    ("em_space", "\u{2003}"),
    ("ideographic_space", "\u{3000}"),
    ("space", " "),
    ("two_spaces", "  "),
    ("lt", "<"),
    ("gt", ">"),
    ("ltlt", "<<"),
    ("gtgt", ">>"),
    ("tag", "<b>"),
    ("close_tag", "</b>"),
    ("angle_iri", "<http://k/x>"),
    ("hash", "#"),
    ("at", "@"),
    ("lang_suffix", "@en"),
    ("carets", "^^"),
    ("datatype_suffix", "^^<http://www.w3.org/2001/XMLSchema#integer>"),
    ("dot", "."),
    ("space_dot", " ."),
    ("semicolon", ";"),
    ("space_semicolon", " ;"),
    ("comma", ","),
    ("ann_open", "{|"),
    ("ann_close", "|}"),
    ("annotation", "{| x y |}"),
    ("ann_empty", "{||}"),
    ("ann_reversed", "|}{|"),
    ("squote", "'"),
    ("triple_squote", "'''"),
    ("triple_dquote", "\"\"\""),
    ("quoted_word", "\"hi\""),
    ("esc_t", "\\t"),
    ("esc_n", "\\n"),
    ("esc_quote", "\\\""),
    ("esc_backslash", "\\\\"),
    ("esc_u", "\\u0041"),
    ("esc_big_u", "\\U0001F600"),
    ("esc_unknown", "\\x"),
    ("esc_u_short", "\\u12"),
    ("emoji", "\u{1F600}"),
    ("math_fraktur", "\u{1D518}"),
    ("gothic", "\u{10348}"),
    ("combining_acute", "e\u{301}"),
    ("lone_combining", "\u{301}"),
    ("rtl_override", "\u{202e}"),
    ("cjk", "\u{6F22}\u{5B57}"),
    ("latin1", "\u{e9}"),
    ("sharp_s", "\u{df}"),
    ("dotted_i", "\u{130}"),
    ("arabic", "\u{639}\u{631}\u{628}\u{64A}"),
    ("zwj_sequence", "\u{1F469}\u{200d}\u{1F4BB}"),
    ("max_code_point", "\u{10ffff}"),
    ("replacement_char", "\u{fffd}"),
    ("private_use", "\u{e000}"),
    ("word", "hello"),
    ("two_words", "hello world"),
    ("digit", "1"),
    ("negative", "-5"),
    ("decimal", "3.14"),
    ("exponent", "1e9"),
    ("bool", "true"),
    ("letter_a", "a"),
    ("underscore", "_"),
    ("colon", ":"),
    ("colon_name", ":x"),
    ("underscore_space_colon", "_ :"),
    ("pname_like", "p_1:x"),
    ("digit_colon", "1:2"),
    ("http_word", "http"),
    ("slashes", "//"),
    ("percent", "%20"),
    ("entity", "&amp;"),
    ("lbracket", "["),
    ("rbracket", "]"),
    ("lparen", "("),
    ("rparen", ")"),
    ("lbrace", "{"),
    ("rbrace", "}"),
    ("pipe", "|"),
    ("star", "*"),
    ("variable", "?x"),
    ("dollar", "$"),
    ("equals", "="),
    ("plus", "+"),
    ("tilde", "~"),
    ("backtick", "`"),
    ("slash", "/"),
    ("bang", "!"),
];

const PLACEMENTS: [&str; 4] = ["alone", "leading", "inner", "trailing"];
fn place(tok: &str, placement: usize) -> String {
    match placement {
        0 => tok.to_string(),
        1 => format!("{}a", tok),
        2 => format!("a{}a", tok),
        _ => format!("a{}", tok),
    }
}

const POSITIONS: [&str; 5] = ["object", "object_in_named_graph", "inside_quoted_object", "inside_quoted_subject", "inside_nested_quoted_subject"];

fn iri(n: usize) -> T {
    T::Iri(format!("http://k/i{}", n))
}

fn case_with_literal(l: &str, position: usize) -> Case {
    let lit = T::Lit(l.to_string());
    let q = match position {
        0 => Qd { s: iri(0), p: iri(1), o: lit, g: None },
        1 => Qd { s: iri(0), p: iri(1), o: lit, g: Some(iri(2)) },
        2 => Qd { s: iri(0), p: iri(1), o: T::Q(Box::new((iri(2), iri(3), lit))), g: None },
        3 => Qd { s: T::Q(Box::new((iri(2), iri(3), lit))), p: iri(1), o: iri(0), g: None },
        _ => Qd { s: T::Q(Box::new((T::Q(Box::new((iri(2), iri(3), lit))), iri(4), iri(5)))), p: iri(1), o: iri(0), g: None },
    };
    Case { quads: vec![q], prefixes: vec![] }
}

/// characters (or short sequences) legal inside an IRI, each embedded in `http://k/a<X>b`
const IRI_PARTS: &[(&str, &str)] = &[
    ("hyphen", "-"),
    ("dot", "."),
    ("underscore", "_"),
    ("tilde", "~"),
    ("bang", "!"),
    ("dollar", "$"),
    ("ampersand", "&"),
    ("squote", "'"),
    ("lparen", "("),
    ("rparen", ")"),
    ("star", "*"),
    ("plus", "+"),
    ("comma", ","),
    ("semicolon", ";"),
    ("equals", "="),
    ("colon", ":"),
    ("at", "@"),
    ("slash", "/"),
    ("double_slash", "//"),
    ("question", "?"),
    ("query", "?x=1&y=2"),
    ("fragment", "#"),
    ("percent_escape", "%20"),
    ("percent_quote", "%22"),
    ("latin1", "\u{e9}"),
    ("cjk", "\u{6F22}"),
    ("non_bmp", "\u{10348}"),
];
const IRI_SHAPES: &[&str] = &["http://k/a{}b", "http://k/a{}", "https://k.example/{}", "urn:k:a{}b", "mailto:a{}b@k.example", "x-k+a.b:{}"];
const IRI_POSITIONS: [&str; 5] = ["subject", "predicate", "object", "graph", "inside_quoted_subject"];

fn case_with_iri(x: &str, position: usize) -> Case {
    let t = T::Iri(x.to_string());
    let q = match position {
        0 => Qd { s: t, p: iri(1), o: T::Lit("a".into()), g: None },
        1 => Qd { s: iri(0), p: t, o: T::Lit("a".into()), g: None },
        2 => Qd { s: iri(0), p: iri(1), o: t, g: None },
        3 => Qd { s: iri(0), p: iri(1), o: T::Lit("a".into()), g: Some(t) },
        _ => Qd { s: T::Q(Box::new((t.clone(), iri(3), t))), p: iri(1), o: iri(0), g: None },
    };
    Case { quads: vec![q], prefixes: vec![] }
}

// ---------------------------------------------------------------------------------------
// random generators

fn gen_literal(r: &mut Rng, benign: bool) -> String {
    const BENIGN: &[&str] = &["hello", "w", "1", "3.14", "true", "\u{6F22}\u{5B57}", "\u{1F600}", "\u{e9}", "x y", "a.b", "a,b", "a;b", "a#b", "a@b", "it's", "(x)", "a-b", "a_b", "e\u{301}", "50%", "a/b", "a=b", "a+b", "\u{639}\u{631}"];
    for _ in 0..20 {
        let mut s = String::new();
        if benign {
            for i in 0..r.range(1, 3) {
                if i > 0 {
                    s.push(' ');
                }
                s.push_str(*r.pick(BENIGN));
            }
            s.push_str(&format!("{}", r.below(100000)));
        } else {
            let n = [0, 1, 1, 1, 2, 2, 2, 3, 3, 4, 6][r.below(11)];
            for _ in 0..n {
                if r.chance(1, 4) {
                    s.push_str(*r.pick(&["a", "b c", "x", "Z9", "w"][..]));
                }
                s.push_str(r.pick(TOKENS).1);
            }
            if n > 0 && r.chance(1, 5) {
                s.push_str(*r.pick(&["a", "z", "0"][..]));
            }
        }
        if unmistakable(&s) {
            return s;
        }
    }
    "a".to_string()
}

fn gen_iri(r: &mut Rng) -> String {
    for _ in 0..20 {
        let s = match r.below(10) {
            0..=3 => format!("http://k/e{}", r.below(6)),
            4 => format!("https://example.org/path/to#frag{}", r.below(3)),
            5 => format!("urn:isbn:04514505{}", r.below(100)),
            6 => format!("mailto:user{}@example.org", r.below(3)),
            7 => format!("file:///tmp/x{}.ttl", r.below(3)),
            _ => {
                let shape = r.pick(IRI_SHAPES);
                let mut body = String::new();
                for _ in 0..r.range(1, 3) {
                    body.push_str(r.pick(IRI_PARTS).1);
                    if r.coin() {
                        body.push_str(*r.pick(&["a", "B", "7", "zz"][..]));
                    }
                }
                shape.replace("{}", &body)
            }
        };
        if valid_iri(&s) {
            return s;
        }
    }
    "http://k/e0".to_string()
}

fn gen_blank(r: &mut Rng) -> String {
    r.pick(&["_:b0", "_:b1", "_:B-1", "_:x.y", "_:genid123", "_:kolibrie-update-1-0", "_:a_b", "_:0"][..]).to_string()
}

fn gen_quoted(r: &mut Rng, depth: usize, benign: bool) -> T {
    let s = match r.below(20) {
        0..=11 => T::Iri(gen_iri(r)),
        12..=14 => T::Blank(gen_blank(r)),
        _ => {
            if depth < 2 {
                gen_quoted(r, depth + 1, benign)
            } else {
                T::Iri(gen_iri(r))
            }
        }
    };
    let o = match r.below(10) {
        0..=3 => T::Lit(gen_literal(r, benign)),
        4..=6 => T::Iri(gen_iri(r)),
        7 => T::Blank(gen_blank(r)),
        _ => {
            if depth < 2 {
                gen_quoted(r, depth + 1, benign)
            } else {
                T::Lit(gen_literal(r, benign))
            }
        }
    };
    T::Q(Box::new((s, T::Iri(gen_iri(r)), o)))
}

fn gen_subject(r: &mut Rng, benign: bool) -> T {
    match r.below(20) {
        0..=12 => T::Iri(gen_iri(r)),
        13..=15 => T::Blank(gen_blank(r)),
        _ => gen_quoted(r, 0, benign),
    }
}

fn gen_object(r: &mut Rng, benign: bool) -> T {
    match r.below(20) {
        0..=10 => T::Lit(gen_literal(r, benign)),
        11..=13 => T::Iri(gen_iri(r)),
        14..=15 => T::Blank(gen_blank(r)),
        _ => gen_quoted(r, 0, benign),
    }
}

const PREFIX_POOL: &[(&str, &str)] = &[("", "http://k/"), ("ex", "http://example.org/"), ("geo", "http://www.opengis.net/ont/geosparql#"), ("p_1", "http://k/p1/"), ("urn", "http://k/urn/"), ("xsd", "http://www.w3.org/2001/XMLSchema#"), ("rdf", "http://www.w3.org/1999/02/22-rdf-syntax-ns#")];

fn gen_case(r: &mut Rng, n_quads: usize, with_prefixes: bool, benign: bool) -> Case {
    let subjects: Vec<T> = (0..r.range(1, 3.max(n_quads / 300))).map(|_| gen_subject(r, benign)).collect();
    let preds: Vec<T> = (0..r.range(1, 3)).map(|_| T::Iri(gen_iri(r))).collect();
    let mut graphs: Vec<Option<T>> = vec![None];
    for _ in 0..r.below(3) {
        graphs.push(Some(if r.chance(1, 4) { T::Blank(gen_blank(r)) } else { T::Iri(gen_iri(r)) }));
    }
    let mut prefixes = vec![];
    let mut extra_objects: Vec<T> = vec![];
    if with_prefixes {
        let mut pool: Vec<&(&str, &str)> = PREFIX_POOL.iter().collect();
        r.shuffle(&mut pool);
        for (p, i) in pool.into_iter().take(r.range(1, 4)) {
            prefixes.push((p.to_string(), i.to_string()));
            // terms that collide with the prefix syntactically
            let local = *r.pick(&["x", "37.78,-122.39", "a/b", ""][..]);
            let cand = format!("{}:{}", p, local);
            if valid_iri(&cand) {
                extra_objects.push(T::Iri(cand));
            } else if unmistakable(&cand) {
                extra_objects.push(T::Lit(cand));
            }
        }
    }
    let mut quads: Vec<Qd> = vec![];
    for _ in 0..n_quads {
        if !quads.is_empty() && r.chance(1, 8) {
            // the same triple again in another graph
            let mut q = r.pick(&quads).clone();
            q.g = r.pick(&graphs).clone();
            quads.push(q);
            continue;
        }
        let s = r.pick(&subjects).clone();
        let p = r.pick(&preds).clone();
        let o = if !extra_objects.is_empty() && r.chance(1, 3) {
            r.pick(&extra_objects).clone()
        } else if !quads.is_empty() && r.chance(1, 10) {
            r.pick(&quads).o.clone()
        } else {
            gen_object(r, benign)
        };
        let s = if with_prefixes && r.chance(1, 6) {
            match extra_objects.iter().find(|t| matches!(t, T::Iri(_))) {
                Some(t) => t.clone(),
                None => s,
            }
        } else {
            s
        };
        let g = if r.chance(3, 5) { None } else { r.pick(&graphs).clone() };
        quads.push(Qd { s, p, o, g });
    }
    quads.sort();
    quads.dedup();
    Case { quads, prefixes }
}

// ---------------------------------------------------------------------------------------
// display

fn show(t: &T) -> String {
    match t {
        T::Iri(x) => format!("<{}>", x),
        T::Blank(x) => x.clone(),
        T::Lit(x) => serde_json::to_string(x).unwrap_or_default(),
        T::Q(b) => format!("<< {} {} {} >>", show(&b.0), show(&b.1), show(&b.2)),
    }
}
fn case_json(c: &Case) -> Value {
    json!({
        "quads (literals as JSON strings)": c.quads.iter().map(|q| format!("{} {} {} {}", show(&q.s), show(&q.p), show(&q.o), q.g.as_ref().map(show).unwrap_or_else(|| "DEFAULT".into()))).collect::<Vec<_>>(),
        "prefixes": c.prefixes.iter().map(|(p, i)| format!("{}: <{}>", p, i)).collect::<Vec<_>>(),
    })
}
fn case_hash(c: &Case) -> u64 {
    hash_str(&format!("{:?}", c))
}
fn lexquads_json(s: &BTreeSet<LexQuad>, cap: usize) -> Value {
    Value::from(s.iter().take(cap).map(|q| json!([q.0, q.1, q.2, q.3.clone().unwrap_or_else(|| "DEFAULT".into())])).collect::<Vec<_>>())
}

// ---------------------------------------------------------------------------------------
// reduction

fn map_term(t: &T, f: &dyn Fn(&T) -> Option<T>) -> T {
    if let Some(n) = f(t) {
        return n;
    }
    match t {
        T::Q(b) => T::Q(Box::new((map_term(&b.0, f), map_term(&b.1, f), map_term(&b.2, f)))),
        other => other.clone(),
    }
}
fn map_case(c: &Case, f: &dyn Fn(&T) -> Option<T>) -> Case {
    let mut quads: Vec<Qd> = c.quads.iter().map(|q| Qd { s: map_term(&q.s, f), p: map_term(&q.p, f), o: map_term(&q.o, f), g: q.g.as_ref().map(|g| map_term(g, f)) }).collect();
    quads.sort();
    quads.dedup();
    Case { quads, prefixes: c.prefixes.clone() }
}
fn terms_of(c: &Case) -> Vec<T> {
    fn walk(t: &T, out: &mut Vec<T>) {
        if !out.contains(t) {
            out.push(t.clone());
        }
        if let T::Q(b) = t {
            walk(&b.0, out);
            walk(&b.1, out);
            walk(&b.2, out);
        }
    }
    let mut out = vec![];
    for q in &c.quads {
        walk(&q.s, &mut out);
        walk(&q.p, &mut out);
        walk(&q.o, &mut out);
        if let Some(g) = &q.g {
            walk(g, &mut out);
        }
    }
    out
}
fn is_plain_iri(x: &str) -> bool {
    x.strip_prefix("http://k/i").map_or(false, |n| !n.is_empty() && n.chars().all(|c| c.is_ascii_digit()))
}
fn is_plain_lit(x: &str) -> bool {
    x.strip_prefix('a').map_or(false, |n| n.chars().all(|c| c.is_ascii_digit()))
}
fn fresh_iri(c: &Case) -> T {
    let ts = terms_of(c);
    (0..).map(iri).find(|t| !ts.contains(t)).unwrap()
}
fn fresh_lit(c: &Case) -> T {
    let ts = terms_of(c);
    (0..).map(|n| T::Lit(format!("a{}", n))).find(|t| !ts.contains(t)).unwrap()
}

struct Reducer<'a> {
    f: F,
    mode: String,
    evals: &'a mut u64,
    backward: bool,
    /// (character class, edge|inner) pairs of the hostile literals of the case being reduced:
    /// a reduction step must not move a hostile character from the inside of a literal to
    /// one of its ends or back (defects that only concern the ends of a literal, like
    /// trimming, would otherwise swallow defects that concern the same character inside)
    allowed: BTreeSet<String>,
}

impl<'a> Reducer<'a> {
    fn fails(&mut self, c: &Case) -> bool {
        if c.quads.is_empty() || !valid_case(c) || !hostile_pairs(c).is_subset(&self.allowed) {
            return false;
        }
        *self.evals += 1;
        roundtrip(c, self.f, None).mode().as_deref() == Some(self.mode.as_str())
    }

    fn ddmin_quads(&mut self, cur: &mut Case) -> bool {
        let mut changed = false;
        let mut tries_left: usize = usize::MAX;
        if cur.quads.len() > 200 {
            // big dataset: every step costs a round trip of the whole thing.  Drop what the
            // format does not export, look for a threshold on the number of quads by
            // bisection (failures of big datasets are about counts: chunking), then spend a
            // bounded number of ordinary ddmin steps.
            if self.f != F::NQuads {
                let mut cand = cur.clone();
                cand.quads.retain(|q| q.g.is_none());
                if cand.quads.len() < cur.quads.len() && self.fails(&cand) {
                    *cur = cand;
                    changed = true;
                }
            }
            let all = cur.quads.clone();
            let (mut lo, mut hi) = (1usize, all.len());
            while lo < hi {
                let mid = (lo + hi) / 2;
                let cand = Case { quads: all[..mid].to_vec(), prefixes: cur.prefixes.clone() };
                if self.fails(&cand) {
                    hi = mid;
                } else {
                    lo = mid + 1;
                }
            }
            if lo < all.len() {
                let cand = Case { quads: all[..lo].to_vec(), prefixes: cur.prefixes.clone() };
                if self.fails(&cand) {
                    *cur = cand;
                    changed = true;
                }
            }
            tries_left = 120;
        }
        let mut n = 2usize;
        while cur.quads.len() >= 2 && tries_left > 0 {
            let len = cur.quads.len();
            let chunk = (len + n - 1) / n;
            let mut reduced = false;
            let mut starts: Vec<usize> = (0..len).step_by(chunk).collect();
            if self.backward {
                starts.reverse();
            }
            for st in starts {
                if tries_left == 0 {
                    break;
                }
                tries_left -= 1;
                let mut cand = cur.clone();
                cand.quads.drain(st..(st + chunk).min(len));
                if self.fails(&cand) {
                    *cur = cand;
                    n = (n - 1).max(2);
                    reduced = true;
                    changed = true;
                    break;
                }
            }
            if !reduced {
                if chunk == 1 {
                    break;
                }
                n = (n * 2).min(len);
            }
        }
        changed
    }

    /// shrink string `x` (all occurrences of term `from`) while the case keeps failing
    fn shrink_string(&mut self, cur: &mut Case, from: &T) -> bool {
        let (mut s, is_lit): (Vec<char>, bool) = match from {
            T::Lit(x) => (x.chars().collect(), true),
            T::Iri(x) => (x.chars().collect(), false),
            _ => return false,
        };
        let mk = |cs: &[char]| -> T {
            let x: String = cs.iter().collect();
            if is_lit {
                T::Lit(x)
            } else {
                T::Iri(x)
            }
        };
        let mut holder = from.clone();
        let mut changed = false;
        // chunk deletion, large to small
        let mut size = (s.len() / 2).max(1);
        loop {
            let mut any = false;
            let mut i: isize = if self.backward { s.len() as isize - size as isize } else { 0 };
            while i >= 0 && (i as usize) + size <= s.len() && !s.is_empty() {
                let iu = i as usize;
                let mut cand_s = s.clone();
                cand_s.drain(iu..iu + size);
                let nt = mk(&cand_s);
                let cand = map_case(cur, &|t| if *t == holder { Some(nt.clone()) } else { None });
                if nt != holder && self.fails(&cand) {
                    *cur = cand;
                    s = cand_s;
                    holder = nt;
                    any = true;
                    changed = true;
                    if self.backward {
                        i = (i - size as isize).min(s.len() as isize - size as isize);
                    }
                } else if self.backward {
                    i -= 1;
                } else {
                    i += 1;
                }
            }
            if size == 1 && !any {
                break;
            }
            if !any || size > s.len() {
                size = (size / 2).max(1);
            }
            if s.is_empty() {
                break;
            }
        }
        // character simplification: plain letter, else plain space for white space
        if is_lit {
            for i in 0..s.len() {
                let c0 = s[i];
                let mut cands: Vec<char> = vec![];
                if c0 != 'a' {
                    cands.push('a');
                }
                if c0.is_whitespace() && c0 != ' ' && c0 != '\n' && c0 != '\r' {
                    cands.push(' ');
                }
                for r in cands {
                    let mut cand_s = s.clone();
                    cand_s[i] = r;
                    let nt = mk(&cand_s);
                    let cand = map_case(cur, &|t| if *t == holder { Some(nt.clone()) } else { None });
                    if self.fails(&cand) {
                        *cur = cand;
                        s = cand_s;
                        holder = nt;
                        changed = true;
                        break;
                    }
                }
            }
        }
        changed
    }

    fn reduce(&mut self, start: &Case) -> Case {
        let mut cur = start.clone();
        cur.quads.sort();
        cur.quads.dedup();
        for _round in 0..6 {
            let mut changed = self.ddmin_quads(&mut cur);
            if cur.quads.len() > 40 {
                // a failure that needs this many quads is about their number (chunking),
                // not about their terms: leave the terms alone (each step would cost a
                // round trip of the whole dataset)
                break;
            }
            // prefixes
            let mut i = 0;
            while i < cur.prefixes.len() {
                let mut cand = cur.clone();
                cand.prefixes.remove(i);
                if self.fails(&cand) {
                    cur = cand;
                    changed = true;
                } else {
                    i += 1;
                }
            }
            // graph names
            for i in 0..cur.quads.len() {
                if cur.quads[i].g.is_some() {
                    let mut cand = cur.clone();
                    cand.quads[i].g = None;
                    cand.quads.sort();
                    cand.quads.dedup();
                    if cand.quads.len() == cur.quads.len() && self.fails(&cand) {
                        cur = cand;
                        changed = true;
                    }
                }
            }
            // one occurrence at a time: subject / object of a quad replaced by a plain term
            for i in 0..cur.quads.len() {
                for which in 0..2 {
                    let t = if which == 0 { cur.quads[i].s.clone() } else { cur.quads[i].o.clone() };
                    let plain = match &t {
                        T::Iri(x) => is_plain_iri(x),
                        T::Lit(x) => is_plain_lit(x),
                        _ => false,
                    };
                    if plain {
                        continue;
                    }
                    let mut cands = vec![];
                    if which == 1 && matches!(t, T::Lit(_)) {
                        cands.push(T::Lit("a".into()));
                    }
                    cands.push(fresh_iri(&cur));
                    for nt in cands {
                        let mut cand = cur.clone();
                        if which == 0 {
                            cand.quads[i].s = nt;
                        } else {
                            cand.quads[i].o = nt;
                        }
                        cand.quads.sort();
                        cand.quads.dedup();
                        if cand.quads.len() == cur.quads.len() && self.fails(&cand) {
                            cur = cand;
                            changed = true;
                            break;
                        }
                    }
                }
            }
            // quoted triples: replace by a plain IRI, or hoist an inner quoted triple
            for t in terms_of(&cur) {
                if let T::Q(b) = &t {
                    if !terms_of(&cur).contains(&t) {
                        continue;
                    }
                    let fi = fresh_iri(&cur);
                    let mut cands = vec![fi];
                    for inner in [&b.0, &b.2] {
                        if matches!(inner, T::Q(_)) {
                            cands.push(inner.clone());
                        }
                    }
                    for nt in cands {
                        let cand = map_case(&cur, &|x| if *x == t { Some(nt.clone()) } else { None });
                        if self.fails(&cand) {
                            cur = cand;
                            changed = true;
                            break;
                        }
                    }
                }
            }
            // consistent renaming of atoms to plain ones
            for t in terms_of(&cur) {
                if !terms_of(&cur).contains(&t) {
                    continue;
                }
                let cands: Vec<T> = match &t {
                    T::Iri(x) if !is_plain_iri(x) => vec![fresh_iri(&cur)],
                    T::Blank(_) => vec![fresh_iri(&cur)],
                    T::Lit(x) if !is_plain_lit(x) => vec![T::Lit("a".into()), fresh_lit(&cur)],
                    T::Lit(_) => vec![fresh_iri(&cur)],
                    _ => vec![],
                };
                for nt in cands {
                    let cand = map_case(&cur, &|x| if *x == t { Some(nt.clone()) } else { None });
                    if self.fails(&cand) {
                        cur = cand;
                        changed = true;
                        break;
                    }
                }
            }
            // characters of what is left
            for t in terms_of(&cur) {
                if !terms_of(&cur).contains(&t) {
                    continue;
                }
                let hostile = match &t {
                    T::Lit(x) => !is_plain_lit(x),
                    T::Iri(x) => !is_plain_iri(x),
                    _ => false,
                };
                if hostile && self.shrink_string(&mut cur, &t) {
                    changed = true;
                }
            }
            // prefix table entries: plain namespace IRI
            for i in 0..cur.prefixes.len() {
                if cur.prefixes[i].1 != "http://k/ns/" {
                    let mut cand = cur.clone();
                    cand.prefixes[i].1 = "http://k/ns/".into();
                    if self.fails(&cand) {
                        cur = cand;
                        changed = true;
                    }
                }
            }
            if !changed {
                break;
            }
        }
        cur
    }
}

// ---------------------------------------------------------------------------------------
// classification of what is left

fn char_class(c: char) -> Option<String> {
    Some(
        match c {
            'a'..='z' | 'A'..='Z' | '0'..='9' => return None,
            '"' => "dquote",
            '\\' => "backslash",
            '\n' => "lf",
            '\r' => "cr",
            '<' => "lt",
            '>' => "gt",
            '{' => "lbrace",
            '}' => "rbrace",
            '|' => "pipe",
            '#' => "hash",
            '@' => "at",
            '^' => "caret",
            '.' => "dot",
            ';' => "semicolon",
            ',' => "comma",
            ':' => "colon",
            '\'' => "squote",
            '_' => "underscore",
            '/' => "slash",
            '%' => "percent",
            '?' => "question",
            '&' => "ampersand",
            '=' => "equals",
            '-' => "hyphen",
            c if c.is_whitespace() => "white_space",
            c if c.is_control() => "control",
            c if c.is_ascii() => return Some(format!("ascii_{:02x}", c as u32)),
            c if (c as u32) > 0xFFFF => "non_bmp",
            c if (0x300..0x370).contains(&(c as u32)) => "combining",
            _ => "non_ascii",
        }
        .to_string(),
    )
}
/// (class, edge|inner) pairs of the non-alphanumeric characters of one literal
fn pairs_of(x: &str) -> BTreeSet<String> {
    let cs: Vec<char> = x.chars().collect();
    let n = cs.len();
    cs.iter().enumerate().filter_map(|(i, c)| char_class(*c).map(|k| format!("{}@{}", k, if i == 0 || i + 1 == n { "edge" } else { "inner" }))).collect()
}
fn classes(s: &str) -> String {
    if s.is_empty() {
        return "empty".into();
    }
    let set: BTreeSet<String> = s.chars().filter_map(char_class).collect();
    if set.is_empty() {
        "alnum".into()
    } else {
        set.into_iter().collect::<Vec<_>>().join("+")
    }
}
fn hostile_pairs(c: &Case) -> BTreeSet<String> {
    let mut out = BTreeSet::new();
    for t in terms_of(c) {
        if let T::Lit(x) = t {
            if !is_plain_lit(&x) {
                out.extend(pairs_of(&x));
            }
        }
    }
    out
}

fn features(c: &Case) -> Vec<String> {
    fn walk(t: &T, inside: bool, out: &mut BTreeSet<String>) {
        let at = if inside { "inside_quoted_triple" } else { "top_level" };
        match t {
            T::Iri(x) => {
                if !is_plain_iri(x) {
                    let scheme = x.split(':').next().unwrap_or("");
                    let sch = if scheme == "http" || scheme == "https" { "http" } else { "other_scheme" };
                    let rest = x.splitn(2, ':').nth(1).unwrap_or("");
                    let set: BTreeSet<String> = rest.chars().filter_map(char_class).filter(|k| k != "slash").collect();
                    out.insert(format!("iri[{};{}]@{}", sch, set.into_iter().collect::<Vec<_>>().join("+"), at));
                }
            }
            T::Blank(_) => {
                out.insert(format!("blank_node@{}", at));
            }
            T::Lit(x) => {
                if !is_plain_lit(x) {
                    out.insert(format!("literal[{}]@{}", classes(x), at));
                }
            }
            T::Q(b) => {
                out.insert(if inside { "quoted_triple@inside_quoted_triple".to_string() } else { "quoted_triple".to_string() });
                walk(&b.0, true, out);
                walk(&b.1, true, out);
                walk(&b.2, true, out);
            }
        }
    }
    let mut out = BTreeSet::new();
    for q in &c.quads {
        walk(&q.s, false, &mut out);
        walk(&q.p, false, &mut out);
        walk(&q.o, false, &mut out);
        match &q.g {
            None => {}
            Some(T::Blank(_)) => {
                out.insert("blank_node_graph_name".to_string());
            }
            Some(g) => {
                out.insert("named_graph".to_string());
                walk(g, false, &mut out);
            }
        }
    }
    // a hostile term inside a quoted triple implies the quoted triple
    if out.iter().any(|x| x.ends_with("@inside_quoted_triple") && !x.starts_with("quoted_triple")) {
        out.remove("quoted_triple");
    }
    if c.quads.len() >= 2 {
        let d = |f: &dyn Fn(&Qd) -> T| c.quads.iter().map(f).collect::<BTreeSet<_>>().len();
        if c.quads.len() > 40 {
            out.clear();
            out.insert(format!("shape[quads={}]", c.quads.len()));
        } else {
            out.insert(format!("shape[quads={},subjects={},predicates={}]", c.quads.len(), d(&|q| q.s.clone()), d(&|q| q.p.clone())));
        }
    }
    for (p, _) in &c.prefixes {
        let kind = if p.is_empty() {
            "empty_name"
        } else if has_scheme(&format!("{}:", p)) {
            "name_is_a_legal_iri_scheme"
        } else {
            "name_is_not_a_legal_iri_scheme"
        };
        out.insert(format!("prefix_declared[{}]", kind));
    }
    out.into_iter().collect()
}

fn effect(expected: &BTreeSet<LexQuad>, got: &BTreeSet<LexQuad>) -> String {
    let lost = expected.difference(got).count();
    let added = got.difference(expected).count();
    let n = |x: usize| if x >= 2 { "2+".to_string() } else { x.to_string() };
    format!("lost={},added={}", n(lost), n(added))
}

/// reduce a failing case in one direction and report it; returns the reduced case
fn report_one(ctx: &mut Ctx, c: &Case, f: F, first: &Res, origin: &str, backward: bool) -> Case {
    let mode = first.mode().unwrap_or_default();
    let mut evals = 0u64;
    let small = Reducer { f, mode: mode.clone(), evals: &mut evals, backward, allowed: hostile_pairs(c) }.reduce(c);
    ctx.add_evals(evals);
    ctx.count("reduction_roundtrips", evals);
    let mut feats = features(&small);
    let res = roundtrip(&small, f, None);
    let (side, side_detail, export_valid) = fault_side(&small, f);
    ctx.add_evals(2);
    // does the failure need the hostile characters at an end of the literal?  Pad the
    // literal with a letter on both sides and look again.
    let padded = map_case(&small, &|t| match t {
        T::Lit(x) if !is_plain_lit(x) => Some(T::Lit(format!("a{}a", x))),
        _ => None,
    });
    if padded != small {
        ctx.add_evals(1);
        let anywhere = valid_case(&padded) && roundtrip(&padded, f, None).mode() == res.mode();
        let tag = if anywhere { ";anywhere_in_the_literal]" } else { ";only_at_an_end_of_the_literal]" };
        feats = feats.into_iter().map(|x| if x.starts_with("literal[") { x.replacen("]", tag, 1) } else { x }).collect();
    }
    if !export_valid && feats.iter().any(|x| x.starts_with("literal[") && x.ends_with("@inside_quoted_triple")) {
        // the export does not even follow the grammar: a literal inside a quoted triple is
        // written bare (no quotes), so every delimiter character is a trigger of the same
        // thing and what surrounds the quoted triple only decides how the damage shows;
        // the character classes and the surroundings are left to the detail
        let mut merged = BTreeSet::new();
        for x in feats {
            if x.starts_with("literal[") && x.ends_with("@inside_quoted_triple") {
                merged.insert("hostile_literal@inside_quoted_triple[export_is_not_valid_syntax]".to_string());
            } else if x != "quoted_triple@inside_quoted_triple" && x != "named_graph" && x != "quoted_triple" {
                merged.insert(x);
            }
        }
        feats = merged.into_iter().collect();
    }
    let (sig, detail) = match &res {
        Res::Diff { text, expected, got } => (
            json!({"kind": "reimport_differs", "format": f.name(), "fault": side, "irreducible": feats}),
            json!({"reduced_case": case_json(&small), "irreducible_features_in_full": features(&small), "exported_text": text, "expected_lexical_quads": lexquads_json(expected, 8), "reimported_lexical_quads": lexquads_json(got, 8), "effect_on_reduced_case": effect(expected, got), "fault_attribution": side_detail, "found_in": origin, "original_case": case_json(&Case { quads: c.quads.iter().take(12).cloned().collect(), prefixes: c.prefixes.clone() }), "original_quads": c.quads.len()}),
        ),
        Res::Panic { stage, msg } => (json!({"kind": "panic", "format": f.name(), "stage": stage, "panic": panic_kind(msg), "fault": side, "irreducible": feats}), json!({"reduced_case": case_json(&small), "irreducible_features_in_full": features(&small), "panic": msg, "site": panic_site(msg), "fault_attribution": side_detail, "found_in": origin})),
        _ => {
            // cannot happen: the reducer only accepts failing cases
            (json!({"kind": "reduction_lost_the_failure", "format": f.name()}), json!({"case": case_json(c)}))
        }
    };
    VIOL.with(|v| *v.borrow_mut() += 1);
    ctx.violation(sig, detail);
    small
}

fn literal_classes(c: &Case) -> BTreeSet<String> {
    let mut out = BTreeSet::new();
    for t in terms_of(c) {
        if let T::Lit(x) = t {
            if !is_plain_lit(&x) {
                out.extend(x.chars().filter_map(char_class));
            }
        }
    }
    out
}

fn subsets(items: &[String], size: usize) -> Vec<BTreeSet<String>> {
    fn rec(items: &[String], size: usize, from: usize, cur: &mut Vec<String>, out: &mut Vec<BTreeSet<String>>) {
        if cur.len() == size {
            out.push(cur.iter().cloned().collect());
            return;
        }
        for i in from..items.len() {
            cur.push(items[i].clone());
            rec(items, size, i + 1, cur, out);
            cur.pop();
        }
    }
    let mut out = vec![];
    rec(items, size, 0, &mut vec![], &mut out);
    out
}

/// Report a failing case.  Several independent defects can hide behind one hostile literal,
/// so the character classes are tried apart first: keep the characters of a sub-set S of the
/// classes (|S| = 0, 1, 2, 3), turn every other non-alphanumeric character into a letter, and
/// reduce each minimal failing S on its own.  Only if no small S fails is the case reduced
/// as a whole.
fn report(ctx: &mut Ctx, c: &Case, f: F, first: &Res, origin: &str) {
    let classes: Vec<String> = literal_classes(c).into_iter().collect();
    let keep = |keep: &BTreeSet<String>| -> Case {
        map_case(c, &|t| match t {
            T::Lit(x) if !is_plain_lit(x) => Some(T::Lit(x.chars().map(|ch| if char_class(ch).map_or(true, |k| keep.contains(&k)) { ch } else { 'a' }).collect())),
            _ => None,
        })
    };
    let mut failing: Vec<BTreeSet<String>> = vec![];
    if !classes.is_empty() {
        'sizes: for size in 0..=3usize.min(classes.len()) {
            for sub in subsets(&classes, size) {
                if failing.iter().any(|fs| fs.is_subset(&sub)) {
                    continue;
                }
                let cand = keep(&sub);
                if cand == *c && size < classes.len() {
                    continue;
                }
                if !valid_case(&cand) {
                    continue;
                }
                ctx.add_evals(1);
                ctx.count("class_isolation_roundtrips", 1);
                let r = roundtrip(&cand, f, None);
                if r.mode().is_some() {
                    report_one(ctx, &cand, f, &r, origin, false);
                    report_one(ctx, &cand, f, &r, origin, true);
                    failing.push(sub);
                    if size == 0 {
                        // fails with every literal neutralised: the literals are not the cause
                        break 'sizes;
                    }
                }
            }
        }
    }
    if failing.is_empty() {
        report_one(ctx, c, f, first, origin, false);
        report_one(ctx, c, f, first, origin, true);
    }
}

// ---------------------------------------------------------------------------------------
// observations

fn observe_terms(ctx: &mut Ctx, c: &Case) -> bool {
    fn walk(ctx: &mut Ctx, t: &T, path: &str, depth: usize, interesting: &mut bool) {
        match t {
            T::Iri(x) => {
                let scheme = x.split(':').next().unwrap_or("").to_string();
                ctx.note("iri_schemes", &scheme);
            }
            T::Blank(_) => {
                ctx.count(&format!("terms.blank_node.{}", path), 1);
                *interesting = true;
            }
            T::Lit(x) => {
                if depth > 0 {
                    ctx.count("terms.literal_inside_quoted_triple", 1);
                }
                if x.is_empty() {
                    ctx.count("terms.empty_literal", 1);
                    *interesting = true;
                }
                for ch in x.chars() {
                    if let Some(k) = char_class(ch) {
                        ctx.note("literal_character_classes", &k);
                        *interesting = true;
                    }
                }
                ctx.max("max_literal_chars", x.chars().count() as u64);
            }
            T::Q(b) => {
                ctx.count(&format!("terms.quoted_triple.{}", path), 1);
                ctx.max("max_quoted_triple_depth", depth as u64 + 1);
                *interesting = true;
                walk(ctx, &b.0, "inner", depth + 1, interesting);
                walk(ctx, &b.1, "inner", depth + 1, interesting);
                walk(ctx, &b.2, "inner", depth + 1, interesting);
            }
        }
    }
    let mut interesting = false;
    for q in &c.quads {
        walk(ctx, &q.s, "subject", 0, &mut interesting);
        walk(ctx, &q.p, "predicate", 0, &mut interesting);
        walk(ctx, &q.o, "object", 0, &mut interesting);
        if let Some(g) = &q.g {
            ctx.count("quads_in_named_graphs", 1);
            walk(ctx, g, "graph", 0, &mut interesting);
        }
    }
    ctx.max("max_quads", c.quads.len() as u64);
    interesting
}

/// one round trip with bookkeeping; returns the result
fn observed_roundtrip(ctx: &mut Ctx, c: &Case, f: F, order: Option<&mut Rng>) -> Res {
    ctx.add_evals(1);
    let res = roundtrip(c, f, order);
    match &res {
        Res::Same { structural_same, relabelled, text_len } => {
            ctx.count(&format!("roundtrips_reproduced.{}", f.name()), 1);
            ctx.max("max_export_bytes", *text_len as u64);
            if !*structural_same {
                ctx.count("reimport_lexically_equal_but_quoted_triple_structure_differs", 1);
            }
            if *relabelled {
                ctx.count("reimport_equal_only_up_to_blank_node_relabelling", 1);
            }
        }
        Res::Diff { .. } => ctx.count(&format!("roundtrips_differing.{}", f.name()), 1),
        Res::Panic { .. } => ctx.count(&format!("roundtrips_panicking.{}", f.name()), 1),
        Res::Store(e) => {
            ctx.count("source_database_not_as_built", 1);
            ctx.inconclusive(&format!("source database does not hold what was added: {}", e));
        }
    }
    res
}

/// full treatment of one dataset in one format
fn check_dataset(ctx: &mut Ctx, c: &Case, f: F, order: &mut Rng, origin: &str) {
    let res = observed_roundtrip(ctx, c, f, Some(order));
    if res.mode().is_none() {
        return;
    }
    if c.quads.len() == 1 {
        report(ctx, c, f, &res, origin);
        return;
    }
    // isolate: every quad on its own, then (of the quads that are fine alone) the groups
    // sharing subject and predicate (object lists), the groups sharing a subject
    // (predicate lists), and finally all of them together
    let mut fine: Vec<Qd> = vec![];
    let mut budget = 12;
    for q in &c.quads {
        let single = Case { quads: vec![q.clone()], prefixes: c.prefixes.clone() };
        let r1 = if budget > 0 { observed_roundtrip(ctx, &single, f, None) } else { Res::Same { structural_same: true, relabelled: false, text_len: 0 } };
        if r1.mode().is_some() {
            budget -= 1;
            report(ctx, &single, f, &r1, origin);
        } else {
            fine.push(q.clone());
        }
    }
    if fine.len() < 2 {
        return;
    }
    let mut explained = false;
    let mut by_sp: BTreeMap<(T, T, Option<T>), Vec<Qd>> = BTreeMap::new();
    let mut by_s: BTreeMap<(T, Option<T>), Vec<Qd>> = BTreeMap::new();
    for q in &fine {
        by_sp.entry((q.s.clone(), q.p.clone(), q.g.clone())).or_default().push(q.clone());
        by_s.entry((q.s.clone(), q.g.clone())).or_default().push(q.clone());
    }
    let mut bad_subjects: BTreeSet<T> = BTreeSet::new();
    for (key, group) in by_sp.iter().filter(|(_, g)| g.len() >= 2).take(4) {
        let sub = Case { quads: group.clone(), prefixes: c.prefixes.clone() };
        let r = observed_roundtrip(ctx, &sub, f, None);
        if r.mode().is_some() {
            ctx.count("object_lists_failing_although_every_quad_alone_is_fine", 1);
            report(ctx, &sub, f, &r, origin);
            explained = true;
            bad_subjects.insert(key.0.clone());
        }
    }
    let object_list_subjects = bad_subjects.clone();
    for (key, group) in by_s.iter().filter(|(k, g)| g.len() >= 2 && !object_list_subjects.contains(&k.0)).take(4) {
        let sub = Case { quads: group.clone(), prefixes: c.prefixes.clone() };
        let r = observed_roundtrip(ctx, &sub, f, None);
        if r.mode().is_some() {
            ctx.count("subject_groups_failing_although_every_quad_alone_is_fine", 1);
            report(ctx, &sub, f, &r, origin);
            explained = true;
            bad_subjects.insert(key.0.clone());
        }
    }
    let rest: Vec<Qd> = fine.iter().filter(|q| !bad_subjects.contains(&q.s)).cloned().collect();
    if rest.len() >= 2 || (!explained && fine.len() == c.quads.len()) {
        let rest = if rest.len() >= 2 { Case { quads: rest, prefixes: c.prefixes.clone() } } else { c.clone() };
        let r2 = observed_roundtrip(ctx, &rest, f, None);
        if r2.mode().is_some() {
            ctx.count("datasets_failing_although_every_quad_and_every_subject_group_alone_is_fine", 1);
            report(ctx, &rest, f, &r2, origin);
        }
    }
}

fn run(ctx: &mut Ctx) {
    let _ = rayon::ThreadPoolBuilder::new().num_threads(2).build_global();

    // ---- tokens: exhaustive -------------------------------------------------------------
    let nt = TOKENS.len() as u64;
    ctx.phase("tokens", nt * 4 * 5 * 3);
    while let Some(k) = ctx.next_case() {
        let f = FORMATS[(k % 3) as usize];
        let position = ((k / 3) % 5) as usize;
        let placement = ((k / 15) % 4) as usize;
        let (name, tok) = TOKENS[(k / 60) as usize];
        let l = place(tok, placement);
        let c = case_with_literal(&l, position);
        if !valid_case(&c) {
            ctx.count("token_cases_outside_the_quantifier_skipped", 1);
            continue;
        }
        observe_terms(ctx, &c);
        ctx.nontrivial(case_hash(&c));
        let mut order = ctx.rng_labeled("order", k);
        let res = observed_roundtrip(ctx, &c, f, Some(&mut order));
        let tag = format!("{}:{}", name, PLACEMENTS[placement]);
        if res.mode().is_none() {
            if position == 0 {
                ctx.note(&format!("object_literals_reproduced.{}", f.name()), &tag);
            }
            ctx.count(&format!("token_cases_reproduced.{}.{}", f.name(), POSITIONS[position]), 1);
        } else {
            if position == 0 {
                ctx.note(&format!("object_literals_not_reproduced.{}", f.name()), &tag);
            }
            ctx.count(&format!("token_cases_not_reproduced.{}.{}", f.name(), POSITIONS[position]), 1);
            let origin = format!("tokens: {} {} at {}", name, PLACEMENTS[placement], POSITIONS[position]);
            report(ctx, &c, f, &res, &origin);
        }
        if ctx.wants_sample() && k % 977 == 3 {
            ctx.sample(json!({"case": case_json(&c), "format": f.name(), "reproduced": res.mode().is_none()}));
        }
    }

    // ---- iris: exhaustive ---------------------------------------------------------------
    let n_iri = (IRI_PARTS.len() * IRI_SHAPES.len()) as u64;
    ctx.phase("iris", n_iri * 5 * 3);
    while let Some(k) = ctx.next_case() {
        let f = FORMATS[(k % 3) as usize];
        let position = ((k / 3) % 5) as usize;
        let which = (k / 15) as usize;
        let (name, part) = IRI_PARTS[which % IRI_PARTS.len()];
        let shape = IRI_SHAPES[which / IRI_PARTS.len()];
        let x = shape.replace("{}", part);
        let c = case_with_iri(&x, position);
        if !valid_case(&c) {
            ctx.count("iri_cases_not_a_valid_iri_skipped", 1);
            continue;
        }
        observe_terms(ctx, &c);
        ctx.note("iri_parts_exercised", name);
        let mut order = ctx.rng_labeled("order", k);
        let res = observed_roundtrip(ctx, &c, f, Some(&mut order));
        if res.mode().is_some() {
            let origin = format!("iris: {} at {}", x, IRI_POSITIONS[position]);
            report(ctx, &c, f, &res, &origin);
        } else {
            ctx.count(&format!("iri_cases_reproduced.{}", f.name()), 1);
        }
    }

    // ---- big datasets -------------------------------------------------------------------
    ctx.phase("big", ctx.by_tier(64, 640));
    while let Some(k) = ctx.next_case() {
        let mut r = ctx.rng(k);
        let n = [1001, 1200, 1999, 2000, 2001, 2600][r.below(6)];
        let c = gen_case(&mut r, n, false, true);
        if !valid_case(&c) {
            ctx.inconclusive("generator produced a case outside the quantifier");
            continue;
        }
        observe_terms(ctx, &c);
        ctx.nontrivial(case_hash(&c));
        for f in FORMATS {
            let mut order = ctx.rng_labeled("order", k);
            let res = observed_roundtrip(ctx, &c, f, Some(&mut order));
            if res.mode().is_some() {
                report_one(ctx, &c, f, &res, &format!("big:{}", k), false);
            } else {
                ctx.count(&format!("big_datasets_reproduced.{}", f.name()), 1);
            }
        }
    }
    // ---- pairs --------------------------------------------------------------------------
    let all_pairs = nt * nt * 3;
    let thorough = ctx.thorough();
    ctx.phase("pairs", if thorough { all_pairs } else { 20_000 });
    while let Some(k) = ctx.next_case() {
        let (f, i, j) = if thorough {
            (FORMATS[(k % 3) as usize], ((k / 3) % nt) as usize, (k / 3 / nt) as usize)
        } else {
            let mut r = ctx.rng(k);
            (FORMATS[(k % 3) as usize], r.below(TOKENS.len()), r.below(TOKENS.len()))
        };
        let glue = ["", "a"][(k % 2) as usize];
        let l = format!("{}{}{}", TOKENS[i].1, glue, TOKENS[j].1);
        let c = case_with_literal(&l, 0);
        if !valid_case(&c) {
            ctx.count("pair_cases_outside_the_quantifier_skipped", 1);
            continue;
        }
        observe_terms(ctx, &c);
        ctx.nontrivial(case_hash(&c));
        let res = observed_roundtrip(ctx, &c, f, None);
        if res.mode().is_some() {
            let origin = format!("pairs: {} + {}", TOKENS[i].0, TOKENS[j].0);
            report(ctx, &c, f, &res, &origin);
        }
    }

    // ---- random datasets ----------------------------------------------------------------
    for (phase, total, with_prefixes) in [("prefixes", ctx.by_tier(20_000u64, 300_000), true), ("random", ctx.by_tier(150_000u64, 2_000_000), false)] {
        ctx.phase(phase, total);
        while let Some(k) = ctx.next_case() {
            if with_prefixes && !ctx.within(0.4) {
                // leave most of the workload budget to the plain random datasets
                ctx.count("prefixes_phase_cut_short_to_leave_budget", 1);
                break;
            }
            let mut r = ctx.rng(k);
            let n = [1, 1, 2, 2, 3, 3, 4, 5, 6, 8, 10][r.below(11)];
            let c = gen_case(&mut r, n, with_prefixes, false);
            if !valid_case(&c) {
                ctx.inconclusive("generator produced a case outside the quantifier");
                continue;
            }
            if observe_terms(ctx, &c) {
                ctx.nontrivial(case_hash(&c));
            }
            let mut all_ok = true;
            for f in FORMATS {
                let before = ctx_violations(ctx);
                let mut order = ctx.rng_labeled("order", k);
                check_dataset(ctx, &c, f, &mut order, &format!("{}:{}", phase, k));
                if ctx_violations(ctx) != before {
                    all_ok = false;
                }
            }
            if all_ok {
                ctx.count("datasets_reproduced_in_all_three_formats", 1);
            }
            if ctx.wants_sample() && c.quads.len() >= 3 {
                let db = build(&c, None);
                ctx.sample(json!({"case": case_json(&c), "nquads_export": db.generate_nquads(), "reproduced_in_all_formats": all_ok}));
            }
        }
    }

}

/// number of violating observations so far (through the public counter interface only)
fn ctx_violations(_ctx: &mut Ctx) -> u64 {
    // Ctx does not expose its counters; keep our own mirror
    VIOL.with(|v| *v.borrow())
}
thread_local! {
    static VIOL: std::cell::RefCell<u64> = std::cell::RefCell::new(0);
}

fn main() {
    let mut spec = Spec::new("C14", "exploration", RULE);
    spec.assumptions = &[
        "The store is untyped (a term is its string), so the source database is filled through Dictionary::encode / QuotedTripleStore::encode / add_quad and 'the same dataset' means the same set of lexical quads as rendered by decode_any ('<< s p o >>' for quoted triples); a re-import that is lexically equal but builds a different quoted-triple structure is counted, not flagged",
        "Quantifier: IRIs follow the RFC 3987 character rules (scheme ':' then unreserved / sub-delims / ':@/?' / one '#' / %HH / non-ASCII letters), predicates are IRIs, subjects IRIs / blank nodes / quoted triples, graph names IRIs or blank nodes; a literal is admitted only if neither it nor its trimmed form starts with '_:' or '<<' or has the form scheme ':' …",
        "Blank-node labels may be renamed by an import: sets are compared up to a bijection on labels (searched exhaustively for <= 6 labels)",
        "N-Quads cannot carry an empty named graph: only quads are compared, not the named-graph catalog",
        "The prefix table of the source database is part of the input for the 'prefixes' phase (generate_turtle emits it); prefix names there include the empty name, names that are also legal IRI schemes and names that are not",
    ];
    spec.quick_budget_s = 120;
    spec.thorough_budget_s = 800;
    kvcore::run(spec, run);
}
