//! C15 — Term identifiers are a stable bijection, also across database union.
//!
//! Events
//!  * every id returned by `Dictionary::encode`, `QuotedTripleStore::encode`,
//!    `SparqlDatabase::encode_term_star`, every value returned by the matching decoders;
//!  * the complete state (dictionary, quoted-triple store, quads, named-graph catalog,
//!    probability seeds) of both inputs and of the result of `SparqlDatabase::union`.
//! Oracles
//!  * an online shadow bijection (term <-> id, (s,p,o) <-> quoted id) kept by the monitor;
//!  * a structural term model `T` (plain lexical value | quoted (s,p,o)) and a dataset model
//!    built from the *build script* (not from the engine); the expected union is the set
//!    union of the two models. Quoted terms are compared as trees, never as strings.
//!  * on a violation the case is shrunk greedily and re-run under four restrictions
//!    (ids aligned, quoted terms flattened, default graph only, no seeds) so that the
//!    signature names what the failure *needs*.

use kolibrie::sparql_database::SparqlDatabase;
use kvcore::{guard, hash_str, json, panic_site, Ctx, Rng, Spec, Value};
use shared::dataset_index::{GraphId, Quad};
use shared::dictionary::Dictionary;
use shared::quoted_triple_store::{is_quoted_triple_id, QuotedTripleStore, QUOTED_TRIPLE_ID_BIT};
use shared::triple::Triple;
use std::collections::{BTreeMap, BTreeSet, HashMap};

const RULE: &str = "Four phases. dict: random call sequences (40-400 calls; 1 in 100 (thorough 1 in 20) with 1500-6000 calls over 500-3000 further terms) on one Dictionary + one QuotedTripleStore (new / repeated terms from a pool of adversarial strings, components drawn from known plain ids, known quoted ids and unknown plain-range ids, decode of known and never-issued ids, Dictionary::decode_term, clone-and-continue) against an online shadow bijection, with a complete re-verification of every id issued so far at random checkpoints and at the end. star: call sequences on SparqlDatabase::encode_term_star / decode_any / add_quad_parts / add_triple_parts with terms nested 0-3 deep in several spellings of the same term (canonical, extra whitespace, bare IRIs/numbers, compact `<<s p o>>`, \\u escapes) against a shadow map keyed by the term tree; half of the sequences use only the N-Triples-star spellings (canonical, whitespace, \\u escapes), a sequence stops at its first defect and the defect is re-established by one call on a fresh database, on the smallest failing sub-term, with a direct call of split_quoted_triple_content. union: 2-3 databases built independently from build scripts (five writers, pre-encoded unreferenced terms, deletions, empty named graphs, seeds on plain and quoted triples) over a shared pool so that equal ids mean different terms and equal terms have different ids, followed by 1-3 union steps (A∪B, B∪A, chains through results, rebuilds of the same dataset under other ids, empty operands); after every step the result is compared with the model union (quads, catalog, seeds, quoted terms, dictionary terms, internal bijection of the merged dictionary/store), both inputs are compared bit for bit with their state before, and the result is extended with fresh terms. boundary: id counters placed next to the range limits. Non-trivial = dict/star sequence with >= 5 repeated and >= 5 new encodes and at least one nested quoted term; union step whose operands have >= 1 clashing id (same id, different term) that is referenced by quads on both sides and >= 1 term with different ids on the two sides; distinct by hash of the call sequence / build scripts.";

// ---------------------------------------------------------------------------------------
// structural term model

#[derive(Clone, Debug, PartialEq, Eq, PartialOrd, Ord, Hash)]
enum T {
    P(String),
    Q(Box<(T, T, T)>),
}

impl T {
    fn p(s: &str) -> T {
        T::P(s.to_string())
    }
    fn q(s: T, p: T, o: T) -> T {
        T::Q(Box::new((s, p, o)))
    }
    /// the rendering `Dictionary::decode_term` documents: `<< s p o >>`, plain terms raw
    fn render(&self) -> String {
        match self {
            T::P(s) => s.clone(),
            T::Q(b) => format!("<< {} {} {} >>", b.0.render(), b.1.render(), b.2.render()),
        }
    }
    fn depth(&self) -> usize {
        match self {
            T::P(_) => 0,
            T::Q(b) => 1 + b.0.depth().max(b.1.depth()).max(b.2.depth()),
        }
    }
    fn is_q(&self) -> bool {
        matches!(self, T::Q(_))
    }
    fn collect(&self, plain: &mut BTreeSet<String>, quoted: &mut BTreeSet<T>) {
        match self {
            T::P(s) => {
                plain.insert(s.clone());
            }
            T::Q(b) => {
                quoted.insert(self.clone());
                b.0.collect(plain, quoted);
                b.1.collect(plain, quoted);
                b.2.collect(plain, quoted);
            }
        }
    }
    fn map_plain(&self, f: &dyn Fn(&T) -> Option<T>) -> T {
        if let Some(t) = f(self) {
            return t;
        }
        match self {
            T::P(_) => self.clone(),
            T::Q(b) => T::q(b.0.map_plain(f), b.1.map_plain(f), b.2.map_plain(f)),
        }
    }
}

#[derive(Clone, Copy, Debug, PartialEq, Eq)]
enum Sp {
    Canon,
    Ws,
    Bare,
    Compact,
    Uesc,
}

impl Sp {
    fn name(self) -> &'static str {
        match self {
            Sp::Canon => "canonical",
            Sp::Ws => "extra_whitespace",
            Sp::Bare => "bare_terms",
            Sp::Compact => "compact",
            Sp::Uesc => "unicode_escapes",
        }
    }
}

fn is_iri(s: &str) -> bool {
    s.starts_with("http://")
}
fn is_simple_word(s: &str) -> bool {
    !s.is_empty() && s.chars().all(|c| c.is_ascii_alphanumeric())
}

fn lit(s: &str, uesc: bool) -> String {
    let mut out = String::from("\"");
    for c in s.chars() {
        match c {
            '\\' => out.push_str("\\\\"),
            '"' => out.push_str("\\\""),
            '\n' => out.push_str("\\n"),
            '\r' => out.push_str("\\r"),
            '\t' => out.push_str("\\t"),
            c if uesc && !c.is_ascii() && (c as u32) <= 0xFFFF => out.push_str(&format!("\\u{:04X}", c as u32)),
            c if uesc && !c.is_ascii() => out.push_str(&format!("\\U{:08X}", c as u32)),
            c => out.push(c),
        }
    }
    out.push('"');
    out
}

/// One of the textual spellings `encode_term_star` documents for the term.
fn spell(t: &T, sp: Sp, r: &mut Rng) -> String {
    match t {
        T::P(s) => {
            if is_iri(s) {
                if sp == Sp::Bare {
                    s.clone()
                } else {
                    format!("<{}>", s)
                }
            } else if s.starts_with("_:") {
                s.clone()
            } else if sp == Sp::Bare && is_simple_word(s) {
                s.clone()
            } else {
                lit(s, sp == Sp::Uesc)
            }
        }
        T::Q(b) => {
            let (a, p, o) = (spell(&b.0, sp, r), spell(&b.1, sp, r), spell(&b.2, sp, r));
            compose(sp, &a, &p, &o, r)
        }
    }
}

fn compose(sp: Sp, a: &str, p: &str, o: &str, r: &mut Rng) -> String {
    match sp {
        Sp::Compact => format!("<<{} {} {}>>", a, p, o),
        Sp::Ws => {
            let gap = |r: &mut Rng, min: usize| -> String {
                let n = r.range(min, 3);
                (0..n).map(|_| if r.chance(1, 4) { '\t' } else { ' ' }).collect()
            };
            format!("{}<<{}{}{}{}{}{}{}>>{}", gap(r, 0), gap(r, 1), a, gap(r, 1), p, gap(r, 1), o, gap(r, 1), gap(r, 0))
        }
        _ => format!("<< {} {} {} >>", a, p, o),
    }
}

// ---------------------------------------------------------------------------------------
// findings

#[derive(Clone, Debug)]
struct Finding {
    kind: String,
    detail: Value,
}

#[derive(Default)]
struct Finds(Vec<Finding>);

impl Finds {
    fn add(&mut self, kind: &str, detail: impl FnOnce() -> Value) {
        if !self.0.iter().any(|f| f.kind == kind) {
            self.0.push(Finding { kind: kind.to_string(), detail: detail() });
        }
    }
    fn has(&self, kind: &str) -> bool {
        self.0.iter().any(|f| f.kind == kind)
    }
}

fn tail(v: &[String], n: usize) -> Vec<String> {
    v[v.len().saturating_sub(n)..].to_vec()
}

// ---------------------------------------------------------------------------------------
// phase dict: Dictionary + QuotedTripleStore against a shadow bijection

fn raw_pool(r: &mut Rng, big: bool) -> Vec<String> {
    let tricky = [
        "", " ", "a", "a ", " a", "A", "a\u{0}", "a\u{0}b", "\u{e9}", "e\u{301}", "<<", ">>", "<< a b c >>", "0", "00", "-0", "+0", "0.0", "http://k/e1", "<http://k/e1>", "http://k/e1 ", "\"x\"", "x", "_:b0", "_:b00",
        "\u{1F600}", "\u{FEFF}a", "a\nb", "a\\nb", "unknown",
    ];
    let mut pool: Vec<String> = vec![];
    let n_tricky = r.range(3, tricky.len());
    let mut idx: Vec<usize> = (0..tricky.len()).collect();
    r.shuffle(&mut idx);
    for i in idx.into_iter().take(n_tricky) {
        pool.push(tricky[i].to_string());
    }
    if r.chance(1, 3) {
        pool.push("x".repeat(r.range(200, 2000)));
    }
    let alpha: Vec<char> = "ab0 \u{e9}".chars().collect();
    for _ in 0..r.range(5, 60) {
        let n = r.range(1, 5);
        pool.push((0..n).map(|_| *r.pick(&alpha)).collect());
    }
    for i in 0..r.range(0, 40) {
        pool.push(format!("http://k/e{}", i));
    }
    if big {
        for i in 0..r.range(500, 3000) {
            pool.push(format!("http://k/big{}", i));
        }
    }
    pool
}

struct DictShadow {
    fwd: HashMap<String, u32>,
    rev: HashMap<u32, String>,
    qfwd: HashMap<(u32, u32, u32), u32>,
    qrev: HashMap<u32, (u32, u32, u32)>,
    plain_ids: Vec<u32>,
    quoted_ids: Vec<u32>,
}

impl DictShadow {
    fn render(&self, id: u32, fuel: usize) -> Option<String> {
        if fuel == 0 {
            return None;
        }
        if is_quoted_triple_id(id) {
            let (s, p, o) = *self.qrev.get(&id)?;
            Some(format!("<< {} {} {} >>", self.render(s, fuel - 1)?, self.render(p, fuel - 1)?, self.render(o, fuel - 1)?))
        } else {
            self.rev.get(&id).cloned()
        }
    }
    fn qdepth(&self, id: u32) -> usize {
        match self.qrev.get(&id) {
            Some(&(s, p, o)) if is_quoted_triple_id(id) => 1 + self.qdepth(s).max(self.qdepth(p)).max(self.qdepth(o)),
            _ => 0,
        }
    }
}

fn dict_full_check(d: &mut Dictionary, q: &mut QuotedTripleStore, sh: &DictShadow, f: &mut Finds, trace: &[String]) -> u64 {
    let mut n = 0;
    for (t, &id) in &sh.fwd {
        n += 1;
        if d.decode(id) != Some(t.as_str()) {
            f.add("id_changed_meaning_after_later_encodes", || json!({"api": "Dictionary::decode", "term": t, "id": id, "decodes_to": d.decode(id), "trace_tail": tail(trace, 25)}));
        }
        let again = d.encode(t);
        if again != id {
            f.add("term_reencoded_to_different_id", || json!({"api": "Dictionary::encode", "term": t, "first_id": id, "later_id": again, "trace_tail": tail(trace, 25)}));
        }
    }
    for (&c, &id) in &sh.qfwd {
        n += 1;
        if q.decode(id) != Some(c) {
            f.add("quoted_id_changed_meaning_after_later_encodes", || json!({"api": "QuotedTripleStore::decode", "components": format!("{:?}", c), "id": id, "decodes_to": format!("{:?}", q.decode(id)), "trace_tail": tail(trace, 25)}));
        }
        let again = q.encode(c.0, c.1, c.2);
        if again != id {
            f.add("quoted_triple_reencoded_to_different_id", || json!({"api": "QuotedTripleStore::encode", "components": format!("{:?}", c), "first_id": id, "later_id": again, "trace_tail": tail(trace, 25)}));
        }
    }
    // lock-step of the two maps and the counter
    if d.string_to_id.len() != sh.fwd.len() || d.id_to_string.len() != sh.fwd.len() {
        f.add("dictionary_maps_out_of_step", || json!({"distinct_terms_encoded": sh.fwd.len(), "string_to_id": d.string_to_id.len(), "id_to_string": d.id_to_string.len()}));
    }
    if q.id_to_components.len() != sh.qfwd.len() || q.components_to_id.len() != sh.qfwd.len() || q.len() != sh.qfwd.len() {
        f.add("quoted_store_maps_out_of_step", || json!({"distinct_triples_encoded": sh.qfwd.len(), "id_to_components": q.id_to_components.len(), "components_to_id": q.components_to_id.len()}));
    }
    n
}

struct DictStats {
    new_plain: u64,
    rep_plain: u64,
    new_q: u64,
    rep_q: u64,
    decodes: u64,
    unknown_decodes: u64,
    decode_terms: u64,
    rechecked: u64,
    max_depth: usize,
    calls: u64,
}

fn run_dict_case(r: &mut Rng, thorough: bool) -> Result<(Finds, DictStats, u64), String> {
    let big = r.chance(1, if thorough { 20 } else { 100 });
    let pool = raw_pool(r, big);
    let n_ops = if big { r.range(1500, 6000) } else { r.range(40, 400) };
    let mut trace: Vec<String> = vec![];
    let mut st = DictStats { new_plain: 0, rep_plain: 0, new_q: 0, rep_q: 0, decodes: 0, unknown_decodes: 0, decode_terms: 0, rechecked: 0, max_depth: 0, calls: 0 };
    let r2 = r.clone();
    let res = guard(move || {
        let mut r = r2;
        let mut f = Finds::default();
        let mut d = Dictionary::new();
        let mut q = QuotedTripleStore::new();
        let mut sh = DictShadow { fwd: HashMap::new(), rev: HashMap::new(), qfwd: HashMap::new(), qrev: HashMap::new(), plain_ids: vec![], quoted_ids: vec![] };
        for _ in 0..n_ops {
            st.calls += 1;
            match r.weighted(&[45, 30, 10, 4, 6, 2, 3]) {
                0 => {
                    // Dictionary::encode
                    let t = if !sh.plain_ids.is_empty() && r.chance(1, 3) { sh.rev[r.pick(&sh.plain_ids)].clone() } else { r.pick(&pool).clone() };
                    let id = d.encode(&t);
                    trace.push(format!("dict.encode({:?}) = {}", t, id));
                    match sh.fwd.get(&t) {
                        Some(&old) => {
                            st.rep_plain += 1;
                            if old != id {
                                f.add("term_reencoded_to_different_id", || json!({"api": "Dictionary::encode", "term": t, "first_id": old, "later_id": id, "trace_tail": tail(&trace, 25)}));
                            }
                        }
                        None => {
                            st.new_plain += 1;
                            if let Some(other) = sh.rev.get(&id) {
                                f.add("two_terms_share_one_id", || json!({"api": "Dictionary::encode", "id": id, "first_term": other, "second_term": t, "trace_tail": tail(&trace, 25)}));
                            } else {
                                sh.fwd.insert(t.clone(), id);
                                sh.rev.insert(id, t.clone());
                                sh.plain_ids.push(id);
                            }
                            if is_quoted_triple_id(id) {
                                f.add("plain_term_id_in_quoted_range", || json!({"term": t, "id": id}));
                            }
                        }
                    }
                    if d.decode(id) != Some(t.as_str()) {
                        f.add("decode_is_not_inverse_of_encode", || json!({"api": "Dictionary", "term": t, "id": id, "decodes_to": d.decode(id), "trace_tail": tail(&trace, 25)}));
                    }
                }
                1 => {
                    // QuotedTripleStore::encode
                    let comp = |r: &mut Rng, sh: &DictShadow| -> u32 {
                        match r.weighted(&[50, 35, 15]) {
                            0 if !sh.plain_ids.is_empty() => *r.pick(&sh.plain_ids),
                            1 if !sh.quoted_ids.is_empty() => *r.pick(&sh.quoted_ids),
                            _ => match r.below(4) {
                                0 => 0,
                                1 => QUOTED_TRIPLE_ID_BIT - 1,
                                _ => r.below(50) as u32,
                            },
                        }
                    };
                    let c = if !sh.quoted_ids.is_empty() && r.chance(1, 4) {
                        let base = sh.qrev[r.pick(&sh.quoted_ids)];
                        match r.below(5) {
                            0 => base,
                            1 => (base.2, base.1, base.0),
                            2 => (base.0, base.2, base.1),
                            3 => (base.0 ^ QUOTED_TRIPLE_ID_BIT, base.1, base.2),
                            _ => (base.0, base.1, base.2 ^ QUOTED_TRIPLE_ID_BIT),
                        }
                    } else {
                        (comp(&mut r, &sh), comp(&mut r, &sh), comp(&mut r, &sh))
                    };
                    // a component in the quoted range must be an id that was handed out
                    let ok = |x: u32| !is_quoted_triple_id(x) || sh.qrev.contains_key(&x);
                    if !(ok(c.0) && ok(c.1) && ok(c.2)) {
                        continue;
                    }
                    let id = q.encode(c.0, c.1, c.2);
                    trace.push(format!("qt.encode({:#x}, {:#x}, {:#x}) = {:#x}", c.0, c.1, c.2, id));
                    match sh.qfwd.get(&c) {
                        Some(&old) => {
                            st.rep_q += 1;
                            if old != id {
                                f.add("quoted_triple_reencoded_to_different_id", || json!({"api": "QuotedTripleStore::encode", "components": format!("{:?}", c), "first_id": old, "later_id": id, "trace_tail": tail(&trace, 25)}));
                            }
                        }
                        None => {
                            st.new_q += 1;
                            if let Some(other) = sh.qrev.get(&id) {
                                f.add("two_quoted_triples_share_one_id", || json!({"id": id, "first": format!("{:?}", other), "second": format!("{:?}", c), "trace_tail": tail(&trace, 25)}));
                            } else {
                                sh.qfwd.insert(c, id);
                                sh.qrev.insert(id, c);
                                sh.quoted_ids.push(id);
                                st.max_depth = st.max_depth.max(sh.qdepth(id));
                            }
                            if !is_quoted_triple_id(id) {
                                f.add("quoted_triple_id_without_high_bit", || json!({"components": format!("{:?}", c), "id": id}));
                            }
                            if sh.rev.contains_key(&id) {
                                f.add("quoted_id_equals_plain_id", || json!({"id": id}));
                            }
                        }
                    }
                    if q.decode(id) != Some(c) {
                        f.add("decode_is_not_inverse_of_encode", || json!({"api": "QuotedTripleStore", "components": format!("{:?}", c), "id": id, "decodes_to": format!("{:?}", q.decode(id)), "trace_tail": tail(&trace, 25)}));
                    }
                }
                2 => {
                    // decode of an id handed out earlier
                    st.decodes += 1;
                    if !sh.plain_ids.is_empty() {
                        let id = *r.pick(&sh.plain_ids);
                        if d.decode(id) != Some(sh.rev[&id].as_str()) {
                            f.add("id_changed_meaning_after_later_encodes", || json!({"api": "Dictionary::decode", "term": sh.rev[&id], "id": id, "decodes_to": d.decode(id), "trace_tail": tail(&trace, 25)}));
                        }
                    }
                    if !sh.quoted_ids.is_empty() {
                        let id = *r.pick(&sh.quoted_ids);
                        if q.decode(id) != Some(sh.qrev[&id]) {
                            f.add("quoted_id_changed_meaning_after_later_encodes", || json!({"api": "QuotedTripleStore::decode", "id": id, "expected": format!("{:?}", sh.qrev[&id]), "decodes_to": format!("{:?}", q.decode(id)), "trace_tail": tail(&trace, 25)}));
                        }
                    }
                }
                3 => {
                    // decode of ids never handed out
                    st.unknown_decodes += 1;
                    let pid = match r.below(3) {
                        0 => d.next_id,
                        1 => d.next_id + r.below(1000) as u32,
                        _ => QUOTED_TRIPLE_ID_BIT - 1,
                    };
                    if !sh.rev.contains_key(&pid) && d.decode(pid).is_some() {
                        f.add("never_issued_id_decodes", || json!({"api": "Dictionary::decode", "id": pid, "decodes_to": d.decode(pid)}));
                    }
                    let qid = match r.below(3) {
                        0 => q.next_qt_id,
                        1 => q.next_qt_id + r.below(1000) as u32,
                        _ => u32::MAX,
                    };
                    if !sh.qrev.contains_key(&qid) && q.decode(qid).is_some() {
                        f.add("never_issued_id_decodes", || json!({"api": "QuotedTripleStore::decode", "id": qid}));
                    }
                    // ids of the other range
                    if let Some(&id) = sh.quoted_ids.first() {
                        if d.decode(id).is_some() {
                            f.add("quoted_id_decodes_in_plain_dictionary", || json!({"id": id}));
                        }
                    }
                    if let Some(&id) = sh.plain_ids.first() {
                        if q.decode(id).is_some() {
                            f.add("plain_id_decodes_in_quoted_store", || json!({"id": id}));
                        }
                    }
                }
                4 => {
                    // Dictionary::decode_term renders structurally
                    st.decode_terms += 1;
                    let id = if !sh.quoted_ids.is_empty() && r.chance(3, 4) { *r.pick(&sh.quoted_ids) } else if !sh.plain_ids.is_empty() { *r.pick(&sh.plain_ids) } else { continue };
                    let want = sh.render(id, 64);
                    let got = d.decode_term(id, &q);
                    if got != want {
                        f.add("decode_term_differs_from_structure", || json!({"id": id, "expected": want, "got": got, "trace_tail": tail(&trace, 25)}));
                    }
                }
                5 => {
                    // continue on clones: ids must survive Clone
                    d = d.clone();
                    q = q.clone();
                    trace.push("clone both, continue on the clones".into());
                }
                _ => {
                    st.rechecked += dict_full_check(&mut d, &mut q, &sh, &mut f, &trace);
                }
            }
        }
        st.rechecked += dict_full_check(&mut d, &mut q, &sh, &mut f, &trace);
        let h = hash_str(&trace.join("\n"));
        (f, st, h)
    });
    res
}

// ---------------------------------------------------------------------------------------
// term pools shared by the star and union phases

#[derive(Clone, Debug)]
struct Pool {
    ents: Vec<T>,
    preds: Vec<T>,
    graphs: Vec<String>,
    lits: Vec<T>,
    quoted: Vec<T>,
}

const TRICKY_LITS: [&str; 14] = ["hello world", "say \"hi\"", "tab\there", "x >> y", "<< not quoted", "\u{fc}n\u{ef}", "back\\slash", "a<b>c", " lead", "trail ", "line\nbreak", "<http://k/e0>", "\u{1F600}", ">>"];

fn gen_pool(r: &mut Rng, max_depth: usize, tricky: bool) -> Pool {
    let n_ent = r.range(2, 7);
    let mut ents: Vec<T> = (0..n_ent).map(|i| T::P(format!("http://k/e{}", i))).collect();
    if r.chance(1, 3) {
        ents.push(T::p("_:b0"));
        ents.push(T::p("_:b1"));
    }
    let preds: Vec<T> = (0..r.range(1, 4)).map(|i| T::P(format!("http://k/p{}", i))).collect();
    let mut graphs: Vec<String> = (0..r.range(1, 4)).map(|i| format!("http://k/g{}", i)).collect();
    if r.chance(1, 3) {
        // a graph name that is also used as a subject / object term (and one used as a predicate)
        graphs.push("http://k/e0".to_string());
        if r.coin() {
            graphs.push("http://k/p0".to_string());
        }
    }
    let mut lits: Vec<T> = vec![];
    for i in 0..r.range(1, 4) {
        lits.push(T::P(format!("{}", i)));
    }
    for i in 0..r.range(1, 3) {
        lits.push(T::P(format!("w{}", i)));
    }
    if tricky {
        for _ in 0..r.range(0, 4) {
            let w: &str = TRICKY_LITS[r.below(TRICKY_LITS.len())];
            lits.push(T::p(w));
        }
    }
    lits.sort();
    lits.dedup();
    let mut quoted: Vec<T> = vec![];
    let n_q = if max_depth == 0 { 0 } else { r.range(0, 7) };
    for _ in 0..n_q {
        let pick_nested = |r: &mut Rng, quoted: &Vec<T>| -> Option<T> {
            let c: Vec<&T> = quoted.iter().filter(|t| t.depth() < max_depth).collect();
            if c.is_empty() || !r.chance(2, 5) {
                None
            } else {
                Some((*r.pick(&c)).clone())
            }
        };
        let s = pick_nested(r, &quoted).unwrap_or_else(|| r.pick(&ents).clone());
        let p = r.pick(&preds).clone();
        let o = pick_nested(r, &quoted).unwrap_or_else(|| if r.chance(1, 2) { r.pick(&ents).clone() } else { r.pick(&lits).clone() });
        let t = T::q(s, p, o);
        if !quoted.contains(&t) {
            quoted.push(t);
        }
    }
    Pool { ents, preds, graphs, lits, quoted }
}

impl Pool {
    fn subject(&self, r: &mut Rng, q_rate: usize) -> T {
        if !self.quoted.is_empty() && r.chance(q_rate, 100) {
            r.pick(&self.quoted).clone()
        } else {
            r.pick(&self.ents).clone()
        }
    }
    fn object(&self, r: &mut Rng, q_rate: usize) -> T {
        if !self.quoted.is_empty() && r.chance(q_rate, 100) {
            r.pick(&self.quoted).clone()
        } else if r.chance(1, 2) {
            r.pick(&self.ents).clone()
        } else {
            r.pick(&self.lits).clone()
        }
    }
    fn any(&self, r: &mut Rng, q_rate: usize) -> T {
        match r.below(4) {
            0 => self.subject(r, q_rate),
            1 => r.pick(&self.preds).clone(),
            _ => self.object(r, q_rate),
        }
    }
}

/// structural decoding through the public maps (independent of decode_any / decode_term)
fn tree_of(dict: &Dictionary, store: &QuotedTripleStore, id: u32, fuel: usize) -> Result<T, String> {
    if fuel == 0 {
        return Err(format!("quoted id {:#x} nests deeper than 64 levels (cycle)", id));
    }
    if is_quoted_triple_id(id) {
        let (s, p, o) = store.id_to_components.get(&id).copied().ok_or_else(|| format!("quoted id {:#x} is not in the store", id))?;
        Ok(T::q(tree_of(dict, store, s, fuel - 1)?, tree_of(dict, store, p, fuel - 1)?, tree_of(dict, store, o, fuel - 1)?))
    } else {
        dict.id_to_string.get(&id).map(|s| T::P(s.clone())).ok_or_else(|| format!("plain id {} is not in the dictionary", id))
    }
}

fn db_tree(db: &SparqlDatabase, id: u32) -> Result<T, String> {
    let d = db.dictionary.read().unwrap();
    let q = db.quoted_triple_store.read().unwrap();
    tree_of(&d, &q, id, 64)
}

// ---------------------------------------------------------------------------------------
// phase star: SparqlDatabase::encode_term_star / decode_any against a shadow keyed by tree

struct StarStats {
    encodes: u64,
    new_terms: u64,
    repeats: u64,
    decodes: u64,
    rechecked: u64,
    max_depth: usize,
    by_spelling: BTreeMap<&'static str, u64>,
    by_depth: [u64; 4],
    loader_calls: u64,
}

struct StarShadow {
    fwd: BTreeMap<T, u32>,
    rev: HashMap<u32, T>,
    /// the (term, spelling) of the encode_term_star call at which the first finding appeared
    culprit: Option<(T, Sp)>,
}

impl StarShadow {
    /// register (term,id) and, through the store, every sub-term the engine encoded with it
    fn observe(&mut self, db: &SparqlDatabase, t: &T, id: u32, sp: Sp, f: &mut Finds, trace: &[String]) -> bool {
        let n0 = f.0.len();
        let fresh = self.observe_inner(db, t, id, sp, f, trace);
        if f.0.len() > n0 && self.culprit.is_none() {
            self.culprit = Some((t.clone(), sp));
        }
        fresh
    }
    fn observe_inner(&mut self, db: &SparqlDatabase, t: &T, id: u32, sp: Sp, f: &mut Finds, trace: &[String]) -> bool {
        if !f.0.is_empty() {
            return false; // the state is already off: later observations would only echo it
        }
        let mut fresh = false;
        match self.fwd.get(t) {
            Some(&old) => {
                if old != id {
                    f.add("term_reencoded_to_different_id", || json!({"api": "encode_term_star", "spelling": sp.name(), "term": t.render(), "first_id": old, "later_id": id, "trace_tail": tail(trace, 20)}));
                }
            }
            None => {
                fresh = true;
                if let Some(other) = self.rev.get(&id) {
                    f.add("two_terms_share_one_id", || json!({"api": "encode_term_star", "spelling": sp.name(), "id": id, "first_term": other.render(), "second_term": t.render(), "trace_tail": tail(trace, 20)}));
                    return fresh;
                }
                self.fwd.insert(t.clone(), id);
                self.rev.insert(id, t.clone());
            }
        }
        if is_quoted_triple_id(id) != t.is_q() {
            f.add(if t.is_q() { "quoted_triple_id_without_high_bit" } else { "plain_term_id_in_quoted_range" }, || json!({"api": "encode_term_star", "spelling": sp.name(), "term": t.render(), "id": id}));
        }
        match db_tree(db, id) {
            Ok(tr) => {
                if &tr != t {
                    f.add("id_denotes_another_term", || json!({"api": "encode_term_star", "spelling": sp.name(), "encoded": t.render(), "id": id, "id_denotes": tr.render(), "trace_tail": tail(trace, 20)}));
                }
            }
            Err(e) => f.add("id_not_decodable", || json!({"api": "encode_term_star", "spelling": sp.name(), "term": t.render(), "id": id, "error": e})),
        }
        let got = db.decode_any(id);
        if got.as_deref() != Some(t.render().as_str()) {
            f.add("decode_is_not_inverse_of_encode", || json!({"api": "decode_any", "spelling": sp.name(), "term": t.render(), "id": id, "decodes_to": got, "trace_tail": tail(trace, 20)}));
        }
        // components
        if let (T::Q(b), true) = (t, is_quoted_triple_id(id)) {
            let comps = db.quoted_triple_store.read().unwrap().decode(id);
            if let Some((s, p, o)) = comps {
                if fresh {
                    self.observe_inner(db, &b.0, s, sp, f, trace);
                    self.observe_inner(db, &b.1, p, sp, f, trace);
                    self.observe_inner(db, &b.2, o, sp, f, trace);
                }
            }
        }
        fresh
    }
}

fn star_full_check(db: &SparqlDatabase, sh: &StarShadow, f: &mut Finds, trace: &[String], r: &mut Rng) -> u64 {
    let mut n = 0;
    for (t, &id) in &sh.fwd {
        n += 1;
        let got = db.decode_any(id);
        if got.as_deref() != Some(t.render().as_str()) {
            f.add("id_changed_meaning_after_later_encodes", || json!({"api": "decode_any", "term": t.render(), "id": id, "decodes_to": got, "trace_tail": tail(trace, 20)}));
        }
        match db_tree(db, id) {
            Ok(tr) if &tr == t => {}
            other => f.add("id_changed_meaning_after_later_encodes", || json!({"api": "structure", "term": t.render(), "id": id, "now": format!("{:?}", other.map(|t| t.render())), "trace_tail": tail(trace, 20)})),
        }
        let again = db.encode_term_star(&spell(t, Sp::Canon, r));
        if again != id {
            f.add("term_reencoded_to_different_id", || json!({"api": "encode_term_star", "spelling": "canonical", "term": t.render(), "first_id": id, "later_id": again, "trace_tail": tail(trace, 20)}));
        }
    }
    n
}

/// spellings whose treatment is documented: canonical N-Triples-star; the others are
/// accepted inputs of the same function ("edge": a deviation gets its own signature)
fn pick_spelling(r: &mut Rng, edge: bool) -> Sp {
    let w: [usize; 5] = if edge { [40, 15, 20, 17, 8] } else { [55, 30, 0, 0, 15] };
    match r.weighted(&w) {
        0 => Sp::Canon,
        1 => Sp::Ws,
        2 => Sp::Bare,
        3 => Sp::Compact,
        _ => Sp::Uesc,
    }
}

fn run_star_case(r: &mut Rng, thorough: bool) -> Result<(Finds, StarStats, u64, Option<(T, Sp)>), String> {
    let pool = gen_pool(r, 3, true);
    let n_ops = if thorough && r.chance(1, 20) { r.range(200, 1500) } else { r.range(20, 160) };
    let r2 = r.clone();
    guard(move || {
        let mut r = r2;
        let mut f = Finds::default();
        let mut st = StarStats { encodes: 0, new_terms: 0, repeats: 0, decodes: 0, rechecked: 0, max_depth: 0, by_spelling: BTreeMap::new(), by_depth: [0; 4], loader_calls: 0 };
        let mut trace: Vec<String> = vec![];
        let mut db = SparqlDatabase::new();
        let mut sh = StarShadow { fwd: BTreeMap::new(), rev: HashMap::new(), culprit: None };
        let q_rate = *r.pick(&[20usize, 50, 80]);
        // half of the sequences keep to the N-Triples-star spellings, so that a defect in the
        // treatment of bare / compact input cannot cut the core workload short
        let edge = r.coin();
        *st.by_spelling.entry(if edge { "sequences_with_bare_and_compact_input" } else { "sequences_with_ntriples_star_input_only" }).or_insert(0) += 1;
        for _ in 0..n_ops {
            if !f.0.is_empty() {
                break; // one defect per sequence: everything after it would echo the broken state
            }
            match r.weighted(&[64, 10, 5, 10, 4, 7]) {
                0 => {
                    let t = if !sh.fwd.is_empty() && r.chance(1, 4) {
                        let k = r.below(sh.fwd.len());
                        sh.fwd.keys().nth(k).unwrap().clone()
                    } else {
                        pool.any(&mut r, q_rate)
                    };
                    let sp = pick_spelling(&mut r, edge);
                    let text = spell(&t, sp, &mut r);
                    let id = db.encode_term_star(&text);
                    trace.push(format!("encode_term_star({:?}) = {:#x}", text, id));
                    st.encodes += 1;
                    *st.by_spelling.entry(sp.name()).or_insert(0) += 1;
                    st.by_depth[t.depth().min(3)] += 1;
                    st.max_depth = st.max_depth.max(t.depth());
                    if sh.observe(&db, &t, id, sp, &mut f, &trace) {
                        st.new_terms += 1;
                    } else {
                        st.repeats += 1;
                    }
                }
                1 => {
                    // add_quad_parts encodes s,p,o through encode_term_star and the graph raw
                    let (s, p, o) = (pool.subject(&mut r, q_rate), r.pick(&pool.preds).clone(), pool.object(&mut r, q_rate));
                    let g = r.pick(&pool.graphs).clone();
                    let sp = if r.chance(2, 3) { Sp::Canon } else { Sp::Ws };
                    let (ts, tp, to) = (spell(&s, sp, &mut r), spell(&p, sp, &mut r), spell(&o, sp, &mut r));
                    db.add_quad_parts(&ts, &tp, &to, &g);
                    trace.push(format!("add_quad_parts({:?}, {:?}, {:?}, {:?})", ts, tp, to, g));
                    st.loader_calls += 1;
                    let (si, pi, oi, gi) = (sh.fwd.get(&s).copied(), sh.fwd.get(&p).copied(), sh.fwd.get(&o).copied(), sh.fwd.get(&T::P(g.clone())).copied());
                    // the quad must be stored under the ids these terms have (or get)
                    let ids: Vec<u32> = [&s, &p, &o].iter().map(|t| db.encode_term_star(&spell(t, Sp::Canon, &mut r))).collect();
                    let gid = db.dictionary.write().unwrap().encode(&g);
                    for (t, (known, now)) in [&s, &p, &o, &T::P(g.clone())].iter().zip([si, pi, oi, gi].iter().zip(ids.iter().chain(std::iter::once(&gid)))) {
                        if let Some(k) = known {
                            if k != now {
                                f.add("term_reencoded_to_different_id", || json!({"api": "add_quad_parts", "term": t.render(), "first_id": k, "later_id": now, "trace_tail": tail(&trace, 20)}));
                            }
                        }
                        sh.observe(&db, t, *now, sp, &mut f, &trace);
                    }
                    let stored = db.dataset_index.contains_quad(&Quad { subject: ids[0], predicate: ids[1], object: ids[2], graph: GraphId::Named(gid) });
                    if !stored {
                        f.add("quad_stored_under_other_ids", || json!({"api": "add_quad_parts", "quad": format!("{} {} {} @{}", s.render(), p.render(), o.render(), g), "trace_tail": tail(&trace, 20)}));
                    }
                }
                2 => {
                    // add_triple_parts encodes raw lexical values
                    let (s, p, o) = (r.pick(&pool.ents).clone(), r.pick(&pool.preds).clone(), if r.coin() { r.pick(&pool.ents).clone() } else { r.pick(&pool.lits).clone() });
                    db.add_triple_parts(&s.render(), &p.render(), &o.render());
                    trace.push(format!("add_triple_parts({:?}, {:?}, {:?})", s.render(), p.render(), o.render()));
                    st.loader_calls += 1;
                    let ids: Vec<u32> = [&s, &p, &o].iter().map(|t| db.encode_term_star(&spell(t, Sp::Canon, &mut r))).collect();
                    for (t, id) in [&s, &p, &o].iter().zip(ids.iter()) {
                        sh.observe(&db, t, *id, Sp::Canon, &mut f, &trace);
                    }
                    if !db.dataset_index.contains_quad(&Quad { subject: ids[0], predicate: ids[1], object: ids[2], graph: GraphId::Default }) {
                        f.add("quad_stored_under_other_ids", || json!({"api": "add_triple_parts", "triple": format!("{} {} {}", s.render(), p.render(), o.render()), "trace_tail": tail(&trace, 20)}));
                    }
                }
                3 => {
                    st.decodes += 1;
                    if !sh.fwd.is_empty() {
                        let k = r.below(sh.fwd.len());
                        let (t, &id) = sh.fwd.iter().nth(k).unwrap();
                        let got = db.decode_any(id);
                        if got.as_deref() != Some(t.render().as_str()) {
                            f.add("id_changed_meaning_after_later_encodes", || json!({"api": "decode_any", "term": t.render(), "id": id, "decodes_to": got, "trace_tail": tail(&trace, 20)}));
                        }
                    }
                }
                4 => {
                    let pid = db.dictionary.read().unwrap().next_id + r.below(50) as u32;
                    let qid = db.quoted_triple_store.read().unwrap().next_qt_id + r.below(50) as u32;
                    for id in [pid, qid] {
                        if !sh.rev.contains_key(&id) {
                            if let Some(x) = db.decode_any(id) {
                                f.add("never_issued_id_decodes", || json!({"api": "decode_any", "id": id, "decodes_to": x}));
                            }
                        }
                    }
                }
                _ => {
                    st.rechecked += star_full_check(&db, &sh, &mut f, &trace, &mut r);
                }
            }
        }
        if !f.0.is_empty() {
            f.0.truncate(1);
            let h = hash_str(&trace.join("\n"));
            return (f, st, h, sh.culprit.clone());
        }
        st.rechecked += star_full_check(&db, &sh, &mut f, &trace, &mut r);
        // the dictionary must not know more plain terms than the plain sub-terms encoded,
        // the store not more quoted triples than the quoted sub-terms encoded
        let n_plain = sh.fwd.keys().filter(|t| !t.is_q()).count();
        let n_q = sh.fwd.keys().filter(|t| t.is_q()).count();
        let (dl, ql) = (db.dictionary.read().unwrap().id_to_string.len(), db.quoted_triple_store.read().unwrap().len());
        if dl != n_plain || ql != n_q {
            let d = db.dictionary.read().unwrap();
            let extra: Vec<String> = d.string_to_id.keys().filter(|s| !sh.fwd.contains_key(&T::P((*s).clone()))).take(5).cloned().collect();
            f.add("terms_encoded_that_were_never_given", || json!({"plain_terms_given": n_plain, "dictionary_size": dl, "quoted_terms_given": n_q, "store_size": ql, "unexpected_plain_terms": extra, "trace_tail": tail(&trace, 20)}));
        }
        let h = hash_str(&trace.join("\n"));
        (f, st, h, None)
    })
}

/// What does one call on a fresh database make of this spelling? None = the right term.
fn encodes_wrong(t: &T, sp: Sp) -> Option<String> {
    let t2 = t.clone();
    match guard(move || {
        let db = SparqlDatabase::new();
        let id = db.encode_term_star(&spell(&t2, sp, &mut Rng::new(7)));
        match db_tree(&db, id) {
            Ok(tr) if tr == t2 && db.decode_any(id).as_deref() == Some(t2.render().as_str()) => None,
            Ok(tr) => Some(format!("id {:#x} = {}", id, tr.render())),
            Err(e) => Some(e),
        }
    }) {
        Ok(x) => x,
        Err(e) => Some(format!("panic: {}", e)),
    }
}

/// Establish the cause of a spelling-dependent failure by restricted re-runs:
/// single call on a fresh database, smallest failing sub-term, the other spellings of that
/// sub-term, the sub-term without angle brackets inside literals, and a direct call of the
/// public splitter on the sub-term's content.
fn diagnose_star(t: &T, sp: Sp) -> (Value, Value) {
    if encodes_wrong(t, sp).is_none() {
        return (json!({"cause": "not_reproduced_by_one_call_on_a_fresh_database"}), json!({}));
    }
    let (mut pl, mut qs) = (BTreeSet::new(), BTreeSet::new());
    t.collect(&mut pl, &mut qs);
    let mut subs: Vec<T> = qs.into_iter().collect();
    subs.sort_by_key(|x| (x.render().len(), x.clone()));
    let m = subs.iter().find(|x| encodes_wrong(x, sp).is_some()).cloned().unwrap_or_else(|| t.clone());
    let got = encodes_wrong(&m, sp);
    let no_angle = m.map_plain(&|x: &T| match x {
        T::P(s) if !is_iri(s) && !s.starts_with("_:") && (s.contains('<') || s.contains('>')) => Some(T::p("w9")),
        _ => None,
    });
    let needs_lit = no_angle != m && encodes_wrong(&no_angle, sp).is_none();
    let ok_spellings: Vec<&str> = [Sp::Canon, Sp::Ws, Sp::Bare, Sp::Compact, Sp::Uesc].iter().filter(|s| encodes_wrong(&m, **s).is_none()).map(|s| s.name()).collect();
    let mut split_wrong = false;
    let mut split_detail = json!(null);
    if let T::Q(b) = &m {
        let mut r = Rng::new(7);
        let (a, p, o) = (spell(&b.0, sp, &mut r), spell(&b.1, sp, &mut r), spell(&b.2, sp, &mut r));
        let full = compose(sp, &a, &p, &o, &mut r);
        let tr = full.trim();
        let content = tr[2..tr.len() - 2].trim().to_string();
        let parts = guard(|| SparqlDatabase::split_quoted_triple_content(&content));
        match parts {
            Ok((x, y, z)) => {
                if (x.as_str(), y.as_str(), z.as_str()) != (a.as_str(), p.as_str(), o.as_str()) {
                    split_wrong = true;
                    split_detail = json!({"content": content, "expected_parts": [a, p, o], "split_quoted_triple_content_returns": [x, y, z]});
                }
            }
            Err(e) => {
                split_wrong = true;
                split_detail = json!({"content": content, "panic": e});
            }
        }
    }
    let sig = json!({"cause": if split_wrong { "split_quoted_triple_content_splits_elsewhere" } else { "other" }, "needs_literal_with_angle_bracket": needs_lit});
    let det = json!({"minimal_term": m.render(), "minimal_spelling": spell(&m, sp, &mut Rng::new(7)), "fresh_database_yields": got, "spellings_of_the_minimal_term_that_work": ok_spellings, "splitter": split_detail});
    (sig, det)
}

// ---------------------------------------------------------------------------------------
// phase union: build scripts, dataset model, observation

#[derive(Clone, Debug, PartialEq)]
enum Op {
    /// encode a term that no quad refers to (shifts ids, stays in dictionary / store)
    Pre(T),
    /// route 0: encode_term_star + add_quad; 1: add_quad_parts (named graph);
    /// 2: add_triple_parts (plain terms, default graph); 3: one N-Quads line
    Quad { s: T, p: T, o: T, g: Option<String>, route: u8 },
    /// add_tagged_triple: plain terms, default graph, probability seed
    Tagged { s: String, p: String, o: String, prob: f64 },
    /// seed on a (possibly quoted) triple: ids through encode_term_star, entry in
    /// probability_seeds; `present`: the triple is also added to the default graph
    SeedStar { s: T, p: T, o: T, prob: f64, present: bool },
    EmptyGraph(String),
    Delete { s: T, p: T, o: T, g: Option<String> },
}

type MQuad = (T, T, T, Option<T>);

#[derive(Clone, Debug, Default, PartialEq)]
struct Model {
    quads: BTreeSet<MQuad>,
    graphs: BTreeSet<T>,
    /// acceptable seed values per triple (more than one only after a union of conflicting seeds)
    seeds: BTreeMap<(T, T, T), BTreeSet<u64>>,
    qterms: BTreeSet<T>,
    terms: BTreeSet<String>,
}

impl Model {
    fn know(&mut self, t: &T) {
        t.collect(&mut self.terms, &mut self.qterms);
    }
    fn apply(&mut self, op: &Op) {
        match op {
            Op::Pre(t) => self.know(t),
            Op::Quad { s, p, o, g, .. } => {
                for t in [s, p, o] {
                    self.know(t);
                }
                if let Some(g) = g {
                    self.terms.insert(g.clone());
                    self.graphs.insert(T::P(g.clone()));
                }
                self.quads.insert((s.clone(), p.clone(), o.clone(), g.as_ref().map(|g| T::P(g.clone()))));
            }
            Op::Tagged { s, p, o, prob } => {
                for t in [s, p, o] {
                    self.terms.insert(t.clone());
                }
                self.quads.insert((T::p(s), T::p(p), T::p(o), None));
                self.seeds.insert((T::p(s), T::p(p), T::p(o)), [prob.to_bits()].into_iter().collect());
            }
            Op::SeedStar { s, p, o, prob, present } => {
                for t in [s, p, o] {
                    self.know(t);
                }
                if *present {
                    self.quads.insert((s.clone(), p.clone(), o.clone(), None));
                }
                self.seeds.insert((s.clone(), p.clone(), o.clone()), [prob.to_bits()].into_iter().collect());
            }
            Op::EmptyGraph(g) => {
                self.terms.insert(g.clone());
                self.graphs.insert(T::P(g.clone()));
            }
            Op::Delete { s, p, o, g } => {
                for t in [s, p, o] {
                    self.know(t);
                }
                if let Some(g) = g {
                    self.terms.insert(g.clone());
                }
                // the graph keeps its identity (C04 rule); a delete in an unknown graph creates nothing
                self.quads.remove(&(s.clone(), p.clone(), o.clone(), g.as_ref().map(|g| T::P(g.clone()))));
            }
        }
    }
    fn merge(a: &Model, b: &Model) -> Model {
        let mut m = a.clone();
        m.quads.extend(b.quads.iter().cloned());
        m.graphs.extend(b.graphs.iter().cloned());
        m.qterms.extend(b.qterms.iter().cloned());
        m.terms.extend(b.terms.iter().cloned());
        for (k, v) in &b.seeds {
            m.seeds.entry(k.clone()).or_default().extend(v.iter().copied());
        }
        m
    }
}

fn nq_term(t: &T) -> String {
    match t {
        T::P(s) if is_iri(s) => format!("<{}>", s),
        T::P(s) => lit(s, false),
        T::Q(_) => unreachable!(),
    }
}
fn nq_ok(t: &T) -> bool {
    match t {
        T::P(s) => is_iri(s) || is_simple_word(s),
        T::Q(_) => false,
    }
}

fn apply_op(db: &mut SparqlDatabase, op: &Op, r: &mut Rng) {
    let sp = |r: &mut Rng| if r.chance(3, 4) { Sp::Canon } else { Sp::Ws };
    match op {
        Op::Pre(t) => {
            let k = sp(r);
            db.encode_term_star(&spell(t, k, r));
        }
        Op::Quad { s, p, o, g, route } => match route {
            1 if g.is_some() => {
                let k = sp(r);
                db.add_quad_parts(&spell(s, k, r), &spell(p, k, r), &spell(o, k, r), g.as_ref().unwrap());
            }
            2 if g.is_none() && !s.is_q() && !p.is_q() && !o.is_q() => db.add_triple_parts(&s.render(), &p.render(), &o.render()),
            3 if nq_ok(s) && nq_ok(p) && nq_ok(o) => {
                let line = match g {
                    Some(g) => format!("{} {} {} <{}> .\n", nq_term(s), nq_term(p), nq_term(o), g),
                    None => format!("{} {} {} .\n", nq_term(s), nq_term(p), nq_term(o)),
                };
                db.parse_nquads_and_add(&line);
            }
            _ => {
                let k = sp(r);
                let gid = match g {
                    Some(g) => GraphId::Named(db.dictionary.write().unwrap().encode(g)),
                    None => GraphId::Default,
                };
                let (si, pi, oi) = (db.encode_term_star(&spell(s, k, r)), db.encode_term_star(&spell(p, k, r)), db.encode_term_star(&spell(o, k, r)));
                db.add_quad(Quad { subject: si, predicate: pi, object: oi, graph: gid });
            }
        },
        Op::Tagged { s, p, o, prob } => db.add_tagged_triple(s, p, o, *prob),
        Op::SeedStar { s, p, o, prob, present } => {
            let k = sp(r);
            let t = Triple { subject: db.encode_term_star(&spell(s, k, r)), predicate: db.encode_term_star(&spell(p, k, r)), object: db.encode_term_star(&spell(o, k, r)) };
            if *present {
                db.add_triple(t.clone());
            }
            db.probability_seeds.insert(t, *prob);
        }
        Op::EmptyGraph(g) => {
            let id = db.dictionary.write().unwrap().encode(g);
            db.dataset_index.create_graph(GraphId::Named(id));
        }
        Op::Delete { s, p, o, g } => {
            let gid = match g {
                Some(g) => GraphId::Named(db.dictionary.write().unwrap().encode(g)),
                None => GraphId::Default,
            };
            let k = Sp::Canon;
            let q = Quad { subject: db.encode_term_star(&spell(s, k, r)), predicate: db.encode_term_star(&spell(p, k, r)), object: db.encode_term_star(&spell(o, k, r)), graph: gid };
            db.delete_quad(&q);
        }
    }
}

fn build(script: &[Op], spell_seed: u64) -> (SparqlDatabase, Model) {
    let mut db = SparqlDatabase::new();
    let mut m = Model::default();
    let mut r = Rng::new(spell_seed);
    for op in script {
        apply_op(&mut db, op, &mut r);
        m.apply(op);
    }
    (db, m)
}

/// Everything observable about a database, on the level of ids (for "inputs unchanged")
#[derive(Clone, PartialEq)]
struct Raw {
    dict: Dictionary,
    store: QuotedTripleStore,
    quads: Vec<Quad>,
    graphs: Vec<GraphId>,
    seeds: Vec<(Triple, u64)>,
}

fn raw_of(db: &SparqlDatabase) -> Raw {
    let mut quads = db.dataset_index.all_quads();
    quads.sort();
    let mut graphs = db.dataset_index.named_graphs();
    graphs.sort();
    let mut seeds: Vec<(Triple, u64)> = db.probability_seeds.iter().map(|(t, p)| (t.clone(), p.to_bits())).collect();
    seeds.sort();
    Raw { dict: db.dictionary.read().unwrap().clone(), store: db.quoted_triple_store.read().unwrap().clone(), quads, graphs, seeds }
}

/// lexical / structural view of a Raw state (+ internal consistency findings)
#[derive(Clone, Debug, Default, PartialEq)]
struct Obs {
    quads: BTreeSet<MQuad>,
    graphs: BTreeSet<T>,
    seeds: BTreeMap<(T, T, T), u64>,
    qterms: BTreeSet<T>,
    terms: BTreeSet<String>,
}

fn observe(raw: &Raw, db: Option<&SparqlDatabase>, who: &str, f: &mut Finds) -> Obs {
    let mut o = Obs::default();
    let d = &raw.dict;
    let q = &raw.store;
    // the merged dictionary must itself be a bijection
    let mut bad: Vec<String> = vec![];
    if d.string_to_id.len() != d.id_to_string.len() {
        bad.push(format!("string_to_id has {} entries, id_to_string {}", d.string_to_id.len(), d.id_to_string.len()));
    }
    for (s, id) in &d.string_to_id {
        if d.id_to_string.get(id) != Some(s) {
            bad.push(format!("{:?} -> {} but {} -> {:?}", s, id, id, d.id_to_string.get(id)));
        }
        if is_quoted_triple_id(*id) {
            bad.push(format!("plain term {:?} has id {:#x} in the quoted range", s, id));
        }
        if *id >= d.next_id {
            bad.push(format!("id {} of {:?} is not below next_id {}: the next new term would share it", id, s, d.next_id));
        }
    }
    for (id, s) in &d.id_to_string {
        if d.string_to_id.get(s) != Some(id) {
            bad.push(format!("{} -> {:?} but {:?} -> {:?}", id, s, s, d.string_to_id.get(s)));
        }
    }
    if !bad.is_empty() {
        bad.sort();
        f.add(&format!("{}_dictionary_not_a_bijection", who), || json!({"problems": bad.iter().take(6).collect::<Vec<_>>()}));
    }
    let mut badq: Vec<String> = vec![];
    if q.id_to_components.len() != q.components_to_id.len() {
        badq.push(format!("id_to_components has {} entries, components_to_id {}", q.id_to_components.len(), q.components_to_id.len()));
    }
    for (id, c) in &q.id_to_components {
        if q.components_to_id.get(c) != Some(id) {
            badq.push(format!("{:#x} -> {:?} but {:?} -> {:?}", id, c, c, q.components_to_id.get(c)));
        }
        if !is_quoted_triple_id(*id) {
            badq.push(format!("quoted triple id {:#x} lacks the high bit", id));
        }
        if *id >= q.next_qt_id {
            badq.push(format!("quoted id {:#x} is not below next_qt_id {:#x}", id, q.next_qt_id));
        }
    }
    for (c, id) in &q.components_to_id {
        if q.id_to_components.get(id) != Some(c) {
            badq.push(format!("{:?} -> {:#x} but {:#x} -> {:?}", c, id, id, q.id_to_components.get(id)));
        }
    }
    if !badq.is_empty() {
        badq.sort();
        f.add(&format!("{}_quoted_store_not_a_bijection", who), || json!({"problems": badq.iter().take(6).collect::<Vec<_>>()}));
    }
    o.terms = d.string_to_id.keys().cloned().collect();
    let mut undec: Vec<String> = vec![];
    let mut seen_q: BTreeMap<T, u32> = BTreeMap::new();
    for id in q.id_to_components.keys() {
        match tree_of(d, q, *id, 64) {
            Ok(t) => {
                if let Some(other) = seen_q.insert(t.clone(), *id) {
                    f.add(&format!("{}_quoted_term_has_two_ids", who), || json!({"term": t.render(), "ids": [other, *id]}));
                }
                o.qterms.insert(t);
            }
            Err(e) => undec.push(e),
        }
    }
    let dec = |id: u32, undec: &mut Vec<String>, f: &mut Finds| -> Option<T> {
        match tree_of(d, q, id, 64) {
            Ok(t) => {
                if let Some(db) = db {
                    let got = db.decode_any(id);
                    if got.as_deref() != Some(t.render().as_str()) {
                        f.add(&format!("{}_decode_any_differs_from_structure", who), || json!({"id": id, "structure": t.render(), "decode_any": got}));
                    }
                }
                Some(t)
            }
            Err(e) => {
                undec.push(e);
                None
            }
        }
    };
    for g in &raw.graphs {
        if let GraphId::Named(id) = g {
            if let Some(t) = dec(*id, &mut undec, f) {
                if !o.graphs.insert(t.clone()) {
                    f.add(&format!("{}_graph_listed_under_two_ids", who), || json!({"graph": t.render()}));
                }
            }
        }
    }
    for qd in &raw.quads {
        let g = match qd.graph {
            GraphId::Default => Some(None),
            GraphId::Named(id) => dec(id, &mut undec, f).map(Some),
        };
        if let (Some(s), Some(p), Some(ob), Some(g)) = (dec(qd.subject, &mut undec, f), dec(qd.predicate, &mut undec, f), dec(qd.object, &mut undec, f), g) {
            let lex = (s, p, ob, g);
            if !o.quads.insert(lex.clone()) {
                f.add(&format!("{}_quad_stored_under_two_id_tuples", who), || json!({"quad": mquad_str(&lex)}));
            }
        }
    }
    for (t, p) in &raw.seeds {
        if let (Some(s), Some(pp), Some(ob)) = (dec(t.subject, &mut undec, f), dec(t.predicate, &mut undec, f), dec(t.object, &mut undec, f)) {
            let k = (s, pp, ob);
            if let Some(prev) = o.seeds.insert(k.clone(), *p) {
                f.add(&format!("{}_seed_stored_under_two_id_triples", who), || json!({"triple": format!("{} {} {}", k.0.render(), k.1.render(), k.2.render()), "values": [f64::from_bits(prev), f64::from_bits(*p)]}));
            }
        }
    }
    if !undec.is_empty() {
        undec.sort();
        undec.dedup();
        f.add(&format!("{}_refers_to_undecodable_id", who), || json!({"errors": undec.iter().take(6).collect::<Vec<_>>()}));
    }
    o
}

fn mquad_str(q: &MQuad) -> String {
    format!("{} {} {} @{}", q.0.render(), q.1.render(), q.2.render(), q.3.as_ref().map(|g| g.render()).unwrap_or_else(|| "DEFAULT".into()))
}

/// which operand(s) the items missing from a union result belong to
fn side<X>(items: &[X], in_left: impl Fn(&X) -> bool, in_right: impl Fn(&X) -> bool) -> &'static str {
    let (mut l, mut r, mut b) = (0, 0, 0);
    for x in items {
        match (in_left(x), in_right(x)) {
            (true, true) => b += 1,
            (true, false) => l += 1,
            (false, true) => r += 1,
            _ => {}
        }
    }
    match (l > 0, r > 0, b > 0) {
        (false, false, false) => "nothing",
        (true, false, false) => "left_operand_only",
        (false, true, false) => "right_operand_only",
        (false, false, true) => "items_present_in_both_operands",
        (false, true, true) => "right_operand",
        (true, false, true) => "left_operand",
        _ => "both_operands",
    }
}

/// compare an observation with the model; `who` = "load" or "union"; `ops` = the models of
/// the two operands of a union (to say whose items are missing)
fn diff(m: &Model, o: &Obs, who: &str, f: &mut Finds, ops: Option<(&Model, &Model)>) {
    let missing: Vec<&MQuad> = m.quads.iter().filter(|q| !o.quads.contains(*q)).collect();
    let extra: Vec<String> = o.quads.iter().filter(|q| !m.quads.contains(*q)).map(mquad_str).collect();
    if !missing.is_empty() || !extra.is_empty() {
        let kind = match (missing.is_empty(), extra.is_empty()) {
            (false, true) => "quads_missing",
            (true, false) => "quads_extra",
            _ => "quads_replaced",
        };
        let from = ops.map(|(a, b)| side(&missing, |q| a.quads.contains(*q), |q| b.quads.contains(*q)));
        f.add(&format!("{}_{}", who, kind), || json!({"missing": missing.iter().take(5).map(|q| mquad_str(q)).collect::<Vec<_>>(), "n_missing": missing.len(), "missing_from": from, "unexpected": extra.iter().take(5).collect::<Vec<_>>(), "n_unexpected": extra.len()}));
    }
    let gm: Vec<&T> = m.graphs.difference(&o.graphs).collect();
    let ge: Vec<String> = o.graphs.difference(&m.graphs).map(|t| t.render()).collect();
    if !gm.is_empty() || !ge.is_empty() {
        let kind = match (gm.is_empty(), ge.is_empty()) {
            (false, true) => "catalog_graphs_missing",
            (true, false) => "catalog_graphs_extra",
            _ => "catalog_graphs_replaced",
        };
        let empty_missing = gm.iter().filter(|g| !m.quads.iter().any(|q| q.3.as_ref() == Some(**g))).count();
        let from = ops.map(|(a, b)| side(&gm, |g| a.graphs.contains(*g), |g| b.graphs.contains(*g)));
        f.add(&format!("{}_{}", who, kind), || json!({"missing": gm.iter().map(|g| g.render()).collect::<Vec<_>>(), "missing_from": from, "of_which_empty_graphs": empty_missing, "unexpected": ge}));
    }
    let tstr = |k: &(T, T, T)| format!("{} {} {}", k.0.render(), k.1.render(), k.2.render());
    let sm: Vec<&(T, T, T)> = m.seeds.keys().filter(|k| !o.seeds.contains_key(*k)).collect();
    let se: Vec<String> = o.seeds.keys().filter(|k| !m.seeds.contains_key(*k)).map(tstr).collect();
    if !sm.is_empty() || !se.is_empty() {
        let kind = match (sm.is_empty(), se.is_empty()) {
            (false, true) => "seeds_missing",
            (true, false) => "seeds_extra",
            _ => "seeds_attached_to_other_triples",
        };
        let from = ops.map(|(a, b)| side(&sm, |k| a.seeds.contains_key(*k), |k| b.seeds.contains_key(*k)));
        f.add(&format!("{}_{}", who, kind), || json!({"missing": sm.iter().take(5).map(|k| tstr(k)).collect::<Vec<_>>(), "missing_from": from, "unexpected": se.iter().take(5).collect::<Vec<_>>()}));
    }
    for (k, v) in &o.seeds {
        if let Some(acc) = m.seeds.get(k) {
            if !acc.contains(v) {
                f.add(&format!("{}_seed_value_wrong", who), || json!({"triple": tstr(k), "got": f64::from_bits(*v), "acceptable": acc.iter().map(|b| f64::from_bits(*b)).collect::<Vec<_>>()}));
            }
        }
    }
    let qm: Vec<&T> = m.qterms.difference(&o.qterms).collect();
    let qe: Vec<String> = o.qterms.difference(&m.qterms).map(|t| t.render()).collect();
    if !qm.is_empty() || !qe.is_empty() {
        let kind = match (qm.is_empty(), qe.is_empty()) {
            (false, true) => "quoted_terms_missing",
            (true, false) => "quoted_terms_extra",
            _ => "quoted_terms_replaced",
        };
        let from = ops.map(|(a, b)| side(&qm, |t| a.qterms.contains(*t), |t| b.qterms.contains(*t)));
        f.add(&format!("{}_{}", who, kind), || json!({"missing": qm.iter().take(5).map(|t| t.render()).collect::<Vec<_>>(), "missing_from": from, "unexpected": qe.iter().take(5).collect::<Vec<_>>()}));
    }
    let tm: Vec<&String> = m.terms.difference(&o.terms).collect();
    let te: Vec<&String> = o.terms.difference(&m.terms).collect();
    if !tm.is_empty() {
        let from = ops.map(|(a, b)| side(&tm, |t| a.terms.contains(*t), |t| b.terms.contains(*t)));
        f.add(&format!("{}_dictionary_terms_missing", who), || json!({"missing": tm.iter().take(5).collect::<Vec<_>>(), "missing_from": from}));
    }
    if !te.is_empty() {
        f.add(&format!("{}_dictionary_terms_extra", who), || json!({"unexpected": te.iter().take(5).collect::<Vec<_>>()}));
    }
}

// ---------------------------------------------------------------------------------------
// union case evaluation

#[derive(Clone, Debug)]
struct Case {
    scripts: Vec<Vec<Op>>,
    /// (left, right): indices into scripts ++ earlier results
    steps: Vec<(usize, usize)>,
    spell_seed: u64,
    extend: bool,
}

#[derive(Default, Clone, Debug)]
struct UStats {
    unions: u64,
    nontrivial_steps: u64,
    clash_plain: u64,
    clash_quoted: u64,
    moved_terms: u64,
    clash_used_both: u64,
    quads_in: u64,
    quads_out: u64,
    shared_quads: u64,
    empty_graphs_in: u64,
    seeds_in: u64,
    seed_conflicts: u64,
    seed_conflict_right_wins: u64,
    seed_conflict_left_wins: u64,
    quoted_in: u64,
    max_depth: u64,
    unreferenced_terms: u64,
    extended: u64,
    result_as_input: u64,
    empty_operand: u64,
}

fn used_ids(raw: &Raw) -> BTreeSet<u32> {
    let mut s = BTreeSet::new();
    let mut stack: Vec<u32> = vec![];
    for q in &raw.quads {
        stack.extend([q.subject, q.predicate, q.object]);
        if let GraphId::Named(g) = q.graph {
            stack.push(g);
        }
    }
    for (t, _) in &raw.seeds {
        stack.extend([t.subject, t.predicate, t.object]);
    }
    while let Some(id) = stack.pop() {
        if s.insert(id) {
            if let Some(&(a, b, c)) = raw.store.id_to_components.get(&id) {
                stack.extend([a, b, c]);
            }
        }
    }
    s
}

fn raw_changes(before: &Raw, after: &Raw) -> Vec<&'static str> {
    let mut v = vec![];
    if before.dict != after.dict {
        v.push("dictionary");
    }
    if before.store != after.store {
        v.push("quoted_triple_store");
    }
    if before.quads != after.quads {
        v.push("quads");
    }
    if before.graphs != after.graphs {
        v.push("named_graph_catalog");
    }
    if before.seeds != after.seeds {
        v.push("probability_seeds");
    }
    v
}

fn evaluate(c: &Case, mut stats: Option<&mut UStats>) -> Finds {
    let c2 = c.clone();
        let res = guard(move || {
        let c = c2;
        let mut f = Finds::default();
        let mut st = UStats::default();
        let mut dbs: Vec<SparqlDatabase> = vec![];
        let mut models: Vec<Model> = vec![];
        for (i, s) in c.scripts.iter().enumerate() {
            let (db, m) = build(s, c.spell_seed.wrapping_add(i as u64));
            let raw = raw_of(&db);
            let o = observe(&raw, Some(&db), "load", &mut f);
            diff(&m, &o, "load", &mut f, None);
            dbs.push(db);
            models.push(m);
        }
        if !f.0.is_empty() {
            return (f, st); // the inputs are not what the script says: nothing to judge
        }
        for (n, &(i, j)) in c.steps.iter().enumerate() {
            if i == j || i >= dbs.len() || j >= dbs.len() {
                continue;
            }
            let (ri, rj) = (raw_of(&dbs[i]), raw_of(&dbs[j]));
            let mut left = std::mem::replace(&mut dbs[i], SparqlDatabase::new());
            let u = match guard(|| left.union(&dbs[j])) {
                Ok(u) => u,
                Err(e) => {
                    f.add("union_panics", || json!({"site": panic_site(&e), "panic": e, "step": n}));
                    return (f, st);
                }
            };
            dbs[i] = left;
            st.unions += 1;
            if i >= c.scripts.len() || j >= c.scripts.len() {
                st.result_as_input += 1;
            }
            if ri.quads.is_empty() && ri.graphs.is_empty() || rj.quads.is_empty() && rj.graphs.is_empty() {
                st.empty_operand += 1;
            }
            // statistics on the clash between the operands
            let clash_plain: BTreeSet<u32> = ri.dict.id_to_string.iter().filter(|(id, s)| rj.dict.id_to_string.get(*id).map_or(false, |t| t != *s)).map(|(id, _)| *id).collect();
            let clash_quoted: BTreeSet<u32> = ri.store.id_to_components.keys().filter(|id| rj.store.id_to_components.contains_key(*id) && tree_of(&ri.dict, &ri.store, **id, 64).ok() != tree_of(&rj.dict, &rj.store, **id, 64).ok()).copied().collect();
            let moved = ri.dict.string_to_id.iter().filter(|(s, id)| rj.dict.string_to_id.get(*s).map_or(false, |x| x != *id)).count();
            let (ui, uj) = (used_ids(&ri), used_ids(&rj));
            let both: usize = clash_plain.iter().chain(clash_quoted.iter()).filter(|id| ui.contains(*id) && uj.contains(*id)).count();
            st.clash_plain += clash_plain.len() as u64;
            st.clash_quoted += clash_quoted.len() as u64;
            st.moved_terms += moved as u64;
            st.clash_used_both += both as u64;
            if both >= 1 && moved >= 1 {
                st.nontrivial_steps += 1;
            }
            st.quads_in += (ri.quads.len() + rj.quads.len()) as u64;
            st.shared_quads += models[i].quads.intersection(&models[j].quads).count() as u64;
            st.seeds_in += (ri.seeds.len() + rj.seeds.len()) as u64;
            st.quoted_in += (ri.store.len() + rj.store.len()) as u64;
            for m in [&models[i], &models[j]] {
                st.empty_graphs_in += m.graphs.iter().filter(|g| !m.quads.iter().any(|q| q.3.as_ref() == Some(*g))).count() as u64;
                st.max_depth = st.max_depth.max(m.qterms.iter().map(|t| t.depth()).max().unwrap_or(0) as u64);
            }
            st.unreferenced_terms += (ri.dict.id_to_string.len() + ri.store.len() - ui.len().min(ri.dict.id_to_string.len() + ri.store.len())) as u64;

            // inputs must be exactly as before
            let (ri2, rj2) = (raw_of(&dbs[i]), raw_of(&dbs[j]));
            if ri2 != ri {
                f.add("union_modified_left_input", || json!({"step": n, "changed": raw_changes(&ri, &ri2)}));
            }
            if rj2 != rj {
                f.add("union_modified_right_input", || json!({"step": n, "changed": raw_changes(&rj, &rj2)}));
            }
            // the result denotes the union
            let ru = raw_of(&u);
            let o = observe(&ru, Some(&u), "union", &mut f);
            let mut expect = Model::merge(&models[i], &models[j]);
            let before = f.0.len();
            diff(&expect, &o, "union", &mut f, Some((&models[i], &models[j])));
            for fi in f.0.iter_mut().skip(before) {
                fi.detail["step"] = json!(n);
                fi.detail["operands"] = json!([i, j]);
            }
            st.quads_out += o.quads.len() as u64;
            for (k, acc) in expect.seeds.iter_mut() {
                if acc.len() > 1 {
                    st.seed_conflicts += 1;
                    if let Some(v) = o.seeds.get(k) {
                        if models[j].seeds.get(k).map_or(false, |s| s.contains(v)) {
                            st.seed_conflict_right_wins += 1;
                        } else {
                            st.seed_conflict_left_wins += 1;
                        }
                        if acc.contains(v) {
                            *acc = [*v].into_iter().collect();
                        }
                    }
                }
            }
            // extending the result: new terms get unused ids, nothing already there moves,
            // and the inputs do not notice
            if c.extend && n == 0 {
                st.extended += 1;
                let issued: BTreeSet<u32> = ru.dict.id_to_string.keys().chain(ru.store.id_to_components.keys()).copied().collect();
                let mut fresh: Vec<T> = (0..3).map(|k| T::P(format!("http://k/fresh{}", k))).collect();
                let some_old = expect.qterms.iter().next().cloned().unwrap_or_else(|| T::p("http://k/e0"));
                fresh.push(T::q(fresh[0].clone(), T::p("http://k/p0"), some_old.clone()));
                fresh.push(T::q(T::q(fresh[1].clone(), T::p("http://k/p0"), fresh[2].clone()), T::p("http://k/p0"), some_old));
                let mut r = Rng::new(c.spell_seed ^ 0x55);
                for t in &fresh {
                    let id = u.encode_term_star(&spell(t, Sp::Canon, &mut r));
                    let mut pl = BTreeSet::new();
                    let mut qs = BTreeSet::new();
                    t.collect(&mut pl, &mut qs);
                    let is_new = match t {
                        T::P(s) => !expect.terms.contains(s),
                        T::Q(_) => !expect.qterms.contains(t),
                    };
                    if is_new && issued.contains(&id) {
                        f.add("union_result_gives_used_id_to_new_term", || json!({"new_term": t.render(), "id": id, "id_already_denotes": tree_of(&ru.dict, &ru.store, id, 64).map(|t| t.render()).unwrap_or_default()}));
                    }
                    // structural decode first (fuel-limited): a corrupted store can make the id
                    // refer to itself, and decode_any would then recurse until the stack overflows
                    match db_tree(&u, id) {
                        Err(e) => f.add("union_result_id_of_new_term_does_not_decode_structurally", || json!({"term": t.render(), "id": id, "problem": e})),
                        Ok(tr) if tr != *t => f.add("union_result_decode_is_not_inverse_of_encode", || json!({"term": t.render(), "id": id, "decodes_structurally_to": tr.render()})),
                        Ok(_) => {
                            if u.decode_any(id).as_deref() != Some(t.render().as_str()) {
                                f.add("union_result_decode_is_not_inverse_of_encode", || json!({"term": t.render(), "id": id, "decodes_to": u.decode_any(id)}));
                            }
                        }
                    }
                    expect.terms.extend(pl);
                    expect.qterms.extend(qs);
                }
                let ru2 = raw_of(&u);
                let mut f2 = Finds::default();
                let o2 = observe(&ru2, Some(&u), "extended_union", &mut f2);
                if o2.quads != o.quads || o2.graphs != o.graphs || o2.seeds != o.seeds || !f2.0.is_empty() {
                    f.add("union_result_changes_when_new_terms_are_encoded", || json!({"internal": f2.0.iter().map(|x| x.kind.clone()).collect::<Vec<_>>(), "quads_equal": o2.quads == o.quads, "catalog_equal": o2.graphs == o.graphs, "seeds_equal": o2.seeds == o.seeds}));
                }
                if raw_of(&dbs[i]) != ri || raw_of(&dbs[j]) != rj {
                    f.add("union_result_shares_state_with_input", || json!({"left_changed": raw_changes(&ri, &raw_of(&dbs[i])), "right_changed": raw_changes(&rj, &raw_of(&dbs[j]))}));
                }
            }
            dbs.push(u);
            models.push(expect);
        }
        (f, st)
    });
    match res {
        Ok((f, s)) => {
            if let Some(x) = stats.as_deref_mut() {
                *x = s;
            }
            f
        }
        Err(e) => {
            let mut f = Finds::default();
            f.add("panic_while_building_or_observing", || json!({"site": panic_site(&e), "panic": e}));
            f
        }
    }
}

// ---------------------------------------------------------------------------------------
// attribution: restricted re-runs, shrinking

fn map_case(c: &Case, fq: &dyn Fn(&Op) -> Option<Op>) -> Case {
    let mut n = c.clone();
    n.scripts = c.scripts.iter().map(|s| s.iter().filter_map(|op| fq(op)).collect()).collect();
    n
}

fn map_terms(op: &Op, f: &dyn Fn(&T) -> T) -> Op {
    match op {
        Op::Pre(t) => Op::Pre(f(t)),
        Op::Quad { s, p, o, g, route } => Op::Quad { s: f(s), p: f(p), o: f(o), g: g.clone(), route: *route },
        Op::SeedStar { s, p, o, prob, present } => Op::SeedStar { s: f(s), p: f(p), o: f(o), prob: *prob, present: *present },
        Op::Delete { s, p, o, g } => Op::Delete { s: f(s), p: f(p), o: f(o), g: g.clone() },
        other => other.clone(),
    }
}

/// quoted terms replaced by plain surrogate IRIs (one per distinct quoted term)
fn flatten_quoted(c: &Case) -> Case {
    let flat = |t: &T| -> T { t.map_plain(&|x: &T| if x.is_q() { Some(T::P(format!("http://k/q{:x}", hash_str(&x.render())))) } else { None }) };
    map_case(c, &|op| Some(map_terms(op, &flat)))
}

/// everything in the default graph, no catalog-only graphs
fn default_only(c: &Case) -> Case {
    map_case(c, &|op| match op {
        Op::Quad { s, p, o, route, .. } => Some(Op::Quad { s: s.clone(), p: p.clone(), o: o.clone(), g: None, route: if *route == 1 { 0 } else { *route } }),
        Op::Delete { s, p, o, .. } => Some(Op::Delete { s: s.clone(), p: p.clone(), o: o.clone(), g: None }),
        Op::EmptyGraph(_) => None,
        other => Some(other.clone()),
    })
}

fn no_seeds(c: &Case) -> Case {
    map_case(c, &|op| match op {
        Op::Tagged { s, p, o, .. } => Some(Op::Quad { s: T::p(s), p: T::p(p), o: T::p(o), g: None, route: 2 }),
        Op::SeedStar { s, p, o, present, .. } => {
            if *present {
                Some(Op::Quad { s: s.clone(), p: p.clone(), o: o.clone(), g: None, route: 0 })
            } else {
                Some(Op::Pre(T::q(s.clone(), p.clone(), o.clone())))
            }
        }
        other => Some(other.clone()),
    })
}

/// every database first encodes every term of the whole case in one fixed order: the same
/// term has the same id everywhere and no id means two things
fn aligned_ids(c: &Case) -> Case {
    let mut m = Model::default();
    for s in &c.scripts {
        for op in s {
            m.apply(op);
        }
    }
    let mut pre: Vec<Op> = m.terms.iter().map(|s| Op::Pre(T::P(s.clone()))).collect();
    let mut qs: Vec<&T> = m.qterms.iter().collect();
    qs.sort_by_key(|t| (t.depth(), (*t).clone()));
    pre.extend(qs.into_iter().map(|t| Op::Pre(t.clone())));
    let mut n = c.clone();
    for s in n.scripts.iter_mut() {
        let mut v = pre.clone();
        v.extend(s.drain(..));
        *s = v;
    }
    n
}

fn still(c: &Case, kind: &str) -> bool {
    evaluate(c, None).has(kind)
}

fn shrink(c: &Case, kind: &str, budget: &mut usize) -> Case {
    let mut cur = c.clone();
    // fewer steps first
    while cur.steps.len() > 1 && *budget > 0 {
        let mut t = cur.clone();
        t.steps.pop();
        *budget -= 1;
        if still(&t, kind) {
            cur = t;
        } else {
            break;
        }
    }
    if cur.extend && *budget > 0 {
        let mut t = cur.clone();
        t.extend = false;
        *budget -= 1;
        if still(&t, kind) {
            cur = t;
        }
    }
    let mut changed = true;
    while changed && *budget > 0 {
        changed = false;
        for si in 0..cur.scripts.len() {
            let mut k = cur.scripts[si].len();
            while k > 0 && *budget > 0 {
                k -= 1;
                let mut t = cur.clone();
                t.scripts[si].remove(k);
                *budget -= 1;
                if still(&t, kind) {
                    cur = t;
                    changed = true;
                }
            }
        }
    }
    cur
}

fn case_json(c: &Case) -> Value {
    let op = |o: &Op| -> String {
        match o {
            Op::Pre(t) => format!("encode {}", t.render()),
            Op::Quad { s, p, o, g, route } => format!("add[{}] {} {} {} @{}", ["star+add_quad", "add_quad_parts", "add_triple_parts", "nquads"][(*route as usize).min(3)], s.render(), p.render(), o.render(), g.clone().unwrap_or_else(|| "DEFAULT".into())),
            Op::Tagged { s, p, o, prob } => format!("add_tagged_triple {} {} {} p={}", s, p, o, prob),
            Op::SeedStar { s, p, o, prob, present } => format!("seed {} {} {} p={}{}", s.render(), p.render(), o.render(), prob, if *present { " (+triple)" } else { " (seed only)" }),
            Op::EmptyGraph(g) => format!("create_graph {}", g),
            Op::Delete { s, p, o, g } => format!("delete {} {} {} @{}", s.render(), p.render(), o.render(), g.clone().unwrap_or_else(|| "DEFAULT".into())),
        }
    };
    json!({
        "databases": c.scripts.iter().map(|s| s.iter().map(op).collect::<Vec<_>>()).collect::<Vec<_>>(),
        "union_steps_left_right": c.steps.iter().map(|(i, j)| format!("db{}.union(&db{})", i, j)).collect::<Vec<_>>(),
        "extend_result": c.extend,
    })
}

// ---------------------------------------------------------------------------------------
// union case generator

fn gen_script(r: &mut Rng, pool: &Pool, side: usize, n_ops: usize) -> Vec<Op> {
    let q_rate = *r.pick(&[0usize, 15, 40, 70]);
    let mut ops: Vec<Op> = vec![];
    // side-only vocabulary and an id shifter so that the same id means different things
    let own: Vec<T> = (0..r.range(0, 3)).map(|i| T::P(format!("http://k/own{}_{}", side, i))).collect();
    for _ in 0..r.range(0, 4) {
        ops.push(Op::Pre(if !own.is_empty() && r.coin() { r.pick(&own).clone() } else { pool.any(r, q_rate) }));
    }
    let dy = |r: &mut Rng| (r.range(0, 16) as f64) / 16.0;
    let prob = |r: &mut Rng| if r.chance(3, 4) { dy(r) } else { r.f64() };
    let mut added: Vec<(T, T, T, Option<String>)> = vec![];
    for _ in 0..n_ops {
        let subj = |r: &mut Rng| if !own.is_empty() && r.chance(1, 6) { r.pick(&own).clone() } else { pool.subject(r, q_rate) };
        match r.weighted(&[58, 8, 9, 8, 8, 6, 3]) {
            0 => {
                let (s, p, o) = if !added.is_empty() && r.chance(1, 6) {
                    let a = r.pick(&added);
                    (a.0.clone(), a.1.clone(), a.2.clone()) // same triple, maybe another graph
                } else {
                    (subj(r), if r.chance(1, 25) && !pool.quoted.is_empty() { r.pick(&pool.quoted).clone() } else { r.pick(&pool.preds).clone() }, pool.object(r, q_rate))
                };
                let g = if r.chance(1, 2) { None } else { Some(r.pick(&pool.graphs).clone()) };
                let route = r.below(4) as u8;
                added.push((s.clone(), p.clone(), o.clone(), g.clone()));
                ops.push(Op::Quad { s, p, o, g, route });
            }
            1 => ops.push(Op::Pre(pool.any(r, q_rate.max(30)))),
            2 => {
                let (s, p, o) = (r.pick(&pool.ents).render(), r.pick(&pool.preds).render(), if r.coin() { r.pick(&pool.ents).render() } else { r.pick(&pool.lits).render() });
                ops.push(Op::Tagged { s, p, o, prob: prob(r) });
            }
            3 => {
                let (s, p, o) = (subj(r), r.pick(&pool.preds).clone(), pool.object(r, q_rate.max(30)));
                ops.push(Op::SeedStar { s, p, o, prob: prob(r), present: !r.chance(1, 4) });
            }
            4 => ops.push(Op::EmptyGraph(if r.chance(1, 4) { format!("http://k/gown{}", side) } else { r.pick(&pool.graphs).clone() })),
            5 => {
                if !added.is_empty() {
                    let a = r.pick(&added).clone();
                    ops.push(Op::Delete { s: a.0, p: a.1, o: a.2, g: a.3 });
                }
            }
            _ => {
                // seed on a triple that an earlier op added (possibly in a named graph only)
                if !added.is_empty() {
                    let a = r.pick(&added).clone();
                    ops.push(Op::SeedStar { s: a.0, p: a.1, o: a.2, prob: prob(r), present: false });
                }
            }
        }
    }
    ops
}

fn script_of_model(m: &Model, r: &mut Rng) -> Vec<Op> {
    let mut ops: Vec<Op> = vec![];
    for (s, p, o, g) in &m.quads {
        ops.push(Op::Quad { s: s.clone(), p: p.clone(), o: o.clone(), g: g.as_ref().map(|g| g.render()), route: 0 });
    }
    for g in &m.graphs {
        ops.push(Op::EmptyGraph(g.render()));
    }
    for (k, v) in &m.seeds {
        ops.push(Op::SeedStar { s: k.0.clone(), p: k.1.clone(), o: k.2.clone(), prob: f64::from_bits(*v.iter().next().unwrap()), present: false });
    }
    r.shuffle(&mut ops);
    ops
}

fn gen_union_case(r: &mut Rng, thorough: bool) -> (Case, &'static str) {
    let tricky = r.chance(1, 2);
    let pool = gen_pool(r, 3, tricky);
    let big = thorough && r.chance(1, 25);
    let n = |r: &mut Rng| if big { r.range(60, 400) } else { r.range(1, 28) };
    let (na, nb) = (n(r), n(r));
    let a = gen_script(r, &pool, 0, na);
    let b = gen_script(r, &pool, 1, nb);
    let spell_seed = r.next_u64();
    let extend = r.chance(1, 2);
    let (scripts, steps, shape): (Vec<Vec<Op>>, Vec<(usize, usize)>, &'static str) = match r.weighted(&[40, 15, 20, 10, 8, 7]) {
        0 => (vec![a, b], vec![(0, 1)], "a_b"),
        1 => (vec![a, b], vec![(0, 1), (1, 0)], "a_b_and_b_a"),
        2 => {
            let nc = n(r);
            let c = gen_script(r, &pool, 2, nc);
            // chains through results: (A∪B)∪C, C∪(A∪B), A∪(B∪C) …
            let second = match r.below(4) {
                0 => vec![(0, 1), (3, 2)],
                1 => vec![(0, 1), (2, 3)],
                2 => vec![(1, 2), (0, 3)],
                _ => vec![(0, 1), (1, 2), (3, 4)],
            };
            (vec![a, b, c], second, "chain_of_three")
        }
        3 => {
            // the same dataset rebuilt under other ids: A ∪ A' must denote A
            let mut m = Model::default();
            for op in &a {
                m.apply(op);
            }
            let mut a2 = vec![];
            for _ in 0..r.range(0, 3) {
                a2.push(Op::Pre(T::P(format!("http://k/shift{}", r.below(5)))));
            }
            a2.extend(script_of_model(&m, r));
            (vec![a, a2], vec![(0, 1), (2, 1)], "same_dataset_other_ids")
        }
        4 => {
            if r.coin() {
                (vec![a, vec![]], vec![(0, 1), (1, 0)], "empty_operand")
            } else {
                (vec![a, vec![Op::EmptyGraph(r.pick(&pool.graphs).clone())]], vec![(0, 1), (1, 0)], "empty_operand")
            }
        }
        _ => (vec![a, b], vec![(0, 1), (2, 1), (2, 0), (0, 2)], "result_with_its_own_inputs"),
    };
    (Case { scripts, steps, spell_seed, extend }, shape)
}

// ---------------------------------------------------------------------------------------
// phase boundary: counters next to the limits of the two id ranges

fn run_boundary_case(r: &mut Rng, ctx: &mut Ctx) {
    // plain range: ids up to 0x7FFF_FFFF are plain, the next one must be refused
    let back = r.range(0, 3) as u32;
    let n_new = r.range(1, 6);
    let res = guard(move || {
        let mut d = Dictionary::new();
        d.encode("first");
        d.next_id = QUOTED_TRIPLE_ID_BIT - back;
        let mut issued: Vec<(String, u32)> = vec![];
        for i in 0..n_new {
            let t = format!("late{}", i);
            match guard(|| {
                let mut d2 = d.clone();
                let id = d2.encode(&t);
                (d2, id)
            }) {
                Ok((d2, id)) => {
                    d = d2;
                    issued.push((t, id));
                }
                Err(_) => return (issued, true, d),
            }
        }
        (issued, false, d)
    });
    ctx.add_evals(1);
    match res {
        Ok((issued, refused, d)) => {
            if refused {
                ctx.count("boundary.plain_range_exhaustion_refused", 1);
            }
            let mut seen = BTreeSet::new();
            for (t, id) in &issued {
                ctx.count("boundary.plain_ids_issued_next_to_limit", 1);
                if is_quoted_triple_id(*id) {
                    ctx.violation(json!({"kind": "plain_term_id_in_quoted_range", "api": "Dictionary::encode", "where": "range_limit"}), json!({"term": t, "id": id}));
                }
                if !seen.insert(*id) || (*id == 0) {
                    ctx.violation(json!({"kind": "two_terms_share_one_id", "api": "Dictionary::encode", "where": "range_limit"}), json!({"term": t, "id": id}));
                }
                if d.decode(*id) != Some(t.as_str()) {
                    ctx.violation(json!({"kind": "decode_is_not_inverse_of_encode", "api": "Dictionary", "where": "range_limit"}), json!({"term": t, "id": id}));
                }
            }
            if d.decode(0) != Some("first") {
                ctx.violation(json!({"kind": "id_changed_meaning_after_later_encodes", "api": "Dictionary::decode", "where": "range_limit"}), json!({"id": 0, "decodes_to": d.decode(0)}));
            }
        }
        Err(e) => ctx.inconclusive(&format!("boundary case panicked in the monitor: {}", e)),
    }
    // quoted range: ids up to 0xFFFF_FFFF, the counter must not wrap into the plain range
    let back = r.range(0, 3) as u32;
    let n_new = r.range(1, 6) as u32;
    let res = guard(move || {
        let mut q = QuotedTripleStore::new();
        let first = q.encode(1, 2, 3);
        q.next_qt_id = u32::MAX - back;
        let mut issued: Vec<((u32, u32, u32), u32)> = vec![];
        let mut refused = false;
        for i in 0..n_new {
            let c = (10 + i, 2, 3);
            match guard(|| {
                let mut q2 = q.clone();
                let id = q2.encode(c.0, c.1, c.2);
                (q2, id)
            }) {
                Ok((q2, id)) => {
                    q = q2;
                    issued.push((c, id));
                }
                Err(_) => {
                    refused = true;
                    break;
                }
            }
        }
        (issued, refused, q, first)
    });
    ctx.add_evals(1);
    if let Ok((issued, refused, q, first)) = res {
        if refused {
            ctx.count("boundary.quoted_range_exhaustion_refused", 1);
        }
        let mut seen = BTreeSet::new();
        seen.insert(first);
        for (c, id) in &issued {
            ctx.count("boundary.quoted_ids_issued_next_to_limit", 1);
            if !is_quoted_triple_id(*id) {
                ctx.violation(json!({"kind": "quoted_triple_id_without_high_bit", "api": "QuotedTripleStore::encode", "where": "range_limit"}), json!({"components": format!("{:?}", c), "id": id}));
            }
            if !seen.insert(*id) {
                ctx.violation(json!({"kind": "two_quoted_triples_share_one_id", "api": "QuotedTripleStore::encode", "where": "range_limit"}), json!({"components": format!("{:?}", c), "id": id}));
            }
            if q.decode(*id) != Some(*c) {
                ctx.violation(json!({"kind": "decode_is_not_inverse_of_encode", "api": "QuotedTripleStore", "where": "range_limit"}), json!({"components": format!("{:?}", c), "id": id}));
            }
        }
        if q.decode(first) != Some((1, 2, 3)) {
            ctx.violation(json!({"kind": "quoted_id_changed_meaning_after_later_encodes", "api": "QuotedTripleStore::decode", "where": "range_limit"}), json!({"id": first}));
        }
    }
}

// ---------------------------------------------------------------------------------------

fn emit_simple(ctx: &mut Ctx, f: Finds, extra: &[(&str, Value)]) {
    for fi in f.0 {
        let mut sig = json!({"kind": fi.kind});
        if let Some(api) = fi.detail.get("api") {
            sig["api"] = api.clone();
        }
        if let Some(sp) = fi.detail.get("spelling") {
            sig["spelling"] = sp.clone();
        }
        let mut d = fi.detail.clone();
        for (k, v) in extra {
            d[*k] = v.clone();
        }
        ctx.violation(sig, d);
    }
}

/// order in which simultaneous findings are reported (the first one names the violation)
const PRIORITY: [&str; 12] = ["panic", "load_", "modified", "shares_state", "not_a_bijection", "undecodable", "two_id", "quads", "catalog", "seed", "quoted_terms", "dictionary_terms"];

fn primary(f: &Finds) -> &Finding {
    for p in PRIORITY {
        if let Some(x) = f.0.iter().find(|x| x.kind.contains(p)) {
            return x;
        }
    }
    &f.0[0]
}

fn run(ctx: &mut Ctx) {
    let thorough = ctx.thorough();

    // ---- dict
    ctx.phase("dict", ctx.by_tier(9_000, 400_000));
    while let Some(k) = ctx.next_case() {
        if !ctx.within(0.25) {
            break;
        }
        let mut r = ctx.rng(k);
        match run_dict_case(&mut r, thorough) {
            Ok((f, st, h)) => {
                ctx.add_evals(st.calls);
                ctx.count("dict.encode.new_term", st.new_plain);
                ctx.count("dict.encode.repeated_term", st.rep_plain);
                ctx.count("dict.quoted_encode.new_triple", st.new_q);
                ctx.count("dict.quoted_encode.repeated_triple", st.rep_q);
                ctx.count("dict.decode_known_id", st.decodes);
                ctx.count("dict.decode_never_issued_id", st.unknown_decodes);
                ctx.count("dict.decode_term_calls", st.decode_terms);
                ctx.count("dict.ids_reverified_after_later_encodes", st.rechecked);
                ctx.max("dict.max_quoted_nesting", st.max_depth as u64);
                ctx.max("dict.max_terms_in_one_dictionary", st.new_plain);
                if st.new_plain >= 5 && st.rep_plain >= 5 && st.max_depth >= 2 {
                    ctx.nontrivial(h);
                }
                if ctx.wants_sample() && st.max_depth >= 2 {
                    ctx.sample(json!({"calls": st.calls, "new_terms": st.new_plain, "repeated_terms": st.rep_plain, "new_quoted": st.new_q, "repeated_quoted": st.rep_q, "max_nesting": st.max_depth, "ids_reverified": st.rechecked}));
                }
                emit_simple(ctx, f, &[]);
            }
            Err(e) => ctx.violation(json!({"kind": "panic", "phase": "dict", "site": panic_site(&e)}), json!({"panic": e})),
        }
    }

    // ---- star
    ctx.phase("star", ctx.by_tier(11_000, 400_000));
    while let Some(k) = ctx.next_case() {
        if !ctx.within(0.5) {
            break;
        }
        let mut r = ctx.rng(k);
        match run_star_case(&mut r, thorough) {
            Ok((f, st, h, culprit)) => {
                ctx.add_evals(st.encodes + st.loader_calls);
                ctx.count("star.encode_term_star.new_term", st.new_terms);
                ctx.count("star.encode_term_star.repeated_term", st.repeats);
                ctx.count("star.decode_any_known_id", st.decodes);
                ctx.count("star.loader_calls", st.loader_calls);
                ctx.count("star.ids_reverified_after_later_encodes", st.rechecked);
                for (s, n) in &st.by_spelling {
                    ctx.count(&format!("star.spelling.{}", s), *n);
                }
                for (d, n) in st.by_depth.iter().enumerate() {
                    ctx.count(&format!("star.encoded_terms_of_nesting_depth.{}", d), *n);
                }
                ctx.max("star.max_nesting", st.max_depth as u64);
                if st.new_terms >= 5 && st.repeats >= 5 && st.max_depth >= 2 {
                    ctx.nontrivial(h);
                }
                if ctx.wants_sample() && st.max_depth >= 2 {
                    ctx.sample(json!({"encodes": st.encodes, "new_terms": st.new_terms, "repeats": st.repeats, "max_nesting": st.max_depth, "spellings": st.by_spelling}));
                }
                match (&culprit, f.0.first()) {
                    (Some((t, sp)), Some(first)) => {
                        let (dsig, ddet) = diagnose_star(t, *sp);
                        let reproduced = dsig["cause"] != "not_reproduced_by_one_call_on_a_fresh_database";
                        let mut sig = json!({"kind": if reproduced { "spelling_encodes_to_another_term" } else { first.kind.as_str() }, "api": "encode_term_star", "spelling": sp.name()});
                        for (k, v) in dsig.as_object().unwrap() {
                            sig[k] = v.clone();
                        }
                        ctx.count(&format!("star.defect_observations.{}", sp.name()), 1);
                        ctx.violation(sig, json!({"diagnosis": ddet, "first_observation": {"kind": first.kind, "detail": first.detail}}));
                    }
                    _ => emit_simple(ctx, f, &[]),
                }
            }
            Err(e) => ctx.violation(json!({"kind": "panic", "phase": "star", "site": panic_site(&e)}), json!({"panic": e})),
        }
    }

    // ---- boundary
    ctx.phase("boundary", ctx.by_tier(64, 640));
    while let Some(k) = ctx.next_case() {
        let mut r = ctx.rng(k);
        run_boundary_case(&mut r, ctx);
    }

    // ---- union
    ctx.phase("union", ctx.by_tier(18_000, 600_000));
    let mut shrunk_per_kind: BTreeMap<String, u32> = BTreeMap::new();
    while let Some(k) = ctx.next_case() {
        let mut r = ctx.rng(k);
        let (case, shape) = gen_union_case(&mut r, thorough);
        let mut st = UStats::default();
        let f = evaluate(&case, Some(&mut st));
        ctx.add_evals(st.unions);
        ctx.count(&format!("union.shape.{}", shape), 1);
        ctx.count("union.steps", st.unions);
        ctx.count("union.steps_with_clashing_ids_used_on_both_sides", st.nontrivial_steps);
        ctx.count("union.clashing_plain_ids", st.clash_plain);
        ctx.count("union.clashing_quoted_ids", st.clash_quoted);
        ctx.count("union.clashing_ids_referenced_by_both_operands", st.clash_used_both);
        ctx.count("union.terms_with_different_ids_in_the_operands", st.moved_terms);
        ctx.count("union.operand_quads", st.quads_in);
        ctx.count("union.result_quads", st.quads_out);
        ctx.count("union.quads_present_in_both_operands", st.shared_quads);
        ctx.count("union.empty_named_graphs_in_operands", st.empty_graphs_in);
        ctx.count("union.operand_seeds", st.seeds_in);
        ctx.count("union.seed_conflicts", st.seed_conflicts);
        ctx.count("union.seed_conflicts.right_value_kept", st.seed_conflict_right_wins);
        ctx.count("union.seed_conflicts.left_value_kept", st.seed_conflict_left_wins);
        ctx.count("union.operand_quoted_terms", st.quoted_in);
        ctx.count("union.unreferenced_terms_in_operands", st.unreferenced_terms);
        ctx.count("union.results_extended_with_new_terms", st.extended);
        ctx.count("union.steps_with_a_result_as_operand", st.result_as_input);
        ctx.count("union.steps_with_an_empty_operand", st.empty_operand);
        ctx.max("union.max_quoted_nesting", st.max_depth);
        if st.nontrivial_steps > 0 {
            ctx.nontrivial(hash_str(&case_json(&case).to_string()));
        }
        if ctx.wants_sample() && st.nontrivial_steps > 0 && st.max_depth >= 2 {
            ctx.sample(json!({"shape": shape, "case": case_json(&case), "stats": format!("{:?}", st)}));
        }
        if f.0.is_empty() {
            continue;
        }
        let first = primary(&f).clone();
        let kind = first.kind.clone();
        let all: Vec<String> = f.0.iter().map(|x| x.kind.clone()).collect();
        if kind.starts_with("load_") || kind.starts_with("panic_while") {
            // the operands are not what the build script says: a writer (not union) is off
            ctx.violation(json!({"kind": kind, "stage": "building_operands"}), json!({"finding": first.detail, "all_findings": all, "case": case_json(&case)}));
            continue;
        }
        // attribution costs a few hundred evaluations: done for the first cases of each kind
        // in a shard, later ones are only counted
        let seen = shrunk_per_kind.entry(kind.clone()).or_insert(0u32);
        *seen += 1;
        if *seen > 3 || !ctx.time_left() {
            ctx.count(&format!("union.further_violating_cases.{}", kind), 1);
            continue;
        }
        let mut budget = 250usize;
        let small = shrink(&case, &kind, &mut budget);
        let fs = evaluate(&small, None);
        let d = fs.0.iter().find(|x| x.kind == kind).map(|x| x.detail.clone()).unwrap_or(first.detail.clone());
        // a restriction is "needed" only when neither the minimal nor the original case
        // fails under it (a restriction also renumbers ids, which alone can hide a failure)
        let mut needs: Vec<&str> = vec![];
        if !still(&aligned_ids(&small), &kind) && !still(&aligned_ids(&case), &kind) {
            needs.push("clashing_ids");
        }
        if !still(&flatten_quoted(&small), &kind) && !still(&flatten_quoted(&case), &kind) {
            needs.push("quoted_terms");
        }
        if !still(&default_only(&small), &kind) && !still(&default_only(&case), &kind) {
            needs.push("named_graphs");
        }
        if !still(&no_seeds(&small), &kind) && !still(&no_seeds(&case), &kind) {
            needs.push("probability_seeds");
        }
        let mut sig = json!({"kind": kind, "needs": needs});
        if let Some(m) = d.get("missing_from") {
            if !m.is_null() {
                sig["missing_from"] = m.clone();
            }
        }
        if let Some(m) = d.get("changed") {
            sig["changed"] = m.clone();
        }
        ctx.violation(sig, json!({"finding": d, "all_findings_on_the_original_case": all, "minimal_case": case_json(&small), "original_case": case_json(&case), "shape": shape}));
    }
}

fn main() {
    let mut spec = Spec::new("C15", "exploration", RULE);
    spec.assumptions = &[
        "M-TERM: the store is untyped; a term is its lexical value (`<http://a>`, bare `http://a` and `\"http://a\"` are one term, language tags / datatypes are outside the fragment); quoted terms are trees over such values",
        "spellings given to encode_term_star: canonical N-Triples-star (`<< <s> <p> \"o\" >>`), the same with extra blanks/tabs, bare IRIs and simple words, compact `<<s p o>>`, \\uXXXX escapes; subjects of quoted triples are IRIs, blank-node labels or quoted triples, predicates IRIs (1 in 25 quoted), literals only as objects",
        "blank-node labels are plain terms: the union is the set union of the lexical datasets, not an RDF merge",
        "seeds of one triple present in both operands with different values: either value is accepted (counted, with which side was kept)",
        "components in the quoted range given to QuotedTripleStore::encode are ids the store handed out before (a never-issued quoted id as component can denote a cycle)",
        "a panic that refuses to hand out an id beyond the end of a range is accepted (counted under boundary.*); the harness builds with overflow checks",
        "the operands of a union are built through add_quad / add_quad_parts / add_triple_parts / add_tagged_triple / parse_nquads_and_add (IRIs and simple words only) / create_graph / delete_quad; an operand that does not match its build script is reported as building_operands, not as a union failure",
    ];
    spec.quick_budget_s = 40;
    spec.thorough_budget_s = 600;
    kvcore::run(spec, run);
}
