//! C09 — A time window reports exactly the stream items of one aligned interval.
//!
//! Events: every `ContentContainer` handed to a consumer of `CSPARQLWindow` (callback,
//! channel polled after each call, channel drained by a consumer thread) or of
//! `WindowRunner` (`push`/`add_to_window` + `drain`), attributed to the `add_to_window` /
//! `add_probabilistic_to_window` call that triggered it.
//! Oracle (M-WINDOW): the stream is a list of (item, ts); the content of the interval
//! closing at c is { item -> latest ts | c-w <= ts < c } computed in i128 by scanning the
//! list. Each report must equal the content of some c = k*slide <= trigger time; a
//! non-decreasing choice of c over the firing sequence must exist (greedy smallest
//! candidate); trigger times strictly increase; while all consecutive timestamps are at
//! most one slide apart, after every call each closed non-empty interval has been
//! reported exactly once (checked per prefix, so every prefix of a stream is a checked
//! stream), and empty reports never outnumber the empty closed intervals.

use kolibrie::rsp::s2r::{CSPARQLWindow, ContentContainer, ProbabilisticOccurrence, Report, ReportStrategy, Tick, WindowTriple};
use kolibrie::rsp::window_runner::{WindowRunner, WindowSpec};
use kvcore::rng::mix;
use kvcore::{guard, json, panic_site, Ctx, Rng, Spec, Value};
use shared::hybrid::SeedRegistry;
use shared::triple::Triple;
use std::collections::BTreeMap;
use std::fmt::Debug;
use std::hash::Hash;
use std::sync::{Arc, Mutex};

const RULE: &str = "one case = one (width, slide, first-gaps prefix) block whose remaining gaps are enumerated exhaustively (phases exh_full: every gap 0..=width+2; exh_reduced: longer streams over the gap set {0,1,slide,slide+1,width,width+2}), or one seeded long stream (phase long: 200-3000 items, width/slide up to 50, gap profiles with duplicates / exact-slide steps / gaps beyond the width, first timestamp up to 2^52, unique or repeated item values, deterministic and probabilistic arrivals), or one stream placed beyond 2^53, up to and across 2^63 (phase big_ts). Every stream is driven through each report-strategy list ([OnWindowClose], [OnWindowClose,NonEmptyContent], [NonEmptyContent,OnWindowClose]) and through the consumers (callback, polled channel, WindowRunner push+drain with both consumers, consumer thread). Non-trivial = a (width, slide, stream, strategies) run in which at least one non-empty window content was reported and compared with the oracle; distinct by hash of (width, slide, timestamps, item values, strategies).";

// ---------------------------------------------------------------------------------------
// model side

#[derive(Clone, Debug)]
struct MEv {
    id: u64,
    ts: usize,
    prob: bool,
}

type Content = Vec<(u64, usize)>; // sorted by id; item -> latest timestamp

/// M-WINDOW: content of [c-width, c) over the events evs[..upto] (evs sorted by ts).
fn interval_content(evs: &[MEv], upto: usize, width: i128, c: i128) -> Content {
    let lo = c - width;
    let mut m: BTreeMap<u64, usize> = BTreeMap::new();
    for e in &evs[..upto] {
        let t = e.ts as i128;
        if t >= c {
            break;
        }
        if t >= lo {
            let x = m.entry(e.id).or_insert(e.ts);
            if e.ts > *x {
                *x = e.ts;
            }
        }
    }
    m.into_iter().collect()
}

/// same, for long streams: binary search for the first event >= lo
fn interval_content_fast(evs: &[MEv], upto: usize, width: i128, c: i128) -> Content {
    let lo = c - width;
    let start = evs[..upto].partition_point(|e| (e.ts as i128) < lo);
    let mut m: BTreeMap<u64, usize> = BTreeMap::new();
    for e in &evs[start..upto] {
        if (e.ts as i128) >= c {
            break;
        }
        let x = m.entry(e.id).or_insert(e.ts);
        if e.ts > *x {
            *x = e.ts;
        }
    }
    m.into_iter().collect()
}

// ---------------------------------------------------------------------------------------
// observation side

#[derive(Clone, Debug, PartialEq, Eq)]
struct Snap {
    items: Content,
    det: Vec<u64>,
    prob_seeds: Vec<u32>,
    len: usize,
    keys: usize,
    last_changed: usize,
}

fn snap<I: Eq + Clone + Debug + Hash + Send>(c: &ContentContainer<I>, id_of: fn(&I) -> u64) -> Snap {
    let mut items: Content = c.iter_with_timestamps().map(|(i, t)| (id_of(i), t)).collect();
    items.sort();
    let mut det: Vec<u64> = c.iter().filter(|i| c.is_deterministic(i)).map(id_of).collect();
    det.sort();
    let mut prob_seeds: Vec<u32> = c.probabilistic_occurrences().iter().map(|o| o.seed_id.get()).collect();
    prob_seeds.sort();
    Snap { items, det, prob_seeds, len: c.len(), keys: c.iter().count(), last_changed: c.get_last_timestamp_changed() }
}

#[derive(Clone, Copy, Debug, PartialEq, Eq)]
enum Mode {
    /// CSPARQLWindow + register_callback
    Callback,
    /// CSPARQLWindow + register(), receiver polled after every call
    Channel,
    /// WindowRunner: start_receiver + register_callback, push/add_to_window alternating, drain after every call
    Runner,
    /// CSPARQLWindow + register() drained by a consumer thread until stop(), plus callback
    Thread,
}
impl Mode {
    fn name(self) -> &'static str {
        match self {
            Mode::Callback => "callback",
            Mode::Channel => "channel_polled",
            Mode::Runner => "window_runner_push_drain",
            Mode::Thread => "channel_consumer_thread",
        }
    }
}

struct Run {
    /// (index of the triggering call, content)
    firings: Vec<(usize, Snap)>,
    /// second consumer disagreeing with the first one
    consumer_mismatch: Option<String>,
    /// seed id given to every probabilistic event (by event index)
    seeds: BTreeMap<usize, u32>,
}

fn strategies(idx: usize) -> Vec<ReportStrategy> {
    match idx {
        0 => vec![ReportStrategy::OnWindowClose],
        1 => vec![ReportStrategy::OnWindowClose, ReportStrategy::NonEmptyContent],
        _ => vec![ReportStrategy::NonEmptyContent, ReportStrategy::OnWindowClose],
    }
}
fn strategies_name(idx: usize) -> &'static str {
    match idx {
        0 => "OnWindowClose",
        1 => "OnWindowClose+NonEmptyContent",
        _ => "NonEmptyContent+OnWindowClose",
    }
}

type Sink<I> = Arc<Mutex<Vec<ContentContainer<I>>>>;

fn take_all<I: Eq + Clone + Debug + Hash + Send>(sink: &Sink<I>) -> Vec<ContentContainer<I>> {
    std::mem::take(&mut *sink.lock().unwrap())
}

/// Drive the real window over the events; every container is attributed to its call.
fn drive<I>(w: usize, s: usize, strat: usize, mode: Mode, evs: &[MEv], mk: fn(u64) -> I, id_of: fn(&I) -> u64) -> Result<Run, String>
where
    I: Eq + PartialEq + Clone + Debug + Hash + Send + 'static,
{
    guard(|| {
        let mut reg = SeedRegistry::new();
        let mut seeds = BTreeMap::new();
        let mut firings: Vec<(usize, Snap)> = vec![];
        let mut mismatch: Option<String> = None;
        let sink: Sink<I> = Arc::new(Mutex::new(Vec::new()));
        let sink2 = sink.clone();
        let cb = Box::new(move |c: ContentContainer<I>| sink2.lock().unwrap().push(c));
        let occ = |i: usize, e: &MEv, reg: &mut SeedRegistry, seeds: &mut BTreeMap<usize, u32>| -> ProbabilisticOccurrence<I> {
            let key = reg.next_event_key("http://k/stream", e.ts);
            let sid = reg.register_occurrence(key.clone(), Triple { subject: 1, predicate: 2, object: i as u32 }, 0.5).expect("seed");
            seeds.insert(i, sid.get());
            ProbabilisticOccurrence { item: mk(e.id), event: key, seed_id: sid }
        };
        match mode {
            Mode::Callback | Mode::Channel | Mode::Thread => {
                let mut report = Report::new();
                for st in strategies(strat) {
                    report.add(st);
                }
                let mut win: CSPARQLWindow<I> = CSPARQLWindow::new(w, s, report, Tick::TimeDriven, "http://k/w".to_string());
                let rx = if mode != Mode::Callback { Some(win.register()) } else { None };
                if mode != Mode::Channel {
                    win.register_callback(cb);
                }
                let mut rx_keep = None;
                let handle = if mode == Mode::Thread {
                    let rx = rx.unwrap();
                    Some(std::thread::spawn(move || {
                        let mut got = vec![];
                        while let Ok(c) = rx.recv() {
                            got.push(snap(&c, id_of));
                        }
                        got
                    }))
                } else {
                    rx_keep = rx;
                    None
                };
                for (i, e) in evs.iter().enumerate() {
                    if e.prob {
                        let o = occ(i, e, &mut reg, &mut seeds);
                        win.add_probabilistic_to_window(o);
                    } else {
                        win.add_to_window(mk(e.id), e.ts);
                    }
                    if mode == Mode::Channel {
                        while let Ok(c) = rx_keep.as_ref().unwrap().try_recv() {
                            firings.push((i, snap(&c, id_of)));
                        }
                    } else {
                        for c in take_all(&sink) {
                            firings.push((i, snap(&c, id_of)));
                        }
                    }
                }
                win.stop();
                if let Some(h) = handle {
                    let got = h.join().expect("consumer thread");
                    let a: Vec<&Snap> = firings.iter().map(|f| &f.1).collect();
                    let b: Vec<&Snap> = got.iter().collect();
                    if a != b {
                        mismatch = Some(format!("callback saw {} containers, consumer thread {}; first difference at {:?}", a.len(), b.len(), a.iter().zip(b.iter()).position(|(x, y)| x != y)));
                    }
                }
            }
            Mode::Runner => {
                let spec = WindowSpec { width: w, slide: s, report_strategies: strategies(strat), tick: Tick::TimeDriven };
                let mut run: WindowRunner<I> = WindowRunner::new(spec, "http://k/w".to_string());
                run.start_receiver();
                run.register_callback(cb);
                for (i, e) in evs.iter().enumerate() {
                    if e.prob {
                        let o = occ(i, e, &mut reg, &mut seeds);
                        run.add_probabilistic_to_window(o);
                    } else if i % 2 == 0 {
                        run.push(mk(e.id), e.ts);
                    } else {
                        run.add_to_window(mk(e.id), e.ts);
                    }
                    let via_channel: Vec<Snap> = run.drain().iter().map(|c| snap(c, id_of)).collect();
                    let via_callback: Vec<Snap> = take_all(&sink).iter().map(|c| snap(c, id_of)).collect();
                    if via_channel != via_callback && mismatch.is_none() {
                        mismatch = Some(format!("call {} (ts {}): drain() returned {:?}, callback saw {:?}", i, e.ts, via_channel.iter().map(|x| &x.items).collect::<Vec<_>>(), via_callback.iter().map(|x| &x.items).collect::<Vec<_>>()));
                    }
                    for c in via_channel {
                        firings.push((i, c));
                    }
                }
                run.stop();
            }
        }
        Run { firings, consumer_mismatch: mismatch, seeds }
    })
}

// ---------------------------------------------------------------------------------------
// the check

#[derive(Default)]
struct Stats {
    pushes: u64,
    firings: u64,
    empty_firings: u64,
    nonempty_firings: u64,
    newest: u64,
    older: u64,
    ambiguous: u64,
    premise_pushes: u64,
    closed_nonempty: u64,
    closed_empty_upper: u64,
    last_changed_odd: u64,
    max_content: u64,
    premise_whole_stream: bool,
}

struct Chk<'a> {
    w: usize,
    s: usize,
    evs: &'a [MEv],
    fast: bool,
}

impl<'a> Chk<'a> {
    fn content(&self, upto: usize, width: i128, c: i128) -> Content {
        if self.fast {
            interval_content_fast(self.evs, upto, width, c)
        } else {
            interval_content(self.evs, upto, width, c)
        }
    }

    /// index of the first event (among evs[..upto]) with ts >= c - width
    fn slice_start(&self, upto: usize, width: i128, c: i128) -> usize {
        self.evs[..upto].partition_point(|e| (e.ts as i128) < c - width)
    }
    /// the events of evs[..upto] from the first one inside [c-width, ..) on (callers filter by < c)
    fn slice(&self, upto: usize, width: i128, c: i128) -> &[MEv] {
        &self.evs[self.slice_start(upto, width, c)..upto]
    }

    /// Why is `r` (reported during call i, trigger time t) not the content of an aligned
    /// interval closing at or before t?  Established by searching the alternatives.
    fn diagnose(&self, r: &Content, i: usize, t: usize) -> (Value, Value) {
        let (w, s) = (self.w as i128, self.s as i128);
        let m = r.iter().map(|x| x.1).min().unwrap() as i128;
        let mx = r.iter().map(|x| x.1).max().unwrap() as i128;
        let upto = i + 1;
        // (a) an aligned interval that closes only after the trigger time
        let mut c = ((t as i128) / s + 1) * s;
        while c <= mx + w + s {
            if self.content(upto, w, c) == *r {
                return (json!({"kind": "content_is_no_aligned_interval_at_or_before_trigger", "diagnosis": "is_aligned_interval_closing_after_trigger"}), json!({"close": c.to_string(), "trigger": t}));
            }
            c += s;
        }
        // (b) an interval of the right width that is not aligned to the slide
        let mut x = mx + 1;
        while x <= m + w {
            if x % s != 0 && self.content(upto, w, x) == *r {
                return (json!({"kind": "content_is_no_aligned_interval_at_or_before_trigger", "diagnosis": "is_interval_not_aligned_to_slide", "after_trigger": x > t as i128}), json!({"close": x.to_string(), "trigger": t}));
            }
            x += 1;
        }
        // (c) compare with the closest aligned interval at or before the trigger
        // closest = fewest differing entries; among those prefer an explanation that needs only
        // one kind of error (nothing foreign, or nothing missing), then the newest interval
        let mut best: Option<((usize, usize), i128, Content)> = None;
        let lo_c = ((m - w).max(0) / s) * s;
        let hi_c = (mx + 2 * w + s).min(t as i128);
        let mut c = lo_c;
        let mut cands: Vec<i128> = vec![];
        while c <= hi_c {
            cands.push(c);
            c += s;
        }
        cands.push((t as i128 / s) * s);
        for c in cands {
            let e = self.content(upto, w, c);
            let foreign_n = r.iter().filter(|x| !e.iter().any(|y| y.0 == x.0)).count();
            let missing_n = e.iter().filter(|x| !r.iter().any(|y| y.0 == x.0)).count();
            let d = (symdiff(&e, r), (foreign_n > 0) as usize + (missing_n > 0) as usize);
            if best.as_ref().map(|b| d < b.0 || (d == b.0 && c > b.1)).unwrap_or(true) {
                best = Some((d, c, e));
            }
        }
        let (_, c, e) = best.unwrap();
        let ids_e: BTreeMap<u64, usize> = e.iter().copied().collect();
        let ids_r: BTreeMap<u64, usize> = r.iter().copied().collect();
        let missing: Vec<(u64, usize)> = e.iter().filter(|x| !ids_r.contains_key(&x.0)).copied().collect();
        let foreign: Vec<(u64, usize)> = r.iter().filter(|x| !ids_e.contains_key(&x.0)).copied().collect();
        let wrong_ts: Vec<(u64, usize, usize)> = r.iter().filter_map(|x| ids_e.get(&x.0).filter(|t| **t != x.1).map(|t| (x.0, x.1, *t))).collect();
        let kind = match (missing.is_empty(), foreign.is_empty()) {
            (false, true) => "item_of_the_interval_missing",
            (true, false) => "foreign_item_in_report",
            (false, false) => "items_missing_and_foreign",
            (true, true) => "item_reported_with_wrong_timestamp",
        };
        let mut sig = json!({"kind": kind});
        if !foreign.is_empty() {
            let wher = if foreign.iter().all(|x| x.1 as i128 == c) {
                "exactly_at_close"
            } else if foreign.iter().all(|x| x.1 as i128 >= c) {
                "at_or_after_close"
            } else if foreign.iter().all(|x| (x.1 as i128) < c - w) {
                "before_open"
            } else {
                "mixed"
            };
            sig["foreign_items_lie"] = json!(wher);
        }
        if !missing.is_empty() {
            let wher = if missing.iter().all(|x| x.1 as i128 == c - w) {
                "exactly_at_open"
            } else if missing.iter().all(|x| x.1 as i128 == c - 1) {
                "at_last_instant_before_close"
            } else {
                "inside"
            };
            sig["missing_items_lie"] = json!(wher);
        }
        if kind == "item_reported_with_wrong_timestamp" {
            sig["reported_is"] = json!(if wrong_ts.iter().all(|x| x.1 < x.2) { "older_than_latest" } else { "other" });
        }
        (sig, json!({"closest_aligned_close": c.to_string(), "missing": missing, "foreign": foreign, "wrong_timestamps(id,reported,latest)": wrong_ts}))
    }

    /// Returns the violations (signature, detail) of one run; at most one per clause.
    fn check(&self, run: &Run, nonempty_strategy: bool, st: &mut Stats) -> Vec<(Value, Value)> {
        let (w, s) = (self.w as i128, self.s as i128);
        let evs = self.evs;
        let mut out: Vec<(Value, Value)> = vec![];
        let mut kinds_seen: Vec<String> = vec![];
        let mut push_v = |out: &mut Vec<(Value, Value)>, sig: Value, det: Value| {
            let k = sig.to_string();
            if !kinds_seen.contains(&k) {
                kinds_seen.push(k);
                out.push((sig, det));
            }
        };
        if let Some(m) = &run.consumer_mismatch {
            push_v(&mut out, json!({"kind": "consumers_of_one_window_received_different_reports"}), json!({"what": m}));
        }
        let mut fi = 0usize;
        let mut prev_trigger: Option<usize> = None;
        let mut prev_c: i128 = 0;
        let mut premise = true;
        let mut complete_ok = true;
        // content -> (closed intervals with this content, firings with this content)
        let mut tally: BTreeMap<Content, (u32, u32)> = BTreeMap::new();
        let mut closed_total: i128 = 0;
        let mut closed_nonempty: i128 = 0;
        let mut empty_firings: i128 = 0;
        for i in 0..evs.len() {
            let t = evs[i].ts;
            st.pushes += 1;
            if i > 0 && t - evs[i - 1].ts > self.s {
                premise = false;
            }
            let mut touched: Vec<Content> = vec![];
            let mut here = 0;
            while fi < run.firings.len() && run.firings[fi].0 == i {
                let f = &run.firings[fi].1;
                fi += 1;
                here += 1;
                st.firings += 1;
                if here == 2 {
                    push_v(&mut out, json!({"kind": "several_reports_triggered_by_one_arrival"}), json!({"call": i, "ts": t}));
                }
                if here == 1 {
                    if let Some(pt) = prev_trigger {
                        if t <= pt {
                            push_v(&mut out, json!({"kind": "trigger_time_not_strictly_increasing"}), json!({"call": i, "trigger": t, "previous_trigger": pt}));
                        }
                    }
                    prev_trigger = Some(t);
                }
                // container self-consistency
                if f.len != f.items.len() || f.keys != f.items.len() {
                    push_v(&mut out, json!({"kind": "container_len_or_iter_disagrees_with_its_elements"}), json!({"len": f.len, "iter": f.keys, "elements": f.items.len()}));
                }
                st.max_content = st.max_content.max(f.items.len() as u64);
                let r = &f.items;
                if r.is_empty() {
                    st.empty_firings += 1;
                    empty_firings += 1;
                    if nonempty_strategy {
                        push_v(&mut out, json!({"kind": "empty_report_despite_NonEmptyContent"}), json!({"call": i, "ts": t}));
                    }
                    // smallest aligned c >= prev_c, c <= t, with an empty interval
                    let mut c = ((prev_c + s - 1) / s) * s;
                    let mut found = false;
                    while c <= t as i128 {
                        if self.content(i + 1, w, c).is_empty() {
                            found = true;
                            break;
                        }
                        c += s;
                    }
                    if found {
                        prev_c = c;
                    } else {
                        push_v(&mut out, json!({"kind": "no_nondecreasing_choice_of_intervals", "report": "empty"}), json!({"call": i, "trigger": t, "previous_interval_close_at_least": prev_c.to_string()}));
                    }
                } else {
                    st.nonempty_firings += 1;
                    let m = r.iter().map(|x| x.1).min().unwrap() as i128;
                    let mx = r.iter().map(|x| x.1).max().unwrap() as i128;
                    if f.last_changed as i128 != mx {
                        st.last_changed_odd += 1;
                    }
                    let mut cands: Vec<i128> = vec![];
                    let mut c = ((mx + 1 + s - 1) / s) * s;
                    while c <= m + w && c <= t as i128 {
                        if self.content(i + 1, w, c) == *r {
                            cands.push(c);
                        }
                        c += s;
                    }
                    if cands.is_empty() {
                        let (sig, mut det) = self.diagnose(r, i, t);
                        det["call"] = json!(i);
                        det["trigger"] = json!(t);
                        det["reported"] = json!(r);
                        push_v(&mut out, sig, det);
                    } else {
                        if cands.len() > 1 {
                            st.ambiguous += 1;
                        }
                        if *cands.last().unwrap() == (t as i128 / s) * s {
                            st.newest += 1;
                        } else {
                            st.older += 1;
                        }
                        match cands.iter().find(|c| **c >= prev_c) {
                            Some(c) => prev_c = *c,
                            None => push_v(&mut out, json!({"kind": "no_nondecreasing_choice_of_intervals", "report": "non_empty"}), json!({"call": i, "trigger": t, "reported": r, "closes_matching": cands.iter().map(|c| c.to_string()).collect::<Vec<_>>(), "previous_interval_close_at_least": prev_c.to_string()})),
                        }
                        // deterministic / probabilistic annotations of the container follow the same interval
                        let c0 = cands[0];
                        let inside = |e: &&MEv| (e.ts as i128) < c0 && e.ts as i128 >= c0 - w;
                        let mut exp_det: Vec<u64> = self.slice(i + 1, w, c0).iter().filter(inside).filter(|e| !e.prob).map(|e| e.id).collect();
                        exp_det.sort();
                        exp_det.dedup();
                        let lo_idx = self.slice_start(i + 1, w, c0);
                        let mut exp_seeds: Vec<u32> = self.slice(i + 1, w, c0).iter().enumerate().filter(|(_, e)| inside(e) && e.prob).filter_map(|(j, _)| run.seeds.get(&(lo_idx + j)).copied()).collect();
                        exp_seeds.sort();
                        if exp_seeds != f.prob_seeds || exp_det != f.det {
                            push_v(&mut out, json!({"kind": "deterministic_or_probabilistic_annotation_not_of_the_reported_interval"}), json!({"call": i, "trigger": t, "close": c0.to_string(), "expected_seeds": exp_seeds, "got_seeds": f.prob_seeds, "expected_deterministic": exp_det, "got_deterministic": f.det}));
                        }
                    }
                    let e = tally.entry(r.clone()).or_insert((0, 0));
                    e.1 += 1;
                    touched.push(r.clone());
                }
            }
            // completeness clause, per prefix, only while its premise holds
            if premise && complete_ok {
                st.premise_pushes += 1;
                if i == 0 {
                    closed_total = t as i128 / s + 1; // all of them empty: nothing arrived before
                } else {
                    let pt = evs[i - 1].ts as i128;
                    let mut c = (pt / s + 1) * s;
                    while c <= t as i128 {
                        closed_total += 1;
                        let k = self.content(i + 1, w, c);
                        if !k.is_empty() {
                            closed_nonempty += 1;
                            st.closed_nonempty += 1;
                            tally.entry(k.clone()).or_insert((0, 0)).0 += 1;
                            touched.push(k);
                        }
                        c += s;
                    }
                }
                for k in &touched {
                    let (n_int, n_fire) = tally[k];
                    if n_fire < n_int {
                        complete_ok = false;
                        push_v(&mut out, json!({"kind": "closed_nonempty_interval_not_reported", "premise": "consecutive_timestamps_at_most_one_slide_apart"}), json!({"after_call": i, "ts": t, "interval_content": k, "closed_intervals_with_this_content": n_int, "reports_with_this_content": n_fire}));
                    } else if n_fire > n_int {
                        complete_ok = false;
                        push_v(&mut out, json!({"kind": "interval_reported_more_often_than_it_closed", "premise": "consecutive_timestamps_at_most_one_slide_apart"}), json!({"after_call": i, "ts": t, "interval_content": k, "closed_intervals_with_this_content": n_int, "reports_with_this_content": n_fire}));
                    }
                }
                if empty_firings > closed_total - closed_nonempty {
                    complete_ok = false;
                    push_v(&mut out, json!({"kind": "more_empty_reports_than_empty_closed_intervals", "premise": "consecutive_timestamps_at_most_one_slide_apart"}), json!({"after_call": i, "ts": t, "empty_reports": empty_firings.to_string(), "empty_closed_intervals": (closed_total - closed_nonempty).to_string()}));
                }
            }
        }
        if fi < run.firings.len() {
            push_v(&mut out, json!({"kind": "report_attributed_to_no_arrival"}), json!({"n": run.firings.len() - fi}));
        }
        st.premise_whole_stream = premise;
        if premise {
            st.closed_empty_upper += (closed_total - closed_nonempty).max(0) as u64;
        }
        out
    }
}

fn symdiff(a: &Content, b: &Content) -> usize {
    a.iter().filter(|x| !b.contains(x)).count() + b.iter().filter(|x| !a.contains(x)).count()
}

// ---------------------------------------------------------------------------------------
// item types

fn mk_u32(id: u64) -> u32 {
    id as u32
}
fn id_u32(i: &u32) -> u64 {
    *i as u64
}
fn mk_triple(id: u64) -> WindowTriple {
    WindowTriple { s: format!("http://k/s{}", id), p: "http://k/p".to_string(), o: format!("w{}", id % 7) }
}
fn id_triple(t: &WindowTriple) -> u64 {
    t.s["http://k/s".len()..].parse().unwrap_or(u64::MAX)
}

// ---------------------------------------------------------------------------------------

fn witness(w: usize, s: usize, strat: usize, mode: Mode, evs: &[MEv], run: Option<&Run>) -> Value {
    let n = evs.len();
    let show = |e: &MEv| json!([e.id, e.ts.to_string(), if e.prob { "prob" } else { "det" }]);
    let stream: Vec<Value> = if n <= 40 { evs.iter().map(show).collect() } else { evs[..40].iter().map(show).collect() };
    let mut v = json!({"width": w, "slide": s, "strategies": strategies_name(strat), "consumer": mode.name(), "stream_len": n, "stream(id,ts,kind)": stream});
    if let Some(r) = run {
        let fs: Vec<Value> = r.firings.iter().take(40).map(|(i, f)| json!({"call": i, "trigger": evs.get(*i).map(|e| e.ts.to_string()), "content(id,ts)": f.items.iter().map(|x| json!([x.0, x.1.to_string()])).collect::<Vec<_>>()})).collect();
        v["reports_observed"] = json!(fs);
    }
    v
}

fn record_stats(ctx: &mut Ctx, st: &Stats, strat: usize, mode: Mode) {
    ctx.count("arrivals_pushed", st.pushes);
    ctx.count("reports_observed", st.firings);
    ctx.count("reports_observed.empty_content", st.empty_firings);
    ctx.count("reports_observed.non_empty_content", st.nonempty_firings);
    ctx.count(&format!("reports_by_strategy.{}", strategies_name(strat)), st.firings);
    ctx.count(&format!("reports_by_consumer.{}", mode.name()), st.firings);
    ctx.count("reports_equal_to_newest_closed_interval", st.newest);
    ctx.count("reports_equal_to_an_older_interval_only", st.older);
    ctx.count("reports_matching_several_aligned_intervals", st.ambiguous);
    ctx.count("arrivals_checked_under_completeness_premise", st.premise_pushes);
    ctx.count("closed_nonempty_intervals_checked_reported_exactly_once", st.closed_nonempty);
    ctx.count("containers_whose_last_timestamp_changed_is_not_their_latest_item", st.last_changed_odd);
    ctx.max("max_items_in_a_report", st.max_content);
}

/// One (stream, strategy list, consumer) run: drive, check, and (if `emit`) report.
/// Returns the violations found (signature, detail-with-witness) and the statistics.
#[allow(clippy::too_many_arguments)]
fn run_one<I>(ctx: &mut Ctx, w: usize, s: usize, strat: usize, mode: Mode, evs: &[MEv], fast: bool, base_hash: u64, emit: bool, mk: fn(u64) -> I, id_of: fn(&I) -> u64) -> (Vec<(Value, Value)>, Stats)
where
    I: Eq + PartialEq + Clone + Debug + Hash + Send + 'static,
{
    ctx.add_evals(1);
    let mut st = Stats::default();
    let mut found: Vec<(Value, Value)> = vec![];
    match drive(w, s, strat, mode, evs, mk, id_of) {
        Err(e) => {
            let mut d = witness(w, s, strat, mode, evs, None);
            d["panic"] = json!(e);
            found.push((json!({"kind": "panic", "site": panic_site(&e)}), d));
        }
        Ok(run) => {
            let chk = Chk { w, s, evs, fast };
            let viol = chk.check(&run, strat != 0, &mut st);
            record_stats(ctx, &st, strat, mode);
            if st.nonempty_firings > 0 {
                ctx.nontrivial(mix(base_hash ^ (strat as u64 + 1).wrapping_mul(0x9E37_79B9)));
            }
            for (sig, det) in viol {
                let mut d = witness(w, s, strat, mode, evs, Some(&run));
                d["finding"] = det;
                found.push((sig, d));
            }
        }
    }
    if emit {
        for (sig, d) in &found {
            ctx.violation(sig.clone(), d.clone());
        }
    }
    (found, st)
}

fn stream_hash(w: usize, s: usize, evs: &[MEv]) -> u64 {
    let mut h = mix((w as u64) << 32 | s as u64);
    for e in evs {
        h = mix(h ^ (e.ts as u64).wrapping_mul(0x100_0000_01B3) ^ e.id.rotate_left(40) ^ ((e.prob as u64) << 63));
    }
    h
}

// ---------------------------------------------------------------------------------------
// exhaustive phases

fn gap_set(w: usize, s: usize, full: bool) -> Vec<usize> {
    if full {
        (0..=w + 2).collect()
    } else {
        let mut g = vec![0, 1, s, s + 1, w, w + 2];
        g.sort();
        g.dedup();
        g
    }
}

fn exhaustive(ctx: &mut Ctx, name: &str, full: bool, len: usize, prefix: usize, share: f64) {
    // case list: (w, s, prefix of gap indices)
    let mut cases: Vec<(usize, usize, Vec<usize>)> = vec![];
    for w in 1..=5usize {
        for s in 1..=5usize {
            let g = gap_set(w, s, full).len();
            let combos = g.pow(prefix as u32);
            for n in 0..combos {
                let mut idx = vec![0usize; prefix];
                let mut x = n;
                for p in (0..prefix).rev() {
                    idx[p] = x % g;
                    x /= g;
                }
                cases.push((w, s, idx));
            }
        }
    }
    // fixed permutation of the blocks (independent of the seed) so that a budget stop loses breadth evenly
    Rng::new(0xC09).shuffle(&mut cases);
    ctx.phase(name, cases.len() as u64);
    ctx.note("exhaustive_sub_spaces", &format!("{}: widths 1..5 x slides 1..5 x all in-order streams of exactly {} arrivals (hence every shorter prefix) with gaps (first one from 0) in {} x {} through WindowRunner (+ one rotating strategy list through a bare callback/channel consumer)", name, len, if full { "0..=width+2" } else { "{0,1,slide,slide+1,width,width+2}" }, if full && len == 6 { "strategy lists [OnWindowClose], [OnWindowClose,NonEmptyContent]" } else { "3 strategy lists" }));
    let mut complete = true;
    while let Some(k) = ctx.next_case() {
        if !ctx.within(share) {
            complete = false;
            ctx.count(&format!("blocks_skipped_for_budget.{}", name), 1);
            continue;
        }
        let (w, s, pre) = cases[k as usize].clone();
        let gaps = gap_set(w, s, full);
        let g = gaps.len();
        let rest = len - prefix;
        let mut idx = vec![0usize; rest];
        let mut evs: Vec<MEv> = Vec::with_capacity(len);
        let mut leaf: u64 = 0;
        'leaves: loop {
            evs.clear();
            let mut t = 0usize;
            for (j, gi) in pre.iter().chain(idx.iter()).enumerate() {
                t += gaps[*gi];
                evs.push(MEv { id: j as u64, ts: t, prob: false });
            }
            let h = stream_hash(w, s, &evs);
            let premise_stream = evs.windows(2).all(|p| p[1].ts - p[0].ts <= s);
            // every (stream, strategy list) through the WindowRunner (callback + channel at once);
            // additionally one strategy list (rotating) through one of the bare consumers
            let extra_mode = if (leaf / 3) % 2 == 0 { Mode::Callback } else { Mode::Channel };
            // (the large quick-tier full-gap enumeration leaves the swapped strategy order to the rotating run)
            let runs = [(0usize, Mode::Runner), (1, Mode::Runner), (2, Mode::Runner), ((leaf % 3) as usize, extra_mode)];
            let skip_swapped = full && len == 6;
            for (strat, mode) in runs {
                if skip_swapped && strat == 2 && mode == Mode::Runner {
                    continue;
                }
                let (viol, st) = run_one(ctx, w, s, strat, mode, &evs, false, h, true, mk_u32, id_u32);
                if mode == Mode::Runner && strat == 0 {
                    ctx.count("streams_enumerated", 1);
                    if premise_stream {
                        ctx.count("streams_enumerated.satisfying_completeness_premise", 1);
                        ctx.count("empty_closed_intervals_upper_bound(premise_streams)", st.closed_empty_upper);
                    }
                }
                if ctx.wants_sample() && st.nonempty_firings > 1 && leaf > 7 {
                    ctx.sample(json!({"width": w, "slide": s, "strategies": strategies_name(strat), "consumer": mode.name(), "timestamps": evs.iter().map(|e| e.ts).collect::<Vec<_>>(), "reports": st.firings, "non_empty_reports": st.nonempty_firings, "all_clauses_held": viol.is_empty()}));
                }
            }
            leaf += 1;
            // odometer
            let mut p = rest;
            loop {
                if p == 0 {
                    break 'leaves;
                }
                p -= 1;
                idx[p] += 1;
                if idx[p] < g {
                    break;
                }
                idx[p] = 0;
            }
        }
        ctx.count(&format!("blocks_completed.{}", name), 1);
        ctx.note("width_slide_pairs_enumerated", &format!("{}/{}", w, s));
    }
    if !complete {
        ctx.note("exhaustive_sub_spaces_cut_by_budget", name);
    }
}

// ---------------------------------------------------------------------------------------
// random long streams

struct LongCase {
    w: usize,
    s: usize,
    evs: Vec<MEv>,
    profile: &'static str,
    offset_kind: &'static str,
    values: &'static str,
}

fn gen_long(r: &mut Rng, thorough: bool) -> LongCase {
    let w = if r.chance(2, 5) { r.range(1, 8) } else { r.range(1, 50) };
    let s = match r.below(10) {
        0..=3 => r.range(1, w),
        4 => w,
        5 | 6 => w + r.range(1, 10),
        7 | 8 => {
            let divs: Vec<usize> = (1..=w).filter(|d| w % d == 0).collect();
            *r.pick(&divs)
        }
        _ => r.range(1, 50),
    };
    let n = if thorough { r.range(500, 3000) } else { r.range(200, 1000) };
    let (offset, offset_kind): (usize, &'static str) = match r.below(20) {
        0..=5 => (0, "0"),
        6..=13 => (r.range(0, w + s), "within_first_windows"),
        14..=16 => (1_000_000 + r.range(0, 1000), "1e6"),
        17 | 18 => ((1usize << 40) + r.range(0, 100_000), "2^40"),
        _ => ((1usize << 52) + r.range(0, 100_000), "2^52"),
    };
    let pidx = r.below(6);
    let profile = ["gaps_0..=slide(premise)", "gaps_0..=2", "gaps_0..=width+2", "mostly_small_with_gaps_up_to_3_widths", "every_gap_exactly_slide", "every_gap_slide_or_slide+1"][pidx];
    let vidx = r.below(10);
    let (values, pool): (&'static str, usize) = match vidx {
        0..=4 => ("unique", 0),
        5 | 6 => ("pool_of_1..5_repeated_values", r.range(1, 5)),
        _ => ("unique_with_probabilistic_arrivals", 0),
    };
    let mut evs = Vec::with_capacity(n);
    let mut t = offset;
    for i in 0..n {
        if i > 0 {
            t += match pidx {
                0 => {
                    if r.chance(1, 4) {
                        0
                    } else {
                        r.range(0, s)
                    }
                }
                1 => r.range(0, 2),
                2 => r.range(0, w + 2),
                3 => {
                    if r.chance(1, 12) {
                        r.range(w, 3 * w + 5)
                    } else {
                        r.range(0, s.min(3))
                    }
                }
                4 => s,
                _ => s + r.below(2),
            };
        }
        let id = if pool > 0 { r.below(pool) as u64 } else { i as u64 };
        let prob = vidx >= 7 && r.chance(1, 3);
        evs.push(MEv { id, ts: t, prob });
    }
    LongCase { w, s, evs, profile, offset_kind, values }
}

fn long_phase(ctx: &mut Ctx) {
    let total = ctx.by_tier(1_600, 60_000);
    let thorough = ctx.thorough();
    ctx.phase("long", total);
    while let Some(k) = ctx.next_case() {
        let mut r = ctx.rng(k);
        let c = gen_long(&mut r, thorough);
        let strat = r.below(3);
        let mode = [Mode::Callback, Mode::Channel, Mode::Runner, Mode::Thread][r.below(4)];
        let triple_items = r.coin();
        let h = stream_hash(c.w, c.s, &c.evs);
        ctx.count(&format!("long_streams.gap_profile.{}", c.profile), 1);
        ctx.count(&format!("long_streams.first_timestamp.{}", c.offset_kind), 1);
        ctx.count(&format!("long_streams.item_values.{}", c.values), 1);
        ctx.count(if c.s > c.w { "long_streams.slide_greater_than_width" } else if c.w % c.s == 0 { "long_streams.width_multiple_of_slide" } else { "long_streams.width_not_multiple_of_slide" }, 1);
        ctx.max("max_stream_length", c.evs.len() as u64);
        ctx.max("max_width", c.w as u64);
        ctx.max("max_slide", c.s as u64);
        let (viol, st) = if triple_items { run_one(ctx, c.w, c.s, strat, mode, &c.evs, true, h, true, mk_triple, id_triple) } else { run_one(ctx, c.w, c.s, strat, mode, &c.evs, true, h, true, mk_u32, id_u32) };
        let clean = viol.is_empty();
        if st.premise_whole_stream {
            ctx.count("long_streams.satisfying_completeness_premise_throughout", 1);
        }
        if ctx.wants_sample() && st.nonempty_firings > 0 {
            ctx.sample(json!({"width": c.w, "slide": c.s, "strategies": strategies_name(strat), "consumer": mode.name(), "items": c.evs.len(), "gap_profile": c.profile, "first_timestamp": c.evs[0].ts.to_string(), "last_timestamp": c.evs.last().unwrap().ts.to_string(), "item_values": c.values, "item_type": if triple_items { "WindowTriple" } else { "u32" }, "reports": st.firings, "non_empty_reports": st.nonempty_firings, "closed_nonempty_intervals_checked_for_exactly_once": st.closed_nonempty, "all_clauses_held": clean}));
        }
    }
}

// ---------------------------------------------------------------------------------------
// timestamps beyond the range in which usize -> f64 is exact (scope() computes in f64)

fn big_ts_phase(ctx: &mut Ctx) {
    let total = ctx.by_tier(240, 6_000);
    ctx.phase("big_ts", total);
    while let Some(k) = ctx.next_case() {
        let mut r = ctx.rng(k);
        // magnitude 2^e, slide at least 4 ulps of that magnitude so that `o_i += slide` in
        // scope() always makes progress (smaller slides make scope() spin forever; that
        // cannot be observed without a wall-clock verdict and is therefore not driven)
        // (the engine computes in integers since the fix of that defect, so a third of the
        // cases use small slides again; magnitudes reach 2^63, where a signed 64-bit
        // computation would wrap, and a quarter of the streams straddle 2^63 itself)
        let e = r.range(53, 63) as u32;
        let ulp = 1usize << (e - 52);
        let s = if r.chance(1, 3) { r.range(1, 50) } else { ulp * 4 + r.range(0, 3 * ulp) + r.below(2) };
        let w = match r.below(3) {
            0 => s,
            1 => s * r.range(1, 3) + r.range(0, s - 1),
            _ => r.range(1, s),
        };
        let straddle = r.chance(1, 4);
        let base = if straddle { (1usize << 63) - r.range(0, 4 * s) } else { (1usize << e) + r.range(0, 1 << 20) * s.min(1 << 14) };
        let n = r.range(2, 10);
        let mut rel: Vec<usize> = vec![];
        let mut t = r.range(0, s);
        for _ in 0..n {
            rel.push(t);
            t += if r.chance(1, 5) { 0 } else { r.range(1, s) };
        }
        // the same relative stream, shifted by a multiple of the slide: alignment is unchanged
        let k_hi = base / s;
        let hi: Vec<MEv> = rel.iter().enumerate().map(|(i, x)| MEv { id: i as u64, ts: k_hi * s + x, prob: false }).collect();
        let lo: Vec<MEv> = rel.iter().enumerate().map(|(i, x)| MEv { id: i as u64, ts: 7 * s + x, prob: false }).collect();
        let strat = r.below(3);
        let mode = if r.coin() { Mode::Callback } else { Mode::Runner };
        if straddle {
            ctx.count("big_ts.stream_straddles_2^63", 1);
        } else {
            ctx.count(&format!("big_ts.magnitude_2^{}", e), 1);
        }
        ctx.count(if s <= 50 { "big_ts.slide_1_to_50" } else { "big_ts.slide_of_at_least_4_ulps_of_f64" }, 1);
        // control: below 2^53 the very same stream (same alignment) must satisfy the property;
        // if it does not, that is an ordinary finding and is reported as such
        let (viol_lo, _) = run_one(ctx, w, s, strat, mode, &lo, false, stream_hash(w, s, &lo), true, mk_u32, id_u32);
        let (viol_hi, st) = run_one(ctx, w, s, strat, mode, &hi, false, stream_hash(w, s, &hi), !viol_lo.is_empty(), mk_u32, id_u32);
        let clean_hi = viol_hi.is_empty();
        if viol_lo.is_empty() && !clean_hi {
            // cause established by the control experiment: only the magnitude of the timestamps differs
            let (sig0, det0) = &viol_hi[0];
            ctx.count(&format!("big_ts.first_symptom.{}", sig0["kind"].as_str().unwrap_or("?")), 1);
            let mut d = det0.clone();
            d["first_symptom"] = sig0.clone();
            d["all_symptoms"] = json!(viol_hi.iter().map(|v| v.0.clone()).collect::<Vec<_>>());
            d["control"] = json!({"what": "same relative stream, shifted down by a multiple of the slide", "timestamps": lo.iter().map(|e| e.ts).collect::<Vec<_>>(), "violations": 0});
            ctx.violation(json!({"kind": "wrong_reports_only_when_timestamps_reach_2^53", "cause": "same_stream_shifted_by_a_multiple_of_the_slide_below_2^53_is_reported_correctly"}), d);
        }
        ctx.count(if clean_hi { "big_ts.streams_reported_correctly" } else { "big_ts.streams_reported_wrongly" }, 1);
        if ctx.wants_sample() && st.firings > 0 {
            ctx.sample(json!({"width": w.to_string(), "slide": s.to_string(), "timestamps": hi.iter().map(|e| e.ts.to_string()).collect::<Vec<_>>(), "reports": st.firings, "all_clauses_held": clean_hi}));
        }
    }
}

fn run(ctx: &mut Ctx) {
    let thorough = ctx.thorough();
    // exhaustive sub-spaces (deterministic, independent of the seed)
    exhaustive(ctx, "exh_full", true, if thorough { 7 } else { 6 }, if thorough { 3 } else { 2 }, if thorough { 0.45 } else { 0.50 });
    exhaustive(ctx, "exh_reduced", false, if thorough { 8 } else { 6 }, if thorough { 3 } else { 2 }, if thorough { 0.75 } else { 0.70 });
    big_ts_phase(ctx);
    long_phase(ctx);
}

fn main() {
    // Diagnostic aid, not part of any verdict: `KV_C09_PROBE_SPIN=54 timeout 10 harness/target/debug/c09`
    // pushes one item at 2^54 (the exponent given) into a (width 1, slide 1) window. With the f64 arithmetic of
    // CSPARQLWindow::scope the call never returns (exit 124 from timeout); it prints "returned" otherwise.
    if let Ok(v) = std::env::var("KV_C09_PROBE_SPIN") {
        let e: u32 = v.parse().ok().filter(|e| *e < 64).unwrap_or(54);
        let mut report = Report::new();
        report.add(ReportStrategy::OnWindowClose);
        let mut win: CSPARQLWindow<u32> = CSPARQLWindow::new(1, 1, report, Tick::TimeDriven, "w".to_string());
        win.add_to_window(1, 1usize << e);
        println!("returned");
        return;
    }
    let mut spec = Spec::new("C09", "exploration", RULE);
    spec.assumptions = &[
        "in-order streams only (timestamps never decrease), Tick::TimeDriven, t_0 = 0, report strategy lists that contain OnWindowClose (alone or with NonEmptyContent)",
        "\"an interval that closes\" in the completeness clause is read as an interval that held at least one item; an interval that never held an item may be reported zero or one times (only the pigeonhole bound empty reports <= empty closed intervals is checked)",
        "the completeness clause is evaluated after every arrival of every stream prefix whose consecutive timestamps are all at most one slide apart, with the reports seen so far",
        "an empty report matches any empty aligned interval at or before the trigger (including the one closing at 0)",
        "flush() (union of all open windows at end of stream) is not a timestamp-triggered report and is not driven",
        "timestamps in phase big_ts lie between 2^53 and 2^63 + 2^35 (a quarter of the streams straddle 2^63); two thirds of the slides are at least 4 ulps of the f64 magnitude, one third lies in 1..=50 (those made the original f64 scope() loop forever, which no logical-time oracle can observe; driven since the engine computes in integers)",
        "in phase big_ts every stream is run twice, at >= 2^53 and shifted down by a multiple of the slide (same alignment); a failure of the high copy alone gets the single signature wrong_reports_only_when_timestamps_reach_2^53, a failure of the control copy is reported under its ordinary signature",
        "a report equal to an older closed interval (not the newest one) satisfies the property as stated and is only counted (reports_equal_to_an_older_interval_only)",
        "trusted base: std mpsc/thread, the monitor's interval scan",
    ];
    spec.quick_budget_s = 75;
    spec.thorough_budget_s = 600;
    spec.exhaustive = true;
    kvcore::run(spec, run);
}
