//! C02 — Query answers do not depend on the plan the optimizer happens to choose.
//!
//! Metamorphic monitor on top of the C01 generator. For one logical query on one dataset
//! it produces many executions that differ only in plan-level choices and demands the
//! same solution multiset from all of them (and from M-SPARQL, which ties the common
//! answer to the algebra):
//!   1. every permutation of each basic graph pattern (text path);
//!   2. statistics in {fresh, stale, empty, adversarial} injected through `cached_stats`;
//!   3. the physical plan returned by `find_best_plan`, rewritten by the monitor: every
//!      join node takes every algorithm among the candidates the optimizer considers
//!      ({bind, hash, nested-loop}; bind only where the optimizer itself would offer it),
//!      IndexScan <-> TableScan, StarJoin <-> chain of scans;
//!   4. each plan executed inside rayon pools of 1, 2, 3, 4, 8, 16 threads on datasets
//!      whose left join inputs exceed the 64-row parallel chunk.

use kolibrie::execute_query::execute_sparql_query;
use kolibrie::parser::parse_combined_query;
use kolibrie::sparql_database::SparqlDatabase;
use kolibrie::streamertail_optimizer::{build_logical_plan_from_group, DatabaseStats, DatasetView, ExecutionEngine, LogicalOperator, PhysicalOperator, Streamertail};
use kvcore::{guard, hash_str, json, panic_site, Ctx, Rng, Spec, Value};
use kvk::ds::{self, Dataset, Route, Vocab};
use kvk::msparql::{Ev, Row};
use kvk::qast::*;
use kvk::qgen::Gen;
use shared::dataset_index::{GraphId, GraphTerm, QuadPattern};
use shared::query::SparqlOperation;
use std::collections::BTreeMap;
use std::sync::Arc;

const RULE: &str = "Each case = one generated dataset (as in C01; 1 in 5 with 150-400 quads so bind-join chunks and parallel filters split) x 3 generated group patterns (SELECT * over the C01 pattern generator, sub-selects keep their modifiers). For each: all BGP permutations (<= 24 sampled above 4 patterns) through the text path; statistics {fresh, stale, empty, adversarial}; the chosen physical plan with every join node re-assigned to every admissible algorithm (exhaustive 3^k for k <= 5, 243 sampled above), scan kinds swapped, StarJoin expanded; thread pools 1,2,3,4,8,16. All solution multisets must equal the baseline, which must equal M-SPARQL. Non-trivial = baseline non-empty, plan has >= 1 join node, >= 2 distinct physical plans executed; distinct by hash of (query text, dataset hash).";

type Bag = BTreeMap<String, usize>;

fn bag_of_rows(rows: &[Row]) -> Bag {
    let mut m = Bag::new();
    for r in rows {
        let k = r.iter().map(|(k, v)| format!("{}={}", k, v)).collect::<Vec<_>>().join("\u{1}");
        *m.entry(k).or_insert(0) += 1;
    }
    m
}

fn decode_bindings(db: &SparqlDatabase, b: &[std::collections::HashMap<String, u32>]) -> Vec<Row> {
    b.iter().map(|m| m.iter().map(|(k, v)| (k.trim_start_matches(['?', '$']).to_string(), db.decode_any(*v).unwrap_or_else(|| format!("<undecodable {}>", v)))).collect::<Row>()).collect()
}

// ------------------------------------------------------------------------------------
// physical plan surgery

fn children_mut(p: &mut PhysicalOperator) -> Vec<&mut PhysicalOperator> {
    match p {
        PhysicalOperator::Union { branches } => branches.iter_mut().collect(),
        PhysicalOperator::Graph { input, .. } | PhysicalOperator::Filter { input, .. } | PhysicalOperator::Projection { input, .. } | PhysicalOperator::Bind { input, .. } | PhysicalOperator::MLPredict { input, .. } => vec![input.as_mut()],
        PhysicalOperator::Subquery { inner, .. } => vec![inner.as_mut()],
        PhysicalOperator::BindJoin { left, right } | PhysicalOperator::HashJoin { left, right } | PhysicalOperator::NestedLoopJoin { left, right } => vec![left.as_mut(), right.as_mut()],
        _ => vec![],
    }
}

fn children(p: &PhysicalOperator) -> Vec<&PhysicalOperator> {
    match p {
        PhysicalOperator::Union { branches } => branches.iter().collect(),
        PhysicalOperator::Graph { input, .. } | PhysicalOperator::Filter { input, .. } | PhysicalOperator::Projection { input, .. } | PhysicalOperator::Bind { input, .. } | PhysicalOperator::MLPredict { input, .. } => vec![input.as_ref()],
        PhysicalOperator::Subquery { inner, .. } => vec![inner.as_ref()],
        PhysicalOperator::BindJoin { left, right } | PhysicalOperator::HashJoin { left, right } | PhysicalOperator::NestedLoopJoin { left, right } => vec![left.as_ref(), right.as_ref()],
        _ => vec![],
    }
}

fn is_join(p: &PhysicalOperator) -> bool {
    matches!(p, PhysicalOperator::BindJoin { .. } | PhysicalOperator::HashJoin { .. } | PhysicalOperator::NestedLoopJoin { .. })
}

fn count_joins(p: &PhysicalOperator) -> usize {
    (if is_join(p) { 1 } else { 0 }) + children(p).iter().map(|c| count_joins(c)).sum::<usize>()
}

/// The optimizer offers a bind join only when FILTER / BIND on the right side cannot
/// observe the fed bindings. The monitor substitutes a bind join where that is certainly
/// the case (no FILTER / BIND / projection below the right side at all) or where the
/// optimizer itself chose one; everything else is outside "the candidates it considers".
fn accepts_incoming(p: &PhysicalOperator) -> bool {
    match p {
        PhysicalOperator::Filter { .. } | PhysicalOperator::Bind { .. } | PhysicalOperator::Projection { .. } | PhysicalOperator::MLPredict { .. } => false,
        PhysicalOperator::Subquery { .. } => true,
        other => children(other).iter().all(|c| accepts_incoming(c)),
    }
}

/// Re-assign join algorithms in pre-order; `assign[i]` in 0..3 = bind/hash/nested-loop.
/// Returns false if an inadmissible bind join was requested (assignment skipped).
fn assign_joins(p: &mut PhysicalOperator, assign: &[u8], idx: &mut usize) -> bool {
    if is_join(p) {
        let a = assign[*idx];
        *idx += 1;
        let was_bind = matches!(p, PhysicalOperator::BindJoin { .. });
        let (l, r) = match std::mem::replace(p, PhysicalOperator::Unit) {
            PhysicalOperator::BindJoin { left, right } | PhysicalOperator::HashJoin { left, right } | PhysicalOperator::NestedLoopJoin { left, right } => (left, right),
            _ => unreachable!(),
        };
        if a == 0 && !was_bind && !accepts_incoming(&r) {
            *p = PhysicalOperator::HashJoin { left: l, right: r };
            return false;
        }
        *p = match a {
            0 => PhysicalOperator::BindJoin { left: l, right: r },
            1 => PhysicalOperator::HashJoin { left: l, right: r },
            _ => PhysicalOperator::NestedLoopJoin { left: l, right: r },
        };
    }
    let mut ok = true;
    for c in children_mut(p) {
        ok = assign_joins(c, assign, idx) && ok;
    }
    ok
}

fn swap_scans(p: &mut PhysicalOperator) -> usize {
    let mut n = 0;
    let new = match p {
        PhysicalOperator::TableScan { pattern } => Some(PhysicalOperator::IndexScan { pattern: pattern.clone() }),
        PhysicalOperator::IndexScan { pattern } => Some(PhysicalOperator::TableScan { pattern: pattern.clone() }),
        _ => None,
    };
    if let Some(x) = new {
        *p = x;
        n += 1;
    }
    for c in children_mut(p) {
        n += swap_scans(c);
    }
    n
}

/// StarJoin -> left-deep chain of bind joins over default-scoped index scans
fn expand_stars(p: &mut PhysicalOperator, r: &mut Rng) -> usize {
    let mut n = 0;
    if let PhysicalOperator::StarJoin { patterns, .. } = p {
        let mut pats = patterns.clone();
        r.shuffle(&mut pats);
        let mut plan: Option<PhysicalOperator> = None;
        for t in pats {
            let scan = PhysicalOperator::IndexScan { pattern: QuadPattern { subject: t.0, predicate: t.1, object: t.2, graph: GraphTerm::Default } };
            plan = Some(match plan {
                None => scan,
                Some(l) => match r.below(3) {
                    0 => PhysicalOperator::BindJoin { left: Box::new(l), right: Box::new(scan) },
                    1 => PhysicalOperator::HashJoin { left: Box::new(l), right: Box::new(scan) },
                    _ => PhysicalOperator::NestedLoopJoin { left: Box::new(l), right: Box::new(scan) },
                },
            });
        }
        *p = plan.unwrap_or(PhysicalOperator::Unit);
        n += 1;
    }
    for c in children_mut(p) {
        n += expand_stars(c, r);
    }
    n
}

fn op_histogram(p: &PhysicalOperator, ctx: &mut Ctx) {
    let name = match p {
        PhysicalOperator::Unit => "Unit",
        PhysicalOperator::TableScan { .. } => "TableScan",
        PhysicalOperator::IndexScan { .. } => "IndexScan",
        PhysicalOperator::Union { .. } => "Union",
        PhysicalOperator::Graph { .. } => "Graph",
        PhysicalOperator::Filter { .. } => "Filter",
        PhysicalOperator::BindJoin { .. } => "BindJoin",
        PhysicalOperator::HashJoin { .. } => "HashJoin",
        PhysicalOperator::NestedLoopJoin { .. } => "NestedLoopJoin",
        PhysicalOperator::StarJoin { .. } => "StarJoin",
        PhysicalOperator::Projection { .. } => "Projection",
        PhysicalOperator::InMemoryBuffer { .. } => "InMemoryBuffer",
        PhysicalOperator::Subquery { .. } => "Subquery",
        PhysicalOperator::Bind { .. } => "Bind",
        PhysicalOperator::Values { .. } => "Values",
        PhysicalOperator::MLPredict { .. } => "MLPredict",
    };
    ctx.count(&format!("operators_executed.{}", name), 1);
    for c in children(p) {
        op_histogram(c, ctx);
    }
}

// ------------------------------------------------------------------------------------

fn permute_bgps(g: &[P], r: &mut Rng) -> Vec<P> {
    let mut out = permute_bgps_in_place(g, r);
    // triple blocks that are adjacent (only FILTERs between them) are one basic graph pattern:
    // their triples are also exchanged across the blocks
    let mut i = 0;
    while i < out.len() {
        if !matches!(out[i], P::Bgp(_)) {
            i += 1;
            continue;
        }
        let mut run = vec![i];
        let mut j = i + 1;
        while j < out.len() && matches!(out[j], P::Bgp(_) | P::Filter(_)) {
            if matches!(out[j], P::Bgp(_)) {
                run.push(j);
            }
            j += 1;
        }
        if run.len() > 1 {
            let mut pool = vec![];
            let mut sizes = vec![];
            for &k in &run {
                if let P::Bgp(ts) = &out[k] {
                    sizes.push(ts.len());
                    pool.extend(ts.iter().cloned());
                }
            }
            r.shuffle(&mut pool);
            let mut it = pool.into_iter();
            for (&k, n) in run.iter().zip(sizes) {
                out[k] = P::Bgp(it.by_ref().take(n).collect());
            }
        }
        i = j;
    }
    out
}

fn permute_bgps_in_place(g: &[P], r: &mut Rng) -> Vec<P> {
    g.iter()
        .map(|p| match p {
            P::Bgp(ts) => {
                let mut t = ts.clone();
                r.shuffle(&mut t);
                P::Bgp(t)
            }
            P::Group(x) => P::Group(permute_bgps(x, r)),
            P::Union(bs) => P::Union(bs.iter().map(|b| permute_bgps(b, r)).collect()),
            P::Graph(n, x) => P::Graph(n.clone(), permute_bgps(x, r)),
            P::Sub(s) => P::Sub(Box::new(Select { group: permute_bgps(&s.group, r), ..(**s).clone() })),
            other => other.clone(),
        })
        .collect()
}

fn max_bgp(g: &[P]) -> usize {
    g.iter()
        .map(|p| match p {
            P::Bgp(ts) => ts.len(),
            P::Group(x) | P::Graph(_, x) => max_bgp(x),
            P::Union(bs) => bs.iter().map(|b| max_bgp(b)).max().unwrap_or(0),
            P::Sub(s) => max_bgp(&s.group),
            _ => 0,
        })
        .max()
        .unwrap_or(0)
}

fn adversarial_stats(db: &SparqlDatabase, r: &mut Rng) -> DatabaseStats {
    let mut st = DatabaseStats::new();
    let big = |r: &mut Rng| -> u64 { *r.pick(&[0u64, 1, 2, 17, 1_000, 100_000, 10_000_000]) };
    st.total_triples = big(r);
    st.named_graph_count = big(r);
    st.distinct_subjects = big(r);
    st.distinct_objects = big(r);
    let ids: Vec<u32> = db.dictionary.read().unwrap().id_to_string.keys().copied().collect();
    for id in ids {
        if r.coin() {
            st.predicate_cardinalities.insert(id, big(r));
        }
        if r.coin() {
            st.subject_cardinalities.insert(id, big(r));
        }
        if r.coin() {
            st.object_cardinalities.insert(id, big(r));
        }
        if r.coin() {
            st.predicate_distinct_subjects.insert(id, big(r));
        }
        if r.coin() {
            st.predicate_distinct_objects.insert(id, big(r));
        }
        if r.chance(1, 3) {
            st.graph_cardinalities.insert(GraphId::Named(id), big(r));
        }
    }
    if r.coin() {
        st.graph_cardinalities.insert(GraphId::Default, big(r));
    }
    st
}

struct Case<'a> {
    snap: &'a Dataset,
    text: String,
}

fn witness(c: &Case, variant: &str, extra: Value, base: &Bag, got: &Bag) -> Value {
    let only_base: Vec<&String> = base.keys().filter(|k| got.get(*k) != base.get(*k)).take(4).collect();
    let only_got: Vec<&String> = got.keys().filter(|k| got.get(*k) != base.get(*k)).take(4).collect();
    json!({"query": c.text, "dataset": c.snap.to_json(), "variant": variant, "variant_detail": extra,
        "baseline_rows": base.values().sum::<usize>(), "variant_rows": got.values().sum::<usize>(),
        "rows_with_different_multiplicity_in_baseline": only_base, "rows_with_different_multiplicity_in_variant": only_got})
}

/// `OUTER . { [pattern] PARTIAL-BINDER-OF-?x FILTER/BIND-on-?x }` in random element orders.
fn correlation_template(r: &mut Rng, n_ent: usize, n_pred: usize) -> Vec<P> {
    let e = |r: &mut Rng| T::Const(ds::ent(r.below(n_ent)));
    let p = |r: &mut Rng| T::Const(ds::pred(r.below(n_pred)));
    let v = |s: &str| T::Var(s.to_string());
    let outer = match r.below(3) {
        0 => P::Bgp(vec![(v("a"), p(r), v("x"))]),
        1 => P::Bgp(vec![(v("x"), p(r), v("b"))]),
        _ => P::Values(vec!["x".into()], vec![vec![Some(ds::ent(r.below(n_ent)))], vec![Some(ds::ent(r.below(n_ent)))]]),
    };
    let partial = match r.below(4) {
        0 => P::Union(vec![vec![P::Bgp(vec![(v("a"), p(r), v("x"))])], vec![P::Bgp(vec![(v("a"), p(r), v("y"))])]]),
        1 => P::Union(vec![vec![P::Bgp(vec![(v("x"), p(r), v("c"))])], vec![]]),
        2 => P::Values(vec!["x".into()], vec![vec![None], vec![Some(ds::ent(r.below(n_ent)))]]),
        _ => P::Union(vec![vec![P::Values(vec!["x".into()], vec![vec![Some(ds::ent(r.below(n_ent)))]])], vec![P::Bgp(vec![(v("a"), p(r), v("c"))])]]),
    };
    let probe = match r.below(4) {
        0 => P::Filter(Expr::Cmp("x".into(), "=", e(r))),
        1 => P::Filter(Expr::Cmp("x".into(), "!=", e(r))),
        2 => P::Filter(Expr::Or(Box::new(Expr::Cmp("x".into(), "=", e(r))), Box::new(Expr::Cmp("x".into(), "=", e(r))))),
        _ => P::Bind(vec![BindArg::Str("#".into()), BindArg::Var("x".into())], "cx".into()),
    };
    let mut inner: Vec<P> = vec![];
    if r.coin() {
        inner.push(P::Bgp(vec![(v("a"), p(r), v("v"))]));
    }
    inner.push(partial);
    // a BIND must come after what it reads; a FILTER may stand anywhere in its group
    if matches!(probe, P::Filter(_)) {
        let pos = r.below(inner.len() + 1);
        inner.insert(pos, probe);
    } else {
        inner.push(probe);
    }
    if r.chance(1, 3) {
        inner.push(P::Bgp(vec![(v("a"), p(r), v("w"))]));
    }
    if r.coin() {
        vec![outer, P::Group(inner)]
    } else {
        vec![P::Group(inner), outer]
    }
}

/// The engine-side dataset view of a query: the database's own dataset, or the FROM /
/// FROM NAMED replacement (graph names encoded through the database dictionary).
fn dataset_view(db: &SparqlDatabase, from: &[String], from_named: &[String]) -> DatasetView {
    if from.is_empty() && from_named.is_empty() {
        return DatasetView::from_database(db);
    }
    let enc = |g: &String| GraphId::Named(db.dictionary.write().unwrap().encode(g));
    DatasetView::new(from.iter().map(enc).collect::<Vec<_>>(), from_named.iter().map(enc).collect::<Vec<_>>())
}

fn run(ctx: &mut Ctx) {
    let total = ctx.by_tier(12_000, 1_500_000);
    let pools: Vec<rayon::ThreadPool> = [1usize, 2, 3, 4, 8, 16].iter().map(|n| rayon::ThreadPoolBuilder::new().num_threads(*n).build().expect("pool")).collect();
    ctx.phase("metamorphic", total);
    while let Some(k) = ctx.next_case() {
        let mut r = ctx.rng(k);
        let big = r.chance(1, 5);
        let vocab = if big { Vocab { n_ent: r.range(10, 25), n_pred: r.range(2, 4), n_graph: r.range(0, 2), n_num: r.range(4, 10), n_word: 3 } } else { ds::small_vocab(&mut r) };
        let nq = if big { r.range(150, 400) } else { r.range(3, 40) };
        let data = ds::gen_dataset(&mut r, &vocab, nq);
        // load one half, gather statistics (these become the STALE ones), then add the other
        // half through add_quad, which does not invalidate cached statistics
        let mut first = data.clone();
        let all: Vec<ds::LQuad> = data.quads.iter().cloned().collect();
        let mut second: Vec<ds::LQuad> = vec![];
        for qd in &all {
            if r.coin() {
                first.quads.remove(qd);
                second.push(qd.clone());
            }
        }
        let Ok(Ok(mut db)) = guard(|| ds::load(&first, Route::Direct)) else {
            ctx.inconclusive("dataset could not be loaded");
            continue;
        };
        let stale = Arc::new(DatabaseStats::gather_stats_fast(&db));
        ds::add_direct(&mut db, &second);
        let Ok(snap) = ds::snapshot(&db) else { continue };
        let dh = snap.hash();
        for qi in 0..3u64 {
            let mut rq = ctx.rng_labeled("query", k * 8 + qi);
            let mut g = Gen::new(&mut rq, &snap, vocab.n_ent, vocab.n_pred, vocab.n_num);
            g.allow_edge = false;
            g.max_depth = if big { 1 } else { 2 };
            g.max_top = if big { 2 } else { 3 };
            g.max_nested = if big { 1 } else { 2 };
            g.allow_empty = !big;
            let (mut group, _) = g.gen_group(0, true);
            // 1 query in 6: a template aimed at the bind-join admissibility rule - an outer pattern
            // that binds ?x next to a nested group whose FILTER / BIND mentions ?x while the
            // group itself binds ?x only in some of its solutions
            if qi == 0 && !big {
                let mut rt = ctx.rng_labeled("template", k);
                if rt.coin() {
                    group = correlation_template(&mut rt, vocab.n_ent, vocab.n_pred);
                    ctx.count("queries_from_correlation_templates", 1);
                }
            }
            // 1 query in 3 replaces the dataset: a default graph MERGED from several named graphs
            // (the same triple may sit in more than one of them) and an explicit named-graph set
            let mut from: Vec<String> = vec![];
            let mut from_named: Vec<String> = vec![];
            let catalog: Vec<String> = snap.graphs.iter().cloned().collect();
            if !catalog.is_empty() && rq.chance(1, 3) {
                let n = rq.range(1, 3);
                for _ in 0..n {
                    from.push(rq.pick(&catalog).clone());
                }
                if rq.chance(1, 4) {
                    from.push(ds::graph(9)); // a graph without identity contributes nothing
                }
                for _ in 0..rq.range(0, 2) {
                    from_named.push(rq.pick(&catalog).clone());
                }
            }
            let replaced_dataset = !from.is_empty() || !from_named.is_empty();
            let q = Select { distinct: false, proj: Proj::Star, from: from.clone(), from_named: from_named.clone(), group, group_by: vec![], order: vec![], limit: None };
            let text = print_select(&q, &Style::default());
            let case = Case { snap: &snap, text: text.clone() };
            // ---- oracle
            let ev = Ev::new(&snap, &q);
            let Ok(oracle_rows) = ev.eval_group(&q.group, &None) else {
                ctx.count("skipped_oracle_answer_too_big", 1);
                continue;
            };
            if oracle_rows.len() > 20_000 {
                ctx.count("skipped_answer_over_20000_rows", 1);
                continue;
            }
            let oracle = bag_of_rows(&oracle_rows);
            // ---- baseline: parse, lower, optimise with fresh statistics, execute
            let lowered = guard(|| -> Result<(LogicalOperator, PhysicalOperator, Vec<Row>), String> {
                let (_, combined) = parse_combined_query(&text).map_err(|e| format!("parse: {:?}", e))?;
                let Some(SparqlOperation::Select(sel)) = combined.sparql.as_ref() else { return Err("not a select".into()) };
                let logical = build_logical_plan_from_group(&sel.pattern, &combined.prefixes, &mut db)?;
                let view = dataset_view(&db, &from, &from_named);
                let stats = Arc::new(DatabaseStats::gather_stats_fast(&db));
                let mut opt = Streamertail::with_cached_stats_and_dataset(stats, view.clone());
                let plan = opt.find_best_plan(&logical);
                let rows = ExecutionEngine::execute_with_ids_and_dataset(&plan, &mut db, &view);
                let rows = decode_bindings(&db, &rows);
                Ok((logical, plan, rows))
            });
            ctx.add_evals(1);
            let (logical, plan, base_rows) = match lowered {
                Ok(Ok(x)) => x,
                Ok(Err(e)) => {
                    ctx.violation(json!({"kind": "generated_query_rejected"}), json!({"error": e, "query": text}));
                    continue;
                }
                Err(e) => {
                    ctx.violation(json!({"kind": "panic", "stage": "baseline", "site": panic_site(&e)}), json!({"panic": e, "query": text, "dataset": snap.to_json()}));
                    continue;
                }
            };
            let base = bag_of_rows(&base_rows);
            let mut oracle_is_baseline = false;
            if base != oracle {
                // Not this property's business when it is the recorded C01 finding (the graph
                // variable is bound before the filters of its own GRAPH block): the plans are
                // then compared with one another, with the baseline as the reference.
                let prebound = kvk::msparql::Sem { graph_variable_prebound: true, ..Default::default() };
                if let Ok(alt) = Ev::with_sem(&snap, &q, prebound).eval_group(&q.group, &None) {
                    if bag_of_rows(&alt) == base {
                        ctx.count("baseline_shows_the_recorded_c01_finding(graph_variable_prebound)_plans_compared_among_themselves", 1);
                        oracle_is_baseline = true;
                    }
                }
            }
            let oracle = if oracle_is_baseline { base.clone() } else { oracle };
            if base != oracle {
                ctx.violation(json!({"kind": "baseline_plan_differs_from_sparql_algebra"}), witness(&case, "baseline (optimizer's own plan, fresh statistics)", json!({"plan": format!("{:?}", plan).chars().take(1500).collect::<String>()}), &oracle, &base));
                continue;
            }
            op_histogram(&plan, ctx);
            let mut plans_seen: std::collections::BTreeSet<u64> = std::collections::BTreeSet::new();
            plans_seen.insert(hash_str(&format!("{:?}", plan)));
            let nj = count_joins(&plan);
            ctx.max("max_join_nodes_in_a_plan", nj as u64);
            let view = dataset_view(&db, &from, &from_named);
            let mut failed = false;
            // one re-assigned plan that agreed in the ambient pool: also run at every pool size
            let mut sampled_plan: Option<PhysicalOperator> = None;

            // ---- 3. join algorithm assignments (+ scan swap, star expansion)
            if nj > 0 {
                let all: u64 = 3u64.pow(nj.min(12) as u32);
                let exhaustive_k = ctx.by_tier(4, 5);
                let budget = if big { all.min(ctx.by_tier(12, 48)) } else if nj <= exhaustive_k { all } else { ctx.by_tier(81, 243) };
                for ai in 0..budget {
                    if !ctx.time_left() {
                        break;
                    }
                    let code = if !big && nj <= exhaustive_k { ai } else { rq.next_u64() % all };
                    let mut assign = vec![0u8; nj];
                    let mut c = code;
                    for a in assign.iter_mut() {
                        *a = (c % 3) as u8;
                        c /= 3;
                    }
                    if nj > 12 {
                        for a in assign.iter_mut() {
                            *a = rq.below(3) as u8;
                        }
                    }
                    let mut p2 = plan.clone();
                    let mut idx = 0;
                    if !assign_joins(&mut p2, &assign, &mut idx) {
                        ctx.count("join_assignments_skipped_bind_join_not_a_candidate", 1);
                        continue;
                    }
                    if rq.chance(1, 4) {
                        ctx.count("plans_with_scan_kinds_swapped", swap_scans(&mut p2).min(1) as u64);
                    }
                    if rq.chance(1, 3) {
                        ctx.count("plans_with_star_join_expanded", expand_stars(&mut p2, &mut rq).min(1) as u64);
                    }
                    ctx.add_evals(1);
                    let res = guard(|| { let rows = ExecutionEngine::execute_with_ids_and_dataset(&p2, &mut db, &view); decode_bindings(&db, &rows) });
                    match res {
                        Err(e) => {
                            ctx.violation(json!({"kind": "panic", "stage": "rewritten_plan", "site": panic_site(&e)}), json!({"panic": e, "query": text, "assignment": assign}));
                            failed = true;
                            break;
                        }
                        Ok(rows) => {
                            plans_seen.insert(hash_str(&format!("{:?}", p2)));
                            op_histogram(&p2, ctx);
                            let b = bag_of_rows(&rows);
                            if b == base && (sampled_plan.is_none() || rq.chance(1, 4)) {
                                sampled_plan = Some(p2.clone());
                            }
                            if b != base {
                                let names: Vec<&str> = assign.iter().map(|a| ["bind", "hash", "nested_loop"][*a as usize]).collect();
                                ctx.violation(json!({"kind": "answer_depends_on_plan", "variant": "join_algorithm_assignment"}), witness(&case, "join algorithms re-assigned (pre-order)", json!({"assignment": names, "plan": format!("{:?}", p2).chars().take(2000).collect::<String>()}), &base, &b));
                                failed = true;
                                break;
                            }
                        }
                    }
                }
            } else {
                // no join: still exercise scan swap / star expansion
                let mut p2 = plan.clone();
                let s = swap_scans(&mut p2) + expand_stars(&mut p2, &mut rq);
                if s > 0 {
                    ctx.add_evals(1);
                    if let Ok(rows) = guard(|| { let rows = ExecutionEngine::execute_with_ids_and_dataset(&p2, &mut db, &view); decode_bindings(&db, &rows) }) {
                        plans_seen.insert(hash_str(&format!("{:?}", p2)));
                        op_histogram(&p2, ctx);
                        let b = bag_of_rows(&rows);
                        if b != base {
                            ctx.violation(json!({"kind": "answer_depends_on_plan", "variant": "scan_kind_or_star_expansion"}), witness(&case, "scan kinds swapped / star join expanded", json!({"plan": format!("{:?}", p2).chars().take(2000).collect::<String>()}), &base, &b));
                            failed = true;
                        }
                    }
                }
            }
            if failed {
                continue;
            }

            // ---- 4. thread pools (same plan, and one random admissible re-assignment)
            if big || base_rows.len() > 64 {
                for (pi, pool) in pools.iter().enumerate() {
                    let n = [1, 2, 3, 4, 8, 16][pi];
                    ctx.add_evals(1);
                    if let Some(p2) = &sampled_plan {
                        let res2 = guard(|| pool.install(|| decode_bindings(&db, &ExecutionEngine::execute_with_ids_and_context(p2, &db, &kolibrie::streamertail_optimizer::ExecutionContext::new(view.clone())))));
                        match res2 {
                            Err(e) => {
                                ctx.violation(json!({"kind": "panic", "stage": "thread_pool_reassigned_plan", "site": panic_site(&e)}), json!({"panic": e, "query": text, "threads": n}));
                                failed = true;
                                break;
                            }
                            Ok(rows) => {
                                ctx.count(&format!("reassigned_plan_executions_in_pool_of.{:02}_threads", n), 1);
                                let b = bag_of_rows(&rows);
                                if b != base {
                                    ctx.violation(json!({"kind": "answer_depends_on_plan", "variant": "thread_pool_size_with_reassigned_joins"}), witness(&case, "thread pool size, join algorithms re-assigned", json!({"threads": n, "plan": format!("{:?}", p2).chars().take(2000).collect::<String>()}), &base, &b));
                                    failed = true;
                                    break;
                                }
                            }
                        }
                    }
                    let res = guard(|| pool.install(|| decode_bindings(&db, &ExecutionEngine::execute_with_ids_and_context(&plan, &db, &kolibrie::streamertail_optimizer::ExecutionContext::new(view.clone())))));
                    match res {
                        Err(e) => {
                            ctx.violation(json!({"kind": "panic", "stage": "thread_pool", "site": panic_site(&e)}), json!({"panic": e, "query": text, "threads": n}));
                            failed = true;
                            break;
                        }
                        Ok(rows) => {
                            ctx.count(&format!("executions_in_pool_of.{:02}_threads", n), 1);
                            let b = bag_of_rows(&rows);
                            if b != base {
                                ctx.violation(json!({"kind": "answer_depends_on_plan", "variant": "thread_pool_size"}), witness(&case, "thread pool size", json!({"threads": n}), &base, &b));
                                failed = true;
                                break;
                            }
                        }
                    }
                }
            }
            if failed {
                continue;
            }

            // ---- 2. statistics variants (optimizer re-run on the same logical plan)
            let adv = Arc::new(adversarial_stats(&db, &mut rq));
            let variants: Vec<(&str, Arc<DatabaseStats>)> = vec![("stale", stale.clone()), ("empty", Arc::new(DatabaseStats::new())), ("adversarial", adv)];
            for (name, st) in variants {
                ctx.add_evals(1);
                let res = guard(|| {
                    let mut opt = Streamertail::with_cached_stats_and_dataset(st.clone(), view.clone());
                    let p = opt.find_best_plan(&logical);
                    let rows = ExecutionEngine::execute_with_ids_and_dataset(&p, &mut db, &view);
                    (p, decode_bindings(&db, &rows))
                });
                match res {
                    Err(e) => {
                        ctx.violation(json!({"kind": "panic", "stage": format!("statistics_{}", name), "site": panic_site(&e)}), json!({"panic": e, "query": text, "statistics": name, "dataset": snap.to_json()}));
                        failed = true;
                        break;
                    }
                    Ok((p, rows)) => {
                        ctx.count(&format!("optimizer_runs_with_statistics.{}", name), 1);
                        if plans_seen.insert(hash_str(&format!("{:?}", p))) {
                            ctx.count("statistics_variant_changed_the_plan", 1);
                        }
                        op_histogram(&p, ctx);
                        let b = bag_of_rows(&rows);
                        if b != base {
                            ctx.violation(json!({"kind": "answer_depends_on_plan", "variant": format!("statistics_{}", name)}), witness(&case, "statistics", json!({"statistics": name, "plan": format!("{:?}", p).chars().take(2000).collect::<String>()}), &base, &b));
                            failed = true;
                            break;
                        }
                    }
                }
            }
            if failed {
                continue;
            }
            // the same through the text path with the cache poisoned (the cache that mutation APIs do not invalidate)
            {
                db.cached_stats = Some(stale.clone());
                ctx.add_evals(1);
                match guard(|| execute_sparql_query(&text, &mut db)) {
                    Ok(Ok(rows)) => {
                        let cols = q.columns();
                        let rws: Vec<Row> = rows.iter().map(|r| cols.iter().zip(r.iter()).filter(|(_, v)| !v.is_empty()).map(|(c, v)| (c.clone(), v.clone())).collect()).collect();
                        let b = bag_of_rows(&rws);
                        ctx.count("text_path_runs_with_stale_cached_stats", 1);
                        if b != base {
                            ctx.violation(json!({"kind": "answer_depends_on_plan", "variant": "stale_cached_stats_text_path"}), witness(&case, "execute_sparql_query with stale cached_stats", json!({}), &base, &b));
                        }
                    }
                    Ok(Err(e)) => ctx.violation(json!({"kind": "generated_query_rejected"}), json!({"error": e, "query": text})),
                    Err(e) => ctx.violation(json!({"kind": "panic", "stage": "text_path_stale", "site": panic_site(&e)}), json!({"panic": e, "query": text})),
                }
                db.cached_stats = None;
            }

            // ---- 1. BGP permutations through the text path
            let mb = max_bgp(&q.group);
            if mb >= 2 {
                let nperm = if mb <= 4 { (1..=mb).product::<usize>().min(24) } else { 24 };
                let mut seen_texts = std::collections::BTreeSet::new();
                seen_texts.insert(text.clone());
                for _ in 0..nperm * 2 {
                    if seen_texts.len() > nperm || !ctx.time_left() {
                        break;
                    }
                    let g2 = permute_bgps(&q.group, &mut rq);
                    let q2 = Select { group: g2, ..q.clone() };
                    let t2 = print_select(&q2, &Style::default());
                    if !seen_texts.insert(t2.clone()) {
                        continue;
                    }
                    ctx.add_evals(1);
                    match guard(|| execute_sparql_query(&t2, &mut db)) {
                        Ok(Ok(rows)) => {
                            let cols = q2.columns();
                            let rws: Vec<Row> = rows.iter().map(|r| cols.iter().zip(r.iter()).filter(|(_, v)| !v.is_empty()).map(|(c, v)| (c.clone(), v.clone())).collect()).collect();
                            let b = bag_of_rows(&rws);
                            ctx.count("bgp_permutations_executed", 1);
                            if b != base {
                                ctx.violation(json!({"kind": "answer_depends_on_plan", "variant": "triple_pattern_order"}), witness(&case, "triple patterns permuted", json!({"permuted_query": t2}), &base, &b));
                                break;
                            }
                        }
                        Ok(Err(e)) => {
                            ctx.violation(json!({"kind": "generated_query_rejected"}), json!({"error": e, "query": t2}));
                            break;
                        }
                        Err(e) => {
                            ctx.violation(json!({"kind": "panic", "stage": "permutation", "site": panic_site(&e)}), json!({"panic": e, "query": t2}));
                            break;
                        }
                    }
                }
            }

            ctx.count("distinct_physical_plans_executed", plans_seen.len() as u64);
            ctx.max("max_distinct_plans_for_one_query", plans_seen.len() as u64);
            if replaced_dataset {
                ctx.count("queries_with_replaced_dataset(merged_default_graph)", 1);
            }
            if !base.is_empty() && nj >= 1 && plans_seen.len() >= 2 {
                ctx.nontrivial(hash_str(&format!("{}#{}", text, dh)));
            }
            if ctx.wants_sample() && !base.is_empty() && nj >= 2 {
                ctx.sample(json!({"query": text, "dataset_quads": snap.quads.len(), "join_nodes": nj, "distinct_plans_executed": plans_seen.len(), "answer_rows": base_rows.len(), "chosen_plan": format!("{:?}", plan).chars().take(600).collect::<String>()}));
            }
        }
    }
}

fn main() {
    let mut spec = Spec::new("C02", "exploration", RULE);
    spec.assumptions = &[
        "a bind join is only substituted where the optimizer itself chose one or where the right side contains no FILTER/BIND/projection; the property quantifies over the candidates the optimizer considers",
        "adversarial statistics are kept <= 10^7 so that cost arithmetic cannot overflow; overflow is a crash observation of its own",
        "queries are SELECT * over generated group patterns of the C01 core class (no constructs whose SPARQL error semantics differ from lexical evaluation)",
        "thread schedules inside rayon are not controlled; pool sizes 1,2,3,4,8,16 and run-to-run repetition only",
    ];
    spec.quick_budget_s = 40;
    spec.thorough_budget_s = 900;
    kvcore::run(spec, run);
}
