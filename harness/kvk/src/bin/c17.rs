//! C17 — Query entry points cannot modify data; string entry points fail cleanly.
//!
//! Events: for every request text x entry point x database state, the verdict of a
//! crash-isolated `kworker` process: result kind (Ok / Err), the lexical snapshot of the
//! database (all quads + named-graph catalog, `kvk::ds::snapshot`) before and after the
//! call, a caught panic, or the death of the process.
//! Oracle: snapshot equality for the query-only entry points and for every SELECT;
//! an update operation sent to a query entry point is refused; a request the parser
//! rejects (strict grammar; for `handle_update` also the legacy-alias grammar) is answered
//! with an error value and leaves the data alone; nothing panics or kills the process.

#[allow(dead_code)]
#[path = "c16.rs"]
mod corpus;

use corpus::{char_offsets, clip, gen_printed, layout, mutate, random_style, stable_site, Pool, Reply, Style, EXT_SEEDS, MB, SWEEP_SEEDS};
use kvcore::{hash_str, json, Ctx, Rng, Spec, Value};

const RULE: &str = "Each case = one request text (generated SELECT / six update forms / legacy aliases printed with random layout and term spellings; mutations of those and of the extension seeds; hand-written hostile requests; syntax errors whose reported slice is not a suffix of the input followed by multi-byte text; multi-byte characters at every offset, among them characters whose case mapping changes their UTF-8 length; deep nesting) x one database state of {empty, small, named+empty graphs, cached statistics, stored prefixes} x the entry points execute_sparql_query, HTTP GET / POST query adapters, execute_sparql_update, SparqlDatabase::execute_update, handle_update, HTTP update adapters and the legacy volcano entry point; the database is snapshotted before and after every call inside the worker. Non-trivial = a request that reached a query entry point on a non-empty database and is an update operation, a SELECT, or a malformed text whose error lies past offset 0; distinct by hash of (state, api, text).";

const QUERY_APIS: [&str; 4] = ["query", "http_get", "http_post_query", "http_post_form_query"];
const STATES: [&str; 5] = ["empty", "small", "graphs", "stats", "prefixes"];

#[derive(Clone, Debug, PartialEq)]
enum Class {
    /// rejected by the parser: true start of the reported slice, its length, and whether it is a suffix
    Malformed { pos: i64, len: i64, suffix: bool },
    Select,
    Update,
    ExtensionOnly,
    /// the classifying parse itself crashed: nothing is expected but survival
    Unknown,
}

impl Class {
    fn name(&self) -> &'static str {
        match self {
            Class::Malformed { .. } => "malformed",
            Class::Select => "select",
            Class::Update => "update",
            Class::ExtensionOnly => "extension_only",
            Class::Unknown => "unclassified",
        }
    }
}

fn classify(pool: &mut Pool, entry: &str, text: &str) -> Class {
    classify_ext(pool, entry, text).0
}

/// class + the extension clauses present in the request
fn classify_ext(pool: &mut Pool, entry: &str, text: &str) -> (Class, Vec<String>) {
    let r = pool.ask(entry, true, text);
    let ext: Vec<String> = match &r {
        Reply::Ok { dump: Some(d), .. } => d["ext"].as_object().map(|m| m.keys().cloned().collect()).unwrap_or_default(),
        _ => vec![],
    };
    (classify_reply(r), ext)
}

fn classify_reply(r: Reply) -> Class {
    match r {
        Reply::Ok { dump, .. } => {
            let d = dump.unwrap_or(Value::Null);
            if d["sparql"].get("update").is_some() {
                Class::Update
            } else if d["sparql"].get("select").is_some() {
                Class::Select
            } else {
                Class::ExtensionOnly
            }
        }
        Reply::Err { pos, len, wher, .. } => Class::Malformed { pos, len, suffix: wher == "suffix" },
        _ => Class::Unknown,
    }
}

struct Req<'a> {
    text: &'a str,
    state: String,
    strict: Class,
    alias: Class,
    origin: &'a str,
    /// extension clauses of the request (RULE, MODEL, NEURAL RELATION, …)
    ext: Vec<String>,
}

fn crash(ctx: &mut Ctx, api: &str, rq: &Req, r: &Reply) {
    let w = json!({"api": api, "state": rq.state, "request": clip(rq.text, 1200), "request_len": rq.text.len(), "request_class": rq.strict.name(), "origin": rq.origin});
    match r {
        Reply::Panic(msg) => {
            ctx.count("panics", 1);
            let mut w = w;
            w["panic"] = json!(clip(msg, 500));
            let site = stable_site(msg);
            // a panic of the error renderer: establish from the parser's own error value which
            // of the two offset computations put a byte offset inside a character
            let mut sig = json!({"kind": "panic", "site": site});
            if site.contains("error_handler.rs") || site.contains("annotate-snippets") {
                if let Class::Malformed { pos, len, suffix } = rq.strict {
                    let used = rq.text.len() as i64 - len; // format_parse_error: input.len() - error.input.len()
                    w["offset_used_by_the_renderer"] = json!(used);
                    w["true_offset_of_the_error_slice"] = json!(pos);
                    let cause = if len < 0 || used < 0 {
                        "not_established"
                    } else if !rq.text.is_char_boundary(used as usize) {
                        if suffix {
                            "not_established"
                        } else {
                            "offset_measured_from_the_end_of_the_input_although_the_error_slice_is_not_a_suffix"
                        }
                    } else if rq.text[used as usize..].chars().next().map(|c| c.len_utf8() > 1).unwrap_or(false) {
                        "one_byte_annotation_span_ends_inside_a_multibyte_character"
                    } else {
                        "not_established"
                    };
                    sig["cause"] = json!(cause);
                }
            }
            ctx.violation(sig, w);
        }
        Reply::Died { signal, code, stderr, .. } => {
            ctx.count("worker_deaths", 1);
            let cause = if stderr.contains("overflowed its stack") { "stack_overflow".to_string() } else if let Some(s) = signal { format!("signal_{}", s) } else { format!("exit_code_{:?}_without_verdict", code) };
            let mut w = w;
            w["stderr"] = json!(clip(stderr, 300));
            ctx.violation(json!({"kind": "process_death", "cause": cause, "api_family": family(api)}), w);
        }
        Reply::Timeout => {
            ctx.count("worker_timeouts", 1);
            ctx.inconclusive(&format!("worker did not answer within the watchdog: api {} on a request of {} bytes", api, rq.text.len()));
        }
        Reply::Bad(m) => ctx.inconclusive(&format!("worker protocol problem: {}", clip(m, 200))),
        _ => {}
    }
}

fn family(api: &str) -> &'static str {
    if QUERY_APIS.contains(&api) {
        "query"
    } else if api == "volcano" {
        "legacy"
    } else {
        "update"
    }
}

/// one request through one entry point, judged
fn judge(ctx: &mut Ctx, pool: &mut Pool, api: &str, rq: &Req) {
    ctx.add_evals(1);
    ctx.count(&format!("calls.{}", api), 1);
    ctx.count(&format!("calls_by_class.{}.{}", family(api), rq.strict.name()), 1);
    let r = pool.exec(api, &rq.state, rq.text);
    let Reply::Res(v) = &r else {
        crash(ctx, api, rq, &r);
        return;
    };
    if let Some(e) = v.get("snapshot_error") {
        ctx.violation(json!({"kind": "database_not_decodable_after_request", "api_family": family(api)}), json!({"api": api, "state": rq.state, "request": clip(rq.text, 1200), "error": e}));
        return;
    }
    ctx.count("snapshots_compared", 1);
    let ok = v["result"] == "ok";
    let changed = v["changed"].as_bool().unwrap_or(false);
    ctx.count(&format!("results.{}.{}", family(api), if ok { "ok" } else { "err" }), 1);
    let w = || json!({"api": api, "state": rq.state, "request": clip(rq.text, 1200), "request_class": rq.strict.name(), "class_with_legacy_aliases": rq.alias.name(), "origin": rq.origin, "result": v["result"], "result_text": v["text"], "diff": v["diff"]});
    if v["prefixes_before"] != v["prefixes_after"] {
        ctx.count(&format!("observation.prefix_table_changed.{}", family(api)), 1);
    }
    match family(api) {
        "query" => {
            if changed {
                // established from the request and the difference: are all new quads predictions of a
                // NEURAL RELATION declared in the request, nothing removed, catalog untouched?
                let neural = rq.ext.iter().any(|k| k == "neural_relations");
                let only_added = v["diff"]["quads_removed"].as_array().map(|a| a.is_empty()).unwrap_or(false) && v["diff"]["graphs_added"].as_array().map(|a| a.is_empty()).unwrap_or(false) && v["diff"]["graphs_removed"].as_array().map(|a| a.is_empty()).unwrap_or(false);
                let cause = if neural && only_added { "predictions_of_a_neural_relation_declared_in_the_request_are_stored_as_quads" } else { "not_established" };
                ctx.violation(json!({"kind": "data_changed_through_query_entry_point", "request_class": rq.strict.name(), "cause": cause}), w());
            }
            match rq.strict {
                Class::Update => {
                    ctx.count("updates_sent_to_query_entry_points", 1);
                    if ok {
                        ctx.violation(json!({"kind": "update_operation_accepted_by_query_entry_point", "api": api}), w());
                    } else {
                        ctx.count("updates_refused_by_query_entry_points", 1);
                    }
                }
                Class::Malformed { .. } => {
                    if ok {
                        ctx.violation(json!({"kind": "malformed_request_answered_ok", "api": api}), w());
                    } else {
                        ctx.count("malformed_requests_answered_with_an_error", 1);
                    }
                }
                Class::Select => {
                    if ok {
                        ctx.count("selects_answered", 1);
                    } else {
                        ctx.count("selects_answered_with_an_error", 1);
                    }
                }
                _ => {}
            }
        }
        "update" => {
            // the strict entry points; handle_update and the HTTP update adapters also try the alias grammar
            let lenient = matches!(api, "handle_update" | "http_post_update" | "http_post_form_update");
            let class = if lenient && rq.strict != Class::Update { &rq.alias } else { &rq.strict };
            match class {
                Class::Update => {
                    if changed {
                        ctx.count("updates_that_changed_the_data", 1);
                    }
                    if !ok && changed {
                        ctx.violation(json!({"kind": "failed_request_modified_data", "api": api, "request_class": "update"}), w());
                    }
                }
                Class::Unknown => {}
                other => {
                    if ok {
                        ctx.violation(json!({"kind": if *other == Class::Select { "select_accepted_by_update_entry_point" } else { "malformed_request_answered_ok" }, "api": api}), w());
                    } else {
                        ctx.count("non_updates_refused_by_update_entry_points", 1);
                    }
                    if changed {
                        ctx.violation(json!({"kind": if *other == Class::Select { "select_modified_data" } else { "failed_request_modified_data" }, "api": api, "request_class": other.name()}), w());
                    }
                }
            }
        }
        _ => {
            // legacy entry point: only "a SELECT never changes data" and survival are demanded
            if rq.alias == Class::Select && changed {
                ctx.violation(json!({"kind": "select_modified_data", "api": api, "request_class": "select"}), w());
            }
        }
    }
}

/// a request through a representative set of entry points
fn drive(ctx: &mut Ctx, pool: &mut Pool, r: &mut Rng, text: &str, state: &str, origin: &str, all: bool) {
    let (strict, ext) = classify_ext(pool, "combined", text);
    let alias = classify(pool, "combined_alias", text);
    ctx.add_evals(2);
    for e in &ext {
        ctx.count(&format!("requests_with_extension_clause.{}", e), 1);
    }
    ctx.count(&format!("request_classes.{}", strict.name()), 1);
    if strict != alias {
        ctx.count("requests_only_valid_with_legacy_aliases", 1);
    }
    let rq = Req { text, state: state.to_string(), strict: strict.clone(), alias, origin, ext };
    let mut apis: Vec<&str> = vec!["query"];
    if all {
        apis.extend(["http_get", "http_post_query", "http_post_form_query", "update", "db_update", "handle_update", "http_post_update", "http_post_form_update", "volcano"]);
    } else {
        apis.push(*r.pick(&QUERY_APIS[1..]));
        apis.push(*r.pick(&["update", "db_update"]));
        apis.push(*r.pick(&["handle_update", "handle_update", "http_post_update", "http_post_form_update"]));
        if r.chance(1, 4) {
            apis.push("volcano");
        }
    }
    for api in apis {
        // a raw POST body is cut at the first blank line by the adapter itself: not the request any more
        if matches!(api, "http_post_query" | "http_post_update") && text.contains("\r\n\r\n") {
            continue;
        }
        judge(ctx, pool, api, &rq);
    }
    let nonempty = !state.starts_with("empty");
    let interesting = match strict {
        Class::Update | Class::Select => true,
        Class::Malformed { pos, .. } => pos > 0,
        _ => false,
    };
    if nonempty && interesting {
        ctx.nontrivial(hash_str(&format!("{}|{}", state, text)));
    }
}

fn pick_state(r: &mut Rng) -> String {
    format!("{}:{}", r.pick(&STATES), r.range(1, 3))
}

const HOSTILE: [&str; 28] = [
    "SELECT * WHERE { ?s x!y:c ?o } #é€",
    "INSERT DATA { <http://k/e1> <http://k/p1> <http://k/e2> }",
    "insert data { <http://k/e1> <http://k/p1> <http://k/e2> }",
    "# a comment first\nINSERT DATA { <http://k/e1> <http://k/p1> <http://k/e2> }",
    "PREFIX k: <http://k/> INSERT DATA { k:e1 k:p1 k:e2 . GRAPH k:g9 { k:e1 k:p1 3 } }",
    "INSERT { <http://k/e1> <http://k/p1> <http://k/e2> }",
    "DELETE { <http://k/e1> <http://k/p1> <http://k/e2> }",
    "DELETE WHERE { ?s ?p ?o }",
    "DELETE WHERE { GRAPH ?g { ?s ?p ?o } }",
    "DELETE DATA { <http://k/e1> <http://k/p1> <http://k/e2> }",
    "DELETE { ?s ?p ?o } WHERE { ?s ?p ?o }",
    "DELETE { ?s ?p ?o } INSERT { ?o ?p ?s } WHERE { ?s ?p ?o }",
    "INSERT { ?s <http://k/p9> ?o } WHERE { ?s ?p ?o }",
    "SELECT * WHERE { ?s ?p ?o } INSERT DATA { <http://k/e1> <http://k/p1> <http://k/e2> }",
    "SELECT * WHERE { ?s ?p ?o } ; INSERT DATA { <http://k/e1> <http://k/p1> <http://k/e2> }",
    "SELECT * WHERE { { INSERT DATA { <http://k/e1> <http://k/p1> <http://k/e2> } } }",
    "RULE :R :- CONSTRUCT { ?s <http://k/p9> ?o } WHERE { ?s <http://k/p1> ?o }",
    "RULE :R :- CONSTRUCT { ?s <http://k/p9> ?o } WHERE { ?s <http://k/p1> ?o } INSERT DATA { <http://k/e1> <http://k/p1> <http://k/e2> }",
    "RULE :R :- CONSTRUCT { ?s <http://k/p9> ?o } WHERE { ?s <http://k/p1> ?o } SELECT * WHERE { ?s <http://k/p9> ?o }",
    "PREFIX ex: <http://example.org/>\nMODEL \"m\" { ARCH MLP { HIDDEN [4] } OUTPUT EXCLUSIVE { \"A\", \"B\" } }\nNEURAL RELATION ex:pred USING MODEL \"m\" { INPUT { ?s <http://k/p2> ?x . } FEATURES { ?x } }\nSELECT * WHERE { ?s ex:pred ?l }",
    "ML.PREDICT(MODEL \"m\", INPUT { SELECT ?s ?x WHERE { ?s <http://k/p2> ?x } }, OUTPUT ?y)",
    "ML.PREDICT(MODEL \"m\", INPUT { WHERE ?s SELECT }, OUTPUT ?y)",
    "REGISTER RSTREAM <http://o/s> AS SELECT * FROM NAMED WINDOW :w ON ?s [RANGE PT99999999999999999H STEP PT1M] WHERE { WINDOW :w { ?x a :T . } }",
    "SELECT * WHERE { ?s ?p \"é€😀",
    "PREFIX x!y: <http://k/> SELECT * WHERE { ?s ?p ?o } # €",
    "SELECT * WHERE { ?s ?p ?o } ORDER BY ?s LIMIT 99999999999999999999999",
    "",
    "\u{FEFF}SELECT * WHERE { ?s ?p ?o }",
];

fn phase_requests(ctx: &mut Ctx, pool: &mut Pool, total: u64, frac: f64) {
    ctx.phase("requests", total);
    while ctx.within(frac) {
        let Some(k) = ctx.next_case() else { break };
        let mut r = ctx.rng(k);
        let state = pick_state(&mut r);
        ctx.note("states", state.split(':').next().unwrap_or(""));
        let gen = |r: &mut Rng, label: &str| -> String {
            let p = gen_printed(r, ctx.rng_labeled(label, k), *r.clone().pick(&[0usize, 10, 40]), None);
            let st = random_style(r);
            layout(&p.toks, p.nspans, r, &st).text
        };
        let (text, origin): (String, &str) = match r.below(10) {
            0..=4 => (gen(&mut r, "decor"), "generated"),
            5..=7 => {
                let base = if r.chance(1, 3) { r.pick(&EXT_SEEDS).to_string() } else { gen(&mut r, "decor") };
                let other = gen(&mut r, "other");
                let mut kinds = vec![];
                let mut t = base;
                for _ in 0..r.range(1, 2) {
                    t = mutate(&mut r, &t, &other, &mut kinds);
                }
                (t, "mutated")
            }
            8 => (r.pick(&EXT_SEEDS).to_string(), "extension_seed"),
            _ => (r.pick(&HOSTILE).to_string(), "hand_written"),
        };
        ctx.count(&format!("origins.{}", origin), 1);
        drive(ctx, pool, &mut r, &text, &state, origin, false);
        if ctx.wants_sample() && origin == "generated" {
            ctx.sample(json!({"state": state, "request": clip(&text, 500)}));
        }
    }
}

/// every hand-written hostile request x every state kind x every entry point
fn phase_hostile(ctx: &mut Ctx, pool: &mut Pool) {
    ctx.phase("hostile", (HOSTILE.len() * STATES.len()) as u64);
    while let Some(k) = ctx.next_case() {
        let mut r = ctx.rng(k);
        let text = HOSTILE[k as usize % HOSTILE.len()];
        let state = format!("{}:1", STATES[k as usize / HOSTILE.len()]);
        ctx.note("states", state.split(':').next().unwrap_or(""));
        drive(ctx, pool, &mut r, text, &state, "hand_written", true);
    }
}

/// syntax errors whose reported slice is NOT a suffix of the input (invalid prefix part of a
/// prefixed name or PREFIX declaration), at every distance from a multi-byte tail
fn phase_error_offsets(ctx: &mut Ctx, pool: &mut Pool, total: u64, frac: f64) {
    ctx.phase("error_offsets", total);
    while ctx.within(frac) {
        let Some(k) = ctx.next_case() else { break };
        let mut r = ctx.rng(k);
        let state = pick_state(&mut r);
        let p = gen_printed(&mut r, ctx.rng_labeled("decor", k), 0, None);
        let st = Style { tight: 0, comments: 0, case: 0 };
        let laid = layout(&p.toks, p.nspans, &mut r, &st);
        // an invalid character inside the prefix part, `len` bytes before the colon
        let len = r.range(1, 7);
        let bad = format!("x{}{}:c", r.pick(&["!", "~", "/", "é!", "€/"]), "y".repeat(len - 1));
        let offs = char_offsets(&laid.text);
        // at a token boundary: replace one white-space position
        let spaces: Vec<usize> = offs.iter().copied().filter(|&i| laid.text[i..].starts_with(' ')).collect();
        let text = if r.chance(1, 4) || spaces.is_empty() {
            format!("PREFIX {} <http://k/> {}", bad.trim_end_matches('c'), laid.text)
        } else {
            let i = *r.pick(&spaces);
            format!("{} {} {}", &laid.text[..i], bad, &laid.text[i..])
        };
        // multi-byte tail of random length: the wrongly computed offset lands inside it
        let mut tail = String::from(*r.pick(&[" #", " # c ", "\n#", " "]));
        for _ in 0..r.range(1, 4) {
            tail.push_str(*r.pick(&MB));
        }
        // characters whose lower-/upper-case form has another UTF-8 length, before the error position
        let text = if r.chance(1, 3) { format!("# {}\n{}", ["\u{212A}\u{212A}\u{212A}", "\u{0130}\u{023A}", "\u{212A}\u{023A}\u{023A}\u{023A}"][r.below(3)], text) } else { text };
        let text = format!("{}{}", text.trim_end(), tail);
        ctx.count("error_offset_requests", 1);
        drive(ctx, pool, &mut r, &text, &state, "error_slice_not_a_suffix", false);
        if ctx.wants_sample() {
            ctx.sample(json!({"state": state, "request": clip(&text, 400)}));
        }
    }
}

/// multi-byte characters at every offset of the hand-written seeds, through the string entry points
fn phase_everyoffset(ctx: &mut Ctx, pool: &mut Pool, total: u64, frac: f64) {
    ctx.phase("everyoffset", total);
    while ctx.within(frac) {
        let Some(k) = ctx.next_case() else { break };
        let mut r = ctx.rng(k);
        let seed = SWEEP_SEEDS[k as usize % SWEEP_SEEDS.len()];
        let state = format!("{}:1", STATES[(k as usize / SWEEP_SEEDS.len()) % STATES.len()]);
        for i in char_offsets(seed) {
            if !ctx.time_left() {
                break;
            }
            // the last three change their UTF-8 length under to_lowercase / to_uppercase (3->1, 2->3, 2->3 bytes)
            for ins in ["é", "€", "😀", "\u{212A}", "\u{0130}", "\u{023A}"] {
                let text = format!("{}{}{}", &seed[..i], ins, &seed[i..]);
                let strict = classify(pool, "combined", &text);
                let rq = Req { text: &text, state: state.clone(), alias: strict.clone(), strict, origin: "multibyte_at_every_offset", ext: vec![] };
                judge(ctx, pool, "query", &rq);
                if ins == "€" {
                    let api = *r.pick(&["update", "http_get", "handle_update", "http_post_form_query"]);
                    let alias = classify(pool, "combined_alias", &text);
                    let rq = Req { alias, ..rq };
                    judge(ctx, pool, api, &rq);
                }
                ctx.count("everyoffset.insertions", 1);
            }
        }
        ctx.nontrivial(hash_str(&format!("sweep|{}|{}", state, seed)));
    }
}

/// declarations + training + a SELECT over the declared relation in ONE request to the
/// query entry points (the worker runs in a scratch directory: training writes a model file)
fn phase_neural(ctx: &mut Ctx, pool: &mut Pool) {
    let variants: [(&str, &str); 3] = [
        ("exclusive", "PREFIX ex: <http://example.org/>\nMODEL \"m\" {\n ARCH MLP { HIDDEN [4] }\n OUTPUT EXCLUSIVE { \"0\", \"1\", \"2\", \"3\" }\n}\nNEURAL RELATION ex:pred USING MODEL \"m\" {\n INPUT { ?s <http://k/p2> ?x . }\n FEATURES { ?x }\n}\nTRAIN NEURAL RELATION ex:pred {\n DATA { ?s <http://k/p2> ?label . }\n LABEL ?label\n TARGET { ?s ex:pred ?label }\n LOSS cross_entropy\n OPTIMIZER adam\n LEARNING_RATE 0.01\n EPOCHS 2\n BATCH_SIZE 2\n}\nSELECT * WHERE { ?s ex:pred ?l }"),
        ("declared_but_untrained", "PREFIX ex: <http://example.org/>\nMODEL \"m\" {\n ARCH MLP { HIDDEN [4] }\n OUTPUT EXCLUSIVE { \"0\", \"1\" }\n}\nNEURAL RELATION ex:pred USING MODEL \"m\" {\n INPUT { ?s <http://k/p2> ?x . }\n FEATURES { ?x }\n}\nSELECT * WHERE { ?s ex:pred ?l }"),
        ("select_does_not_use_the_relation", "PREFIX ex: <http://example.org/>\nMODEL \"m\" {\n ARCH MLP { HIDDEN [4] }\n OUTPUT EXCLUSIVE { \"0\", \"1\", \"2\", \"3\" }\n}\nNEURAL RELATION ex:pred USING MODEL \"m\" {\n INPUT { ?s <http://k/p2> ?x . }\n FEATURES { ?x }\n}\nTRAIN NEURAL RELATION ex:pred {\n DATA { ?s <http://k/p2> ?label . }\n LABEL ?label\n TARGET { ?s ex:pred ?label }\n LOSS cross_entropy\n OPTIMIZER sgd\n LEARNING_RATE 0.01\n EPOCHS 1\n BATCH_SIZE 4\n}\nSELECT * WHERE { ?s <http://k/p2> ?l }"),
    ];
    ctx.phase("neural", variants.len() as u64);
    while let Some(k) = ctx.next_case() {
        let (name, text) = variants[k as usize];
        let (strict, ext) = classify_ext(pool, "combined", text);
        let rq = Req { text, state: "numeric:1".into(), alias: strict.clone(), strict, origin: name, ext };
        for api in QUERY_APIS {
            judge(ctx, pool, api, &rq);
        }
        ctx.count("neural_requests", 1);
        ctx.nontrivial(hash_str(text));
        if ctx.wants_sample() {
            ctx.sample(json!({"variant": name, "request": text}));
        }
    }
}

fn phase_nesting(ctx: &mut Ctx, pool: &mut Pool) {
    let builds: [(&str, fn(usize) -> String); 3] = [
        ("group_braces", |n| format!("SELECT * WHERE {} ?s ?p ?o {}", "{".repeat(n), "}".repeat(n))),
        ("filter_parentheses", |n| format!("SELECT * WHERE {{ ?s ?p ?x FILTER({} ?x = 1 {}) }}", "(".repeat(n), ")".repeat(n))),
        ("update_where_braces", |n| format!("DELETE {{ ?s ?p ?o }} WHERE {} ?s ?p ?o {}", "{".repeat(n), "}".repeat(n))),
    ];
    ctx.phase("nesting", builds.len() as u64);
    while let Some(k) = ctx.next_case() {
        let (name, build) = builds[k as usize];
        for n in [100usize, 1_000, 3_000, 20_000] {
            let text = build(n);
            let api = if name == "update_where_braces" { "update" } else { "query" };
            let rq = Req { text: &text, state: "small:1".into(), strict: Class::Unknown, alias: Class::Unknown, origin: name, ext: vec![] };
            ctx.add_evals(1);
            ctx.count(&format!("calls.{}", api), 1);
            let r = pool.exec(api, &rq.state, &text);
            match r {
                Reply::Res(_) => ctx.max(&format!("nesting.deepest_answered.{}", name), n as u64),
                other => {
                    crash(ctx, api, &rq, &other);
                    break;
                }
            }
        }
        ctx.nontrivial(hash_str(name));
    }
}

fn run(ctx: &mut Ctx) {
    let mut pool = match Pool::new() {
        Ok(p) => p,
        Err(e) => {
            ctx.inconclusive(&format!("worker binary unavailable: {}", e));
            return;
        }
    };
    phase_hostile(ctx, &mut pool);
    phase_nesting(ctx, &mut pool);
    phase_neural(ctx, &mut pool);
    phase_error_offsets(ctx, &mut pool, ctx.by_tier(12_000, 300_000), 0.35);
    phase_everyoffset(ctx, &mut pool, ctx.by_tier(50, 50 * 5), 0.55);
    phase_requests(ctx, &mut pool, ctx.by_tier(40_000, 1_000_000), 1.0);
    ctx.count("worker_processes_started", pool.started());
}

fn main() {
    let mut spec = Spec::new("C17", "exploration", RULE);
    spec.assumptions = &[
        "a request is malformed when parse_combined_query (for handle_update and the HTTP update adapters: also the alias-enabled variant) rejects it in the same worker; generated update forms are additionally known to be updates by construction",
        "database states are a pure function of (kind, seed) and are rebuilt inside the worker after every call that changed them; the prefix table is not part of the property (changes are counted as observations)",
        "HTTP adapters are driven with well-formed GET / POST envelopes (query text percent-encoded where the envelope needs it); a raw POST body containing a blank line is skipped because the adapter cuts it there",
        "a worker that does not answer within 180 s is reported as inconclusive; TRAIN NEURAL RELATION text runs in the worker's scratch working directory",
    ];
    spec.quick_budget_s = 40;
    spec.thorough_budget_s = 600;
    kvcore::run(spec, run);
}
