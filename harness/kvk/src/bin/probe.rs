//! ad-hoc probe: probe '<update>' '<query>'  (not a monitor)
use kolibrie::execute_query::{execute_sparql_query, execute_sparql_update};
use kolibrie::sparql_database::SparqlDatabase;
fn main() {
    let a: Vec<String> = std::env::args().collect();
    let mut db = SparqlDatabase::new();
    if a.len() > 1 && !a[1].is_empty() {
        println!("update: {:?}", execute_sparql_update(&a[1], &mut db));
    }
    for q in &a[2..] {
        println!("query: {:?}", execute_sparql_query(q, &mut db));
    }
}
