//! C03 — SPARQL Update applies exactly the standard effect, atomically.
//!
//! Event: after every step of a random update history, the lexical snapshot of the
//! database (quads + named-graph catalog) and the returned UpdateSummary.
//! Oracle: kvk::upd::apply on M-DATASET (WHERE once on the pre-state through M-SPARQL,
//! delete then insert, fresh blank nodes per solution, effective change counts);
//! datasets are compared up to a bijection on the blank nodes introduced by the step.

use kolibrie::execute_query::{execute_query_rayon_parallel2_volcano, execute_sparql_update};
use kvcore::{guard, hash_str, json, panic_site, Ctx, Rng, Spec};
use kvk::ds::{self, Dataset, LQuad, Route, G};
use kvk::upd::{self, Upd};
use std::collections::{BTreeMap, BTreeSet};

const RULE: &str = "Each case = one random initial dataset (loaded through one of three writers) followed by a history of 8-40 operations drawn from the six update forms over default and named graphs (ground DATA blocks incl. duplicates and absent quads, templates with variables in every position incl. the graph position, overlapping delete/insert sets, self-referential templates, blank-node templates, unbound template variables, illegal term positions, WHERE clauses from the C01 pattern generator, DELETE WHERE shorthand with GRAPH blocks), interleaved with requests that must be rejected (variables / blank nodes in DATA or DELETE, trailing input, SELECT, legacy aliases). After EVERY step the whole dataset, the catalog and the reported counts are compared with the model. Non-trivial = a step that actually changed the dataset through a WHERE-driven form, or a rejected step on a non-empty dataset; distinct by hash of (pre-state, operation text).";

fn terms_of(d: &Dataset) -> BTreeSet<String> {
    let mut t = BTreeSet::new();
    for (s, p, o, g) in &d.quads {
        t.insert(s.clone());
        t.insert(p.clone());
        t.insert(o.clone());
        if let G::Named(n) = g {
            t.insert(n.clone());
        }
    }
    for g in &d.graphs {
        t.insert(g.clone());
    }
    t
}

fn rename(d: &Dataset, map: &BTreeMap<String, String>) -> Dataset {
    let f = |s: &String| map.get(s).cloned().unwrap_or_else(|| s.clone());
    let mut out = Dataset::default();
    for (s, p, o, g) in &d.quads {
        let g2 = match g {
            G::Default => G::Default,
            G::Named(n) => G::Named(f(n)),
        };
        out.quads.insert((f(s), f(p), f(o), g2));
    }
    out.graphs = d.graphs.iter().map(f).collect();
    out
}

/// colour refinement of a set of "free" blank labels inside a dataset
fn colours(d: &Dataset, free: &BTreeSet<String>) -> BTreeMap<String, String> {
    let mut col: BTreeMap<String, String> = free.iter().map(|b| (b.clone(), String::new())).collect();
    for _round in 0..3 {
        let mut next: BTreeMap<String, Vec<String>> = free.iter().map(|b| (b.clone(), vec![])).collect();
        for (s, p, o, g) in &d.quads {
            let gname = g.name().unwrap_or("DEFAULT").to_string();
            let lab = |t: &String| if free.contains(t) { format!("*{}", kvcore::hash_str(&col[t])) } else { t.clone() };
            for (pos, t) in [(0, s), (1, p), (2, o)] {
                if free.contains(t) {
                    let others = format!("{}|{}|{}|{}|{}", pos, if pos == 0 { "SELF".into() } else { lab(s) }, lab(p), if pos == 2 { "SELF".into() } else { lab(o) }, gname);
                    next.get_mut(t).unwrap().push(others);
                }
            }
        }
        for (b, mut v) in next {
            v.sort();
            col.insert(b, v.join(";"));
        }
    }
    col
}

/// Find a bijection model-fresh -> engine-new that makes the datasets equal.
fn match_blanks(model: &Dataset, engine: &Dataset, mfresh: &BTreeSet<String>, enew: &BTreeSet<String>, r: &mut Rng) -> Result<BTreeMap<String, String>, String> {
    if mfresh.len() != enew.len() {
        return Err(format!("model introduces {} blank nodes, engine {}", mfresh.len(), enew.len()));
    }
    if mfresh.is_empty() {
        return if model == engine { Ok(BTreeMap::new()) } else { Err("datasets differ".into()) };
    }
    let cm = colours(model, mfresh);
    let ce = colours(engine, enew);
    let mut gm: BTreeMap<String, Vec<String>> = BTreeMap::new();
    for (b, c) in &cm {
        gm.entry(c.clone()).or_default().push(b.clone());
    }
    let mut ge: BTreeMap<String, Vec<String>> = BTreeMap::new();
    for (b, c) in &ce {
        ge.entry(c.clone()).or_default().push(b.clone());
    }
    let sizes_m: Vec<(String, usize)> = gm.iter().map(|(c, v)| (c.clone(), v.len())).collect();
    let sizes_e: Vec<(String, usize)> = ge.iter().map(|(c, v)| (c.clone(), v.len())).collect();
    if sizes_m != sizes_e {
        return Err("fresh blank nodes occur in structurally different quads".into());
    }
    for attempt in 0..400 {
        let mut map = BTreeMap::new();
        for (c, ms) in &gm {
            let mut es = ge[c].clone();
            if attempt > 0 {
                r.shuffle(&mut es);
            }
            for (m, e) in ms.iter().zip(es.iter()) {
                map.insert(m.clone(), e.clone());
            }
        }
        if rename(model, &map) == *engine {
            return Ok(map);
        }
    }
    Err("AMBIGUOUS".into())
}

fn diff(model: &Dataset, engine: &Dataset) -> serde_json::Value {
    let only_m: Vec<&LQuad> = model.quads.difference(&engine.quads).take(6).collect();
    let only_e: Vec<&LQuad> = engine.quads.difference(&model.quads).take(6).collect();
    json!({
        "quads_only_in_model": only_m.iter().map(|q| format!("{} {} {} @{:?}", q.0, q.1, q.2, q.3)).collect::<Vec<_>>(),
        "quads_only_in_engine": only_e.iter().map(|q| format!("{} {} {} @{:?}", q.0, q.1, q.2, q.3)).collect::<Vec<_>>(),
        "catalog_only_in_model": model.graphs.difference(&engine.graphs).collect::<Vec<_>>(),
        "catalog_only_in_engine": engine.graphs.difference(&model.graphs).collect::<Vec<_>>(),
    })
}

fn run(ctx: &mut Ctx) {
    let total = ctx.by_tier(6_000, 600_000);
    ctx.phase("histories", total);
    while let Some(k) = ctx.next_case() {
        let mut r = ctx.rng(k);
        let vocab = ds::small_vocab(&mut r);
        let n0 = r.range(0, 25);
        let init = ds::gen_dataset(&mut r, &vocab, n0);
        let route = *r.pick(&[Route::InsertData, Route::NQuads, Route::Direct]);
        let Ok(Ok(mut db)) = guard(|| ds::load(&init, route)) else {
            ctx.inconclusive("initial dataset could not be loaded");
            continue;
        };
        let Ok(mut model) = ds::snapshot(&db) else { continue };
        let steps = r.range(8, 40);
        let mut fresh_counter = 0usize;
        let mut history: Vec<String> = vec![];
        let mut ok_case = true;
        for step in 0..steps {
            if !ok_case {
                break;
            }
            let pre = model.clone();
            // ---- rejected request
            if r.chance(1, 7) {
                let planted = if r.coin() {
                    let mut ug = upd::UGen { r: &mut r, n_ent: vocab.n_ent, n_pred: vocab.n_pred, n_num: vocab.n_num, n_graph: vocab.n_graph };
                    let u = ug.gen(&model);
                    upd::plant_illegal(&mut r, &u).map(|(u2, why)| (upd::print_update(&u2), why))
                } else {
                    None
                };
                let (text, why) = match planted {
                    Some((t, w)) => (t, w),
                    None => upd::gen_rejected(&mut r, &model),
                };
                history.push(format!("[rejected: {}] {}", why, text));
                ctx.add_evals(1);
                let res = guard(|| execute_sparql_update(&text, &mut db));
                match res {
                    Err(e) => {
                        ctx.violation(json!({"kind": "panic", "api": "execute_sparql_update", "site": panic_site(&e)}), json!({"panic": e, "request": text}));
                        ok_case = false;
                    }
                    Ok(Ok(s)) => {
                        ctx.violation(json!({"kind": "malformed_update_accepted", "why": why}), json!({"request": text, "summary": format!("{:?}", s), "history": history}));
                        ok_case = false;
                    }
                    Ok(Err(_)) => {
                        ctx.count("rejected_requests", 1);
                        ctx.note("rejection_reasons_exercised", why);
                        match ds::snapshot(&db) {
                            Ok(s) if s == model => {
                                if !model.quads.is_empty() {
                                    ctx.nontrivial(hash_str(&format!("{}#{}", model.hash(), text)));
                                }
                            }
                            Ok(s) => {
                                ctx.violation(json!({"kind": "rejected_update_changed_the_dataset", "why": why}), json!({"request": text, "diff": diff(&model, &s), "history": history}));
                                ok_case = false;
                            }
                            Err(e) => {
                                ctx.violation(json!({"kind": "snapshot_undecodable"}), json!({"error": e}));
                                ok_case = false;
                            }
                        }
                    }
                }
                continue;
            }
            // ---- regular update
            let mut ug = upd::UGen { r: &mut r, n_ent: vocab.n_ent, n_pred: vocab.n_pred, n_num: vocab.n_num, n_graph: vocab.n_graph };
            let u = ug.gen(&model);
            let text = upd::print_update(&u);
            history.push(text.clone());
            let fresh_counter_before = fresh_counter;
            let eff = match upd::apply(&mut model, &u, &mut fresh_counter) {
                Ok(e) => e,
                Err(kvk::msparql::EvalError::TooBig) => {
                    ctx.count("histories_cut_oracle_where_answer_too_big", 1);
                    break;
                }
                Err(kvk::msparql::EvalError::NonNumericAggregate) => {
                    ctx.count("histories_cut_where_aggregates_over_non_numeric_values", 1);
                    break;
                }
            };
            // legacy adapter for INSERT/DELETE DATA every now and then (returns no summary)
            let legacy = matches!(u, Upd::InsertData(_) | Upd::DeleteData(_)) && r.chance(1, 5);
            ctx.add_evals(1);
            let res = guard(|| if legacy { execute_query_rayon_parallel2_volcano(&text, &mut db); Ok(None) } else { execute_sparql_update(&text, &mut db).map(Some) });
            let summary = match res {
                Err(e) => {
                    ctx.violation(json!({"kind": "panic", "api": "execute_sparql_update", "form": u.kind(), "site": panic_site(&e)}), json!({"panic": e, "request": text, "history": history}));
                    ok_case = false;
                    continue;
                }
                Ok(Err(e)) => {
                    ctx.violation(json!({"kind": "well_formed_update_rejected", "form": u.kind()}), json!({"error": e, "request": text, "pre_state": pre.to_json()}));
                    ok_case = false;
                    continue;
                }
                Ok(Ok(s)) => s,
            };
            ctx.count(&format!("updates_executed.{}", u.kind()), 1);
            if legacy {
                ctx.count("updates_via_legacy_adapter", 1);
            }
            let snap = match ds::snapshot(&db) {
                Ok(s) => s,
                Err(e) => {
                    ctx.violation(json!({"kind": "snapshot_undecodable"}), json!({"error": e, "request": text}));
                    ok_case = false;
                    continue;
                }
            };
            // blank nodes introduced by this step
            let pre_terms = terms_of(&pre);
            let mfresh: BTreeSet<String> = terms_of(&model).into_iter().filter(|t| eff.fresh.contains(t)).collect();
            let model_terms = terms_of(&model);
            let enew: BTreeSet<String> = terms_of(&snap).into_iter().filter(|t| t.starts_with("_:") && !pre_terms.contains(t) && !model_terms.contains(t)).collect();
            match match_blanks(&model, &snap, &mfresh, &enew, &mut r) {
                Ok(map) => {
                    if !map.is_empty() {
                        ctx.count("steps_with_fresh_blank_nodes", 1);
                        ctx.max("max_fresh_blank_nodes_in_a_step", map.len() as u64);
                        model = rename(&model, &map);
                    }
                }
                Err(e) if e == "AMBIGUOUS" => {
                    ctx.count("histories_cut_blank_node_matching_ambiguous", 1);
                    break;
                }
                Err(e) => {
                    // attribution: is it the recorded C01 finding (GRAPH ?g binds its variable before
                    // the filters of its own block) seen through the WHERE clause?
                    let mut sig = json!({"kind": "dataset_after_update_differs_from_sparql_update_semantics", "form": u.kind()});
                    {
                        let mut alt = pre.clone();
                        let mut fc = fresh_counter_before;
                        let prebound = kvk::msparql::Sem { graph_variable_prebound: true, ..Default::default() };
                        if let Ok(eff2) = upd::apply_sem(&mut alt, &u, &mut fc, prebound) {
                            let afresh: BTreeSet<String> = terms_of(&alt).into_iter().filter(|t| eff2.fresh.contains(t)).collect();
                            let alt_terms = terms_of(&alt);
                            let enew2: BTreeSet<String> = terms_of(&snap).into_iter().filter(|t| t.starts_with("_:") && !pre_terms.contains(t) && !alt_terms.contains(t)).collect();
                            if match_blanks(&alt, &snap, &afresh, &enew2, &mut r).is_ok() {
                                sig["cause"] = json!("where_clause:graph_variable_is_bound_before_the_filters_of_its_graph_block");
                            }
                        }
                    }
                    ctx.violation(
                        sig,
                        json!({"request": text, "pre_state": pre.to_json(), "diff": diff(&model, &snap), "note": e, "step": step, "history": history}),
                    );
                    ok_case = false;
                    continue;
                }
            }
            if let Some(s) = summary {
                if s.inserted_quads != eff.inserted || s.deleted_quads != eff.deleted {
                    ctx.violation(
                        json!({"kind": "reported_counts_differ_from_effective_changes", "form": u.kind()}),
                        json!({"request": text, "pre_state": pre.to_json(), "reported": format!("{:?}", s), "expected_inserted": eff.inserted, "expected_deleted": eff.deleted}),
                    );
                    ok_case = false;
                    continue;
                }
            }
            let changed = eff.inserted + eff.deleted > 0;
            if changed {
                ctx.count("steps_that_changed_the_dataset", 1);
            }
            if changed && !matches!(u, Upd::InsertData(_) | Upd::DeleteData(_)) {
                ctx.nontrivial(hash_str(&format!("{}#{}", pre.hash(), text)));
            }
            if ctx.wants_sample() && changed && matches!(u, Upd::DeleteInsertWhere { .. }) {
                ctx.sample(json!({"step": step, "request": text, "pre_state_quads": pre.quads.len(), "inserted": eff.inserted, "deleted": eff.deleted, "fresh_blank_nodes": eff.fresh.len(), "history_so_far": history.len()}));
            }
        }
        ctx.max("max_history_length", history.len() as u64);
    }
}

fn main() {
    let mut spec = Spec::new("C03", "exploration", RULE);
    spec.assumptions = &[
        "M-TERM vocabulary (IRIs http://k/…, canonical integers, words); a term is a legal subject iff it is an IRI or a blank node, a legal predicate / graph name iff it is an IRI",
        "WHERE clauses are drawn from the C01 core pattern generator and evaluated by M-SPARQL over the pre-state with the default dataset view",
        "datasets are compared up to a bijection on the blank nodes introduced by the step (colour refinement + bounded search; an ambiguous matching cuts the history and is counted, never reported)",
    ];
    spec.quick_budget_s = 40;
    spec.thorough_budget_s = 900;
    kvcore::run(spec, run);
}
