//! C16 — The query parser is total and faithful.
//!
//! Events: the verdict of a crash-isolated `kworker` process (8 MB stack) for every input
//! and entry point: syntax tree (mechanical JSON rendering) + unconsumed rest, error value,
//! caught panic, or death of the process (signal / exit without verdict).
//! Oracles: (totality) liveness of the worker, no panic, acceptance implies the whole input
//! was consumed (entry points that promise it) / the rest is exactly the text behind the
//! closing brace (group entry point); (faithfulness) the monitor prints every generated
//! tree itself, token by token, with random whitespace, comments, keyword case, term
//! spellings and `;` `,` abbreviations, and builds — in the same pass, from the tree, never
//! from the text — the structural normal form the parse must produce.

use kvcore::{hash_str, json, Ctx, Rng, Spec, Value};
use kvk::ds;
use kvk::qast::*;
use kvk::qgen::Gen;
use kvk::upd::{UGen, Upd, QT, TT};
use std::collections::{BTreeMap, BTreeSet};
use std::io::{BufRead, BufReader, Write};
use std::path::PathBuf;
use std::process::{Child, ChildStdin, Command, Stdio};
use std::sync::mpsc::{channel, Receiver, RecvTimeoutError};
use std::time::Duration;

const RULE: &str = "faithful: G-QUERY SELECT trees and the six update forms (+ legacy aliases), decorated with every term spelling of the documented fragment (IRIs, prefixed names incl. escapes / multi-byte / keyword-like prefixes, blank nodes, bare identifiers that start with keywords, all literal forms, numbers, booleans, RDF-star quoted triples, $vars), extra `;` `,` lists, scoped single-element groups, function / arithmetic filters; each tree printed in 2 random layouts (no / random whitespace, # comments with hostile bodies between any two tokens, random keyword case, optional dots / WHERE / wrapped aggregates) and parsed through parse_combined_query(_with_options), parse_sparql_query and parse_group_graph_pattern (+ tail). mutate / everyoffset / nesting / trailing: totality workloads (byte and token mutations, 2-3-4-byte characters at every offset, truncation and deletion at every offset, nesting ladders 10..100000 for every recursive construct, junk after complete queries). Non-trivial = a generated tree with >= 3 pattern nodes whose parse was compared with the normal form (distinct by hash of normal form + layout), or a distinct hostile input on which at least one entry point got past offset 0 (distinct by hash of the text).";

// ---------------------------------------------------------------------------------------
// worker client

#[derive(Debug, Clone)]
enum Reply {
    Ok { rest: String, dump: Option<Value> },
    Err { code: String, wher: String, pos: i64 },
    Panic(String),
    Bad(String),
    Died { signal: Option<i32>, code: Option<i32>, stderr: String, during_drop: bool },
    Timeout,
}

struct Worker {
    child: Child,
    stdin: ChildStdin,
    rx: Receiver<String>,
    err_path: PathBuf,
}

struct Pool {
    exe: PathBuf,
    dir: PathBuf,
    w: Option<Worker>,
    spawned: u64,
    seq: u64,
    timeout: Duration,
}

fn escape(s: &str) -> String {
    let mut o = String::with_capacity(s.len() + 8);
    for c in s.chars() {
        match c {
            '\\' => o.push_str("\\\\"),
            '\n' => o.push_str("\\n"),
            '\r' => o.push_str("\\r"),
            '\t' => o.push_str("\\t"),
            '\0' => o.push_str("\\0"),
            c => o.push(c),
        }
    }
    o
}

impl Pool {
    fn new() -> Result<Pool, String> {
        let exe = std::env::current_exe().map_err(|e| e.to_string())?.parent().ok_or("no parent dir")?.join("kworker");
        if !exe.exists() {
            return Err(format!("{} not built", exe.display()));
        }
        let dir = std::env::temp_dir().join(format!("kv-C16-workers-{}", std::process::id()));
        std::fs::create_dir_all(&dir).map_err(|e| e.to_string())?;
        Ok(Pool { exe, dir, w: None, spawned: 0, seq: 0, timeout: Duration::from_secs(180) })
    }

    fn spawn(&mut self) -> Result<(), String> {
        self.spawned += 1;
        let err_path = self.dir.join(format!("w{}.stderr", self.spawned));
        let errf = std::fs::File::create(&err_path).map_err(|e| e.to_string())?;
        let mut child = Command::new(&self.exe).stdin(Stdio::piped()).stdout(Stdio::piped()).stderr(Stdio::from(errf)).spawn().map_err(|e| e.to_string())?;
        let stdin = child.stdin.take().ok_or("no stdin")?;
        let stdout = child.stdout.take().ok_or("no stdout")?;
        let (tx, rx) = channel::<String>();
        std::thread::spawn(move || {
            let mut rd = BufReader::new(stdout);
            let mut line = String::new();
            loop {
                line.clear();
                match rd.read_line(&mut line) {
                    Ok(0) | Err(_) => break,
                    Ok(_) => {
                        if tx.send(line.trim_end_matches('\n').to_string()).is_err() {
                            break;
                        }
                    }
                }
            }
        });
        self.w = Some(Worker { child, stdin, rx, err_path });
        Ok(())
    }

    fn bury(&mut self, during_drop: bool) -> Reply {
        let mut w = self.w.take().expect("worker");
        drop(w.stdin);
        let st = w.child.wait().ok();
        use std::os::unix::process::ExitStatusExt;
        let (signal, code) = st.map(|s| (s.signal(), s.code())).unwrap_or((None, None));
        let stderr: String = std::fs::read_to_string(&w.err_path).unwrap_or_default().chars().take(600).collect();
        let _ = std::fs::remove_file(&w.err_path);
        Reply::Died { signal, code, stderr, during_drop }
    }

    fn kill(&mut self) {
        if let Some(mut w) = self.w.take() {
            let _ = w.child.kill();
            let _ = w.child.wait();
            let _ = std::fs::remove_file(&w.err_path);
        }
    }

    /// one request; the worker is (re)started when needed
    fn ask(&mut self, entry: &str, dump: bool, text: &str) -> Reply {
        if self.w.is_none() {
            if let Err(e) = self.spawn() {
                return Reply::Bad(format!("cannot start worker: {}", e));
            }
        }
        self.seq += 1;
        let id = self.seq.to_string();
        let line = format!("{}\tP\t{}\t{}\t{}\n", id, entry, if dump { "d" } else { "-" }, escape(text));
        {
            let w = self.w.as_mut().unwrap();
            if w.stdin.write_all(line.as_bytes()).and_then(|_| w.stdin.flush()).is_err() {
                return self.bury(false);
            }
        }
        let mut verdict: Option<Reply> = None;
        loop {
            let got = self.w.as_ref().unwrap().rx.recv_timeout(self.timeout);
            match got {
                Err(RecvTimeoutError::Timeout) => {
                    self.kill();
                    return Reply::Timeout;
                }
                Err(RecvTimeoutError::Disconnected) => {
                    let died = self.bury(verdict.is_some());
                    return died;
                }
                Ok(l) => {
                    let mut f = l.splitn(2, '\t');
                    if f.next() != Some(id.as_str()) {
                        continue; // stale line
                    }
                    let body = f.next().unwrap_or("");
                    if body == "done" {
                        return verdict.unwrap_or(Reply::Bad("done without verdict".into()));
                    }
                    let mut p = body.splitn(4, '\t');
                    let r = match p.next().unwrap_or("") {
                        "ok" => {
                            let rest = p.next().unwrap_or("").to_string();
                            let d = p.next().unwrap_or("-");
                            let dump = if d == "-" { None } else { serde_json::from_str::<Value>(d).ok() };
                            Reply::Ok { rest, dump }
                        }
                        "err" => {
                            let code = p.next().unwrap_or("").to_string();
                            let wher = p.next().unwrap_or("").to_string();
                            let pos = p.next().unwrap_or("-1").parse().unwrap_or(-1);
                            Reply::Err { code, wher, pos }
                        }
                        "panic" => Reply::Panic(body[6..].to_string()),
                        _ => Reply::Bad(body.to_string()),
                    };
                    // a panic while dropping overrides an earlier ok
                    if verdict.is_none() || matches!(r, Reply::Panic(_)) {
                        verdict = Some(r);
                    }
                }
            }
        }
    }
}

impl Drop for Pool {
    fn drop(&mut self) {
        self.kill();
        let _ = std::fs::remove_dir_all(&self.dir);
    }
}

fn panic_site(msg: &str) -> String {
    match msg.rsplit_once(" @ ") {
        Some((_, loc)) => match loc.find("/repo/") {
            Some(i) => loc[i + 6..].to_string(),
            None => loc.to_string(),
        },
        None => String::new(),
    }
}

fn clip(s: &str, n: usize) -> String {
    if s.chars().count() <= n {
        s.to_string()
    } else {
        let head: String = s.chars().take(n / 2).collect();
        let tail: String = s.chars().rev().take(n / 2).collect::<Vec<_>>().into_iter().rev().collect();
        format!("{}…[{} chars]…{}", head, s.chars().count(), tail)
    }
}

// ---------------------------------------------------------------------------------------
// JSON comparison

/// first difference between two JSON values as (generalised path, expected, got)
fn diff(exp: &Value, got: &Value, path: &str) -> Option<(String, Value, Value)> {
    match (exp, got) {
        (Value::Object(a), Value::Object(b)) => {
            let ka: BTreeSet<&String> = a.keys().collect();
            let kb: BTreeSet<&String> = b.keys().collect();
            if ka != kb {
                return Some((format!("{}{{keys}}", path), json!(ka), json!(kb)));
            }
            for k in ka {
                if let Some(d) = diff(&a[k], &b[k], &format!("{}.{}", path, k)) {
                    return Some(d);
                }
            }
            None
        }
        (Value::Array(a), Value::Array(b)) => {
            if a.len() != b.len() {
                return Some((format!("{}[len]", path), exp.clone(), got.clone()));
            }
            for (x, y) in a.iter().zip(b.iter()) {
                if let Some(d) = diff(x, y, &format!("{}[]", path)) {
                    return Some(d);
                }
            }
            None
        }
        _ => {
            if exp == got {
                None
            } else {
                Some((path.to_string(), exp.clone(), got.clone()))
            }
        }
    }
}

// ---------------------------------------------------------------------------------------
// tokens and layout

#[derive(Clone, Copy, PartialEq, Eq, Debug)]
enum TK {
    Kw,
    Sym,
    Term,
    /// `<` `>` `<=` `>=`: always surrounded by white space
    Spaced,
}

#[derive(Clone, Debug)]
struct Tok {
    s: String,
    k: TK,
    open: Vec<usize>,
    close: Vec<usize>,
}

fn term_class(s: &str) -> &'static str {
    if s.starts_with('?') || s.starts_with('$') {
        "var"
    } else if s.starts_with("<<") {
        "quoted_triple"
    } else if s.starts_with('<') {
        "iri"
    } else if s.starts_with("_:") {
        "blank_node"
    } else if s.starts_with('"') || s.starts_with('\'') {
        "literal"
    } else if s == "true" || s == "false" {
        "boolean"
    } else if s == "a" {
        "a"
    } else if s.chars().next().map(|c| c.is_ascii_digit() || c == '+' || c == '-' || c == '.').unwrap_or(false) {
        "number"
    } else if s.contains(':') {
        "prefixed_name"
    } else {
        "bare_identifier"
    }
}

fn wordish_end(c: char) -> bool {
    c.is_alphanumeric() || matches!(c, '_' | '-' | ':' | '%') || !c.is_ascii()
}
fn wordish_start(c: char) -> bool {
    c.is_alphanumeric() || matches!(c, '_' | '-' | ':' | '.' | '%' | '\\' | '+') || !c.is_ascii()
}

fn need_space(a: &Tok, b: &Tok) -> bool {
    if a.k == TK::Spaced || b.k == TK::Spaced {
        return true;
    }
    let (la, fb) = (a.s.chars().last().unwrap_or(' '), b.s.chars().next().unwrap_or(' '));
    if a.s == "." {
        return wordish_start(fb);
    }
    if b.s == "." {
        return false;
    }
    // arithmetic operators may touch variables, numbers and parentheses
    if b.k == TK::Sym && (b.s == "+" || b.s == "-") {
        let c = term_class(&a.s);
        return !(a.s == ")" || (a.k == TK::Term && (c == "var" || c == "number")));
    }
    if a.k == TK::Sym && (a.s == "+" || a.s == "-") {
        return fb == '+' || fb == '-';
    }
    if la == '!' && fb == '=' {
        return true;
    }
    wordish_end(la) && wordish_start(fb)
}

const WS: [&str; 8] = [" ", " ", "  ", "\t", "\n", "\r\n", "\n  ", " \t "];
const COMMENT_BODIES: [&str; 14] = ["", " c", " } { )", " \"unterminated", " 'x", " <http://k/e1>", " SELECT * WHERE", " é€😀", " FILTER(", "#", " \\", " . ; ,", " <<", " UNION"];

#[derive(Clone, Copy, Debug)]
struct Style {
    tight: usize,    // % chance of no separator where none is needed
    comments: usize, // % chance that a separator carries a comment
    case: u8,        // 0 upper, 1 lower, 2 random per letter, 3 capitalised
}

fn random_style(r: &mut Rng) -> Style {
    Style { tight: *r.pick(&[0usize, 30, 60, 100]), comments: *r.pick(&[0usize, 0, 10, 30]), case: r.below(4) as u8 }
}

fn separator(r: &mut Rng, st: &Style, needed: bool) -> String {
    if !needed && r.chance(st.tight, 100) {
        return String::new();
    }
    let mut s = String::new();
    if r.chance(st.comments, 100) {
        if r.coin() {
            s.push_str(r.pick(&WS));
        }
        s.push('#');
        s.push_str(r.pick(&COMMENT_BODIES));
        s.push_str(r.pick(&["\n", "\n", "\r\n", "\r"]));
        if r.coin() {
            s.push_str(r.pick(&WS));
        }
    } else {
        s.push_str(r.pick(&WS));
    }
    s
}

fn kw_case(r: &mut Rng, st: &Style, k: &str) -> String {
    match st.case {
        0 => k.to_string(),
        1 => k.to_ascii_lowercase(),
        2 => k.chars().map(|c| if r.coin() { c.to_ascii_lowercase() } else { c.to_ascii_uppercase() }).collect(),
        _ => {
            let mut it = k.chars();
            match it.next() {
                Some(f) => f.to_ascii_uppercase().to_string() + &it.as_str().to_ascii_lowercase(),
                None => String::new(),
            }
        }
    }
}

struct Laid {
    text: String,
    /// byte span of every marked token range
    spans: Vec<(usize, usize)>,
    /// byte span of every token
    tok_at: Vec<(usize, usize)>,
    comments: bool,
}

fn layout(toks: &[Tok], nspans: usize, r: &mut Rng, st: &Style) -> Laid {
    let mut text = String::new();
    let mut spans = vec![(0usize, 0usize); nspans];
    let mut tok_at = Vec::with_capacity(toks.len());
    if r.chance(1, 4) {
        text.push_str(&separator(r, st, true));
    }
    for (i, t) in toks.iter().enumerate() {
        if i > 0 {
            text.push_str(&separator(r, st, need_space(&toks[i - 1], t)));
        }
        let start = text.len();
        for id in &t.open {
            spans[*id].0 = start;
        }
        if t.k == TK::Kw {
            text.push_str(&kw_case(r, st, &t.s));
        } else {
            text.push_str(&t.s);
        }
        for id in &t.close {
            spans[*id].1 = text.len();
        }
        tok_at.push((start, text.len()));
    }
    if r.chance(1, 4) {
        let mut s = separator(r, st, true);
        if r.coin() && s.contains('#') {
            // a final comment that is not terminated by a newline
            s = s.trim_end().to_string();
        }
        text.push_str(&s);
    }
    let comments = text.contains('#');
    Laid { text, spans, tok_at, comments }
}

/// replace {"$span": id} by the printed text of that token range and resolve {"$scope": v}
fn resolve(v: &Value, laid: &Laid, strict_scopes: bool) -> Value {
    match v {
        Value::Object(m) => {
            if m.len() == 1 {
                if let Some(id) = m.get("$span").and_then(|x| x.as_u64()) {
                    let (a, b) = laid.spans[id as usize];
                    return Value::from(laid.text[a..b].to_string());
                }
                if let Some(inner) = m.get("$scope") {
                    let x = resolve(inner, laid, strict_scopes);
                    return if strict_scopes { json!({ "join": [x] }) } else { x };
                }
            }
            Value::Object(m.iter().map(|(k, x)| (k.clone(), resolve(x, laid, strict_scopes))).collect())
        }
        Value::Array(a) => Value::Array(a.iter().map(|x| resolve(x, laid, strict_scopes)).collect()),
        _ => v.clone(),
    }
}
