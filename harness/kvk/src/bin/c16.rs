//! C16 — The query parser is total and faithful.
//!
//! Events: the verdict of a crash-isolated `kworker` process (8 MB stack) for every input
//! and entry point: syntax tree (mechanical JSON rendering) + unconsumed rest, error value,
//! caught panic, or death of the process (signal / exit without verdict).
//! Oracles: (totality) liveness of the worker, no panic, acceptance implies the whole input
//! was consumed (entry points that promise it) / the rest is exactly the text behind the
//! closing brace (group entry point); (faithfulness) the monitor prints every generated
//! tree itself, token by token, with random whitespace, comments, keyword case, term
//! spellings and `;` `,` abbreviations, and builds — in the same pass, from the tree, never
//! from the text — the structural normal form the parse must produce.

use kvcore::{hash_str, json, Ctx, Rng, Spec, Value};
use kvk::ds;
use kvk::qast::*;
use kvk::qgen::Gen;
use kvk::upd::{UGen, Upd, QT, TT};
use std::collections::BTreeSet;
use std::io::{BufRead, BufReader, Write};
use std::path::PathBuf;
use std::process::{Child, ChildStdin, Command, Stdio};
use std::sync::mpsc::{channel, Receiver, RecvTimeoutError};
use std::time::Duration;

const RULE: &str = "nesting: ladders 10..100000 for every recursive or repeated construct (22 constructs), the smallest killing depth narrowed by bisection; systematic: every pair of words exchanged and every number replaced by boundary values in the hand-written extension / SPARQL seeds; faithful: G-QUERY SELECT trees and the six update forms (+ legacy aliases), decorated with every term spelling of the documented fragment (IRIs, prefixed names incl. escapes / multi-byte / keyword-like prefixes, blank nodes, bare identifiers that start with keywords, all literal forms, numbers, booleans, RDF-star quoted triples, $vars), extra `;` `,` lists, scoped single-element groups, function / arithmetic filters; each tree printed in 2 random layouts (no / random whitespace, # comments with hostile bodies between any two tokens, random keyword case, optional dots / WHERE / wrapped aggregates) and parsed through parse_combined_query(_with_options), parse_sparql_query and parse_group_graph_pattern (+ tail). mutate / everyoffset / nesting / trailing: totality workloads (byte and token mutations, 2-3-4-byte characters at every offset, truncation and deletion at every offset, nesting ladders 10..100000 for every recursive construct, junk after complete queries). Non-trivial = a generated tree with >= 3 pattern nodes whose parse was compared with the normal form (distinct by hash of normal form + layout), or a distinct hostile input on which at least one entry point got past offset 0 (distinct by hash of the text).";

// ---------------------------------------------------------------------------------------
// worker client

#[derive(Debug, Clone)]
pub enum Reply {
    Ok { rest: String, dump: Option<Value> },
    Err { code: String, wher: String, pos: i64, len: i64 },
    Panic(String),
    Bad(String),
    Died { signal: Option<i32>, code: Option<i32>, stderr: String, during_drop: bool },
    Timeout,
    /// answer of an execute request (C17)
    Res(Value),
}

struct Worker {
    child: Child,
    stdin: ChildStdin,
    rx: Receiver<String>,
    err_path: PathBuf,
}

pub struct Pool {
    exe: PathBuf,
    dir: PathBuf,
    w: Option<Worker>,
    spawned: u64,
    seq: u64,
    timeout: Duration,
    /// cause attribution already done for (case, failure kind)
    attributed: std::collections::BTreeMap<(u64, bool), String>,
}

pub fn escape(s: &str) -> String {
    let mut o = String::with_capacity(s.len() + 8);
    for c in s.chars() {
        match c {
            '\\' => o.push_str("\\\\"),
            '\n' => o.push_str("\\n"),
            '\r' => o.push_str("\\r"),
            '\t' => o.push_str("\\t"),
            '\0' => o.push_str("\\0"),
            c => o.push(c),
        }
    }
    o
}

impl Pool {
    pub fn new() -> Result<Pool, String> {
        let exe = std::env::current_exe().map_err(|e| e.to_string())?.parent().ok_or("no parent dir")?.join("kworker");
        if !exe.exists() {
            return Err(format!("{} not built", exe.display()));
        }
        let dir = std::env::temp_dir().join(format!("kv-C16-workers-{}", std::process::id()));
        std::fs::create_dir_all(&dir).map_err(|e| e.to_string())?;
        Ok(Pool { exe, dir, w: None, spawned: 0, seq: 0, timeout: Duration::from_secs(180), attributed: Default::default() })
    }

    fn spawn(&mut self) -> Result<(), String> {
        self.spawned += 1;
        let err_path = self.dir.join(format!("w{}.stderr", self.spawned));
        let errf = std::fs::File::create(&err_path).map_err(|e| e.to_string())?;
        let mut child = Command::new(&self.exe).current_dir(&self.dir).stdin(Stdio::piped()).stdout(Stdio::piped()).stderr(Stdio::from(errf)).spawn().map_err(|e| e.to_string())?;
        let stdin = child.stdin.take().ok_or("no stdin")?;
        let stdout = child.stdout.take().ok_or("no stdout")?;
        let (tx, rx) = channel::<String>();
        std::thread::spawn(move || {
            let mut rd = BufReader::new(stdout);
            let mut line = String::new();
            loop {
                line.clear();
                match rd.read_line(&mut line) {
                    Ok(0) | Err(_) => break,
                    Ok(_) => {
                        if tx.send(line.trim_end_matches('\n').to_string()).is_err() {
                            break;
                        }
                    }
                }
            }
        });
        self.w = Some(Worker { child, stdin, rx, err_path });
        Ok(())
    }

    fn bury(&mut self, during_drop: bool) -> Reply {
        let mut w = self.w.take().expect("worker");
        drop(w.stdin);
        let st = w.child.wait().ok();
        use std::os::unix::process::ExitStatusExt;
        let (signal, code) = st.map(|s| (s.signal(), s.code())).unwrap_or((None, None));
        // the end of the worker's stderr: that is where the runtime reports a stack overflow
        let all = String::from_utf8_lossy(&std::fs::read(&w.err_path).unwrap_or_default()).into_owned();
        let n = all.chars().count();
        let stderr: String = all.chars().skip(n.saturating_sub(600)).collect();
        let _ = std::fs::remove_file(&w.err_path);
        Reply::Died { signal, code, stderr, during_drop }
    }

    fn kill(&mut self) {
        if let Some(mut w) = self.w.take() {
            let _ = w.child.kill();
            let _ = w.child.wait();
            let _ = std::fs::remove_file(&w.err_path);
        }
    }

    /// one parse request; the worker is (re)started when needed
    pub fn ask(&mut self, entry: &str, dump: bool, text: &str) -> Reply {
        let body = format!("P\t{}\t{}\t{}", entry, if dump { "d" } else { "-" }, escape(text));
        self.request(&body)
    }

    /// one execute request against a database state `kind:seed`
    pub fn exec(&mut self, api: &str, state: &str, text: &str) -> Reply {
        let body = format!("X\t{}\t{}\t{}", api, state, escape(text));
        self.request(&body)
    }

    pub fn started(&self) -> u64 {
        self.spawned
    }

    fn request(&mut self, body: &str) -> Reply {
        if self.w.is_none() {
            if let Err(e) = self.spawn() {
                return Reply::Bad(format!("cannot start worker: {}", e));
            }
        }
        self.seq += 1;
        let id = self.seq.to_string();
        let line = format!("{}\t{}\n", id, body);
        {
            let w = self.w.as_mut().unwrap();
            if w.stdin.write_all(line.as_bytes()).and_then(|_| w.stdin.flush()).is_err() {
                return self.bury(false);
            }
        }
        let mut verdict: Option<Reply> = None;
        loop {
            let got = self.w.as_ref().unwrap().rx.recv_timeout(self.timeout);
            match got {
                Err(RecvTimeoutError::Timeout) => {
                    self.kill();
                    return Reply::Timeout;
                }
                Err(RecvTimeoutError::Disconnected) => {
                    let died = self.bury(verdict.is_some());
                    return died;
                }
                Ok(l) => {
                    let mut f = l.splitn(2, '\t');
                    if f.next() != Some(id.as_str()) {
                        continue; // stale line
                    }
                    let body = f.next().unwrap_or("");
                    if body == "done" {
                        return verdict.unwrap_or(Reply::Bad("done without verdict".into()));
                    }
                    let mut p = body.splitn(4, '\t');
                    let r = match p.next().unwrap_or("") {
                        "ok" => {
                            let rest = p.next().unwrap_or("").to_string();
                            let d = p.next().unwrap_or("-");
                            let dump = if d == "-" { None } else { serde_json::from_str::<Value>(d).ok() };
                            Reply::Ok { rest, dump }
                        }
                        "err" => {
                            let code = p.next().unwrap_or("").to_string();
                            let wher = p.next().unwrap_or("").to_string();
                            let pl = p.next().unwrap_or("-1");
                            let (ps, ls) = pl.split_once(':').unwrap_or((pl, "-1"));
                            Reply::Err { code, wher, pos: ps.parse().unwrap_or(-1), len: ls.parse().unwrap_or(-1) }
                        }
                        "panic" => Reply::Panic(body[6..].to_string()),
                        "res" => Reply::Res(serde_json::from_str::<Value>(&body[4..]).unwrap_or(Value::Null)),
                        _ => Reply::Bad(body.to_string()),
                    };
                    // a panic while dropping overrides an earlier ok
                    if verdict.is_none() || matches!(r, Reply::Panic(_)) {
                        verdict = Some(r);
                    }
                }
            }
        }
    }
}

impl Drop for Pool {
    fn drop(&mut self) {
        self.kill();
        let _ = std::fs::remove_dir_all(&self.dir);
    }
}

pub fn panic_site(msg: &str) -> String {
    match msg.rsplit_once(" @ ") {
        Some((_, loc)) => match loc.find("/repo/") {
            Some(i) => loc[i + 6..].to_string(),
            None => loc.to_string(),
        },
        None => String::new(),
    }
}

/// panic location for signatures: repository files keep their line, files of dependencies
/// are named by crate and file only (registry path, version and line are not stable)
pub fn stable_site(msg: &str) -> String {
    let site = panic_site(msg);
    match site.find("/registry/src/") {
        Some(i) => {
            let rest = &site[i + 14..];
            let rest = rest.split_once('/').map(|x| x.1).unwrap_or(rest);
            let (krate, file) = rest.split_once('/').unwrap_or((rest, ""));
            let name = krate.rsplit_once('-').map(|x| x.0).unwrap_or(krate);
            let file = file.rsplit_once(':').map(|x| x.0).unwrap_or(file);
            format!("dependency:{}/{}", name, file)
        }
        None => site,
    }
}

pub fn clip(s: &str, n: usize) -> String {
    if s.chars().count() <= n {
        s.to_string()
    } else {
        let head: String = s.chars().take(n / 2).collect();
        let tail: String = s.chars().rev().take(n / 2).collect::<Vec<_>>().into_iter().rev().collect();
        format!("{}…[{} chars]…{}", head, s.chars().count(), tail)
    }
}

// ---------------------------------------------------------------------------------------
// JSON comparison

/// first difference between two JSON values as (generalised path, expected, got)
pub fn diff(exp: &Value, got: &Value, path: &str) -> Option<(String, Value, Value)> {
    match (exp, got) {
        (Value::Object(a), Value::Object(b)) => {
            let ka: BTreeSet<&String> = a.keys().collect();
            let kb: BTreeSet<&String> = b.keys().collect();
            if ka != kb {
                return Some((format!("{}{{keys}}", path), json!(ka), json!(kb)));
            }
            for k in ka {
                if let Some(d) = diff(&a[k], &b[k], &format!("{}.{}", path, k)) {
                    return Some(d);
                }
            }
            None
        }
        (Value::Array(a), Value::Array(b)) => {
            if a.len() != b.len() {
                return Some((format!("{}[len]", path), exp.clone(), got.clone()));
            }
            for (x, y) in a.iter().zip(b.iter()) {
                if let Some(d) = diff(x, y, &format!("{}[]", path)) {
                    return Some(d);
                }
            }
            None
        }
        _ => {
            if exp == got {
                None
            } else {
                Some((path.to_string(), exp.clone(), got.clone()))
            }
        }
    }
}

// ---------------------------------------------------------------------------------------
// tokens and layout

#[derive(Clone, Copy, PartialEq, Eq, Debug)]
pub enum TK {
    Kw,
    Sym,
    Term,
    /// `<` `>` `<=` `>=`: always surrounded by white space
    Spaced,
}

#[derive(Clone, Debug)]
pub struct Tok {
    s: String,
    k: TK,
    open: Vec<usize>,
    close: Vec<usize>,
}

pub fn term_class(s: &str) -> &'static str {
    if s.starts_with('?') || s.starts_with('$') {
        "var"
    } else if s.starts_with("<<") {
        "quoted_triple"
    } else if s.starts_with('<') {
        "iri"
    } else if s.starts_with("_:") {
        "blank_node"
    } else if s.starts_with('"') || s.starts_with('\'') {
        "literal"
    } else if s == "true" || s == "false" {
        "boolean"
    } else if s == "a" {
        "a"
    } else if s.chars().next().map(|c| c.is_ascii_digit() || c == '+' || c == '-' || c == '.').unwrap_or(false) {
        "number"
    } else if s.contains(':') {
        "prefixed_name"
    } else {
        "bare_identifier"
    }
}

fn wordish_end(c: char) -> bool {
    c.is_alphanumeric() || matches!(c, '_' | '-' | ':' | '%') || !c.is_ascii()
}
fn wordish_start(c: char) -> bool {
    c.is_alphanumeric() || matches!(c, '_' | '-' | ':' | '.' | '%' | '\\' | '+') || !c.is_ascii()
}

fn need_space(a: &Tok, b: &Tok) -> bool {
    if a.k == TK::Spaced || b.k == TK::Spaced {
        return true;
    }
    let (la, fb) = (a.s.chars().last().unwrap_or(' '), b.s.chars().next().unwrap_or(' '));
    if a.s == "." {
        return wordish_start(fb);
    }
    if b.s == "." {
        return false;
    }
    // arithmetic operators may touch variables, numbers and parentheses
    if b.k == TK::Sym && (b.s == "+" || b.s == "-") {
        let c = term_class(&a.s);
        return !(a.s == ")" || (a.k == TK::Term && (c == "var" || c == "number")));
    }
    if a.k == TK::Sym && (a.s == "+" || a.s == "-") {
        return fb == '+' || fb == '-';
    }
    if la == '!' && fb == '=' {
        return true;
    }
    // `""` followed by `"x"` would read as the start of a long string
    if (la == '"' || la == '\'') && fb == la {
        return true;
    }
    // a name that ends in an escaped character (`k:v1\.`) would swallow a following word
    let escaped_end = a.k == TK::Term && a.s.len() >= 2 && a.s.as_bytes()[a.s.len() - 2] == b'\\' && term_class(&a.s) == "prefixed_name";
    (wordish_end(la) || escaped_end) && wordish_start(fb)
}

const WS: [&str; 8] = [" ", " ", "  ", "\t", "\n", "\r\n", "\n  ", " \t "];
const COMMENT_BODIES: [&str; 14] = ["", " c", " } { )", " \"unterminated", " 'x", " <http://k/e1>", " SELECT * WHERE", " é€😀", " FILTER(", "#", " \\", " . ; ,", " <<", " UNION"];

#[derive(Clone, Copy, Debug)]
pub struct Style {
    pub tight: usize,    // % chance of no separator where none is needed
    pub comments: usize, // % chance that a separator carries a comment
    pub case: u8,        // 0 upper, 1 lower, 2 random per letter, 3 capitalised
}

pub fn random_style(r: &mut Rng) -> Style {
    Style { tight: *r.pick(&[0usize, 30, 60, 100]), comments: *r.pick(&[0usize, 0, 10, 30]), case: r.below(4) as u8 }
}

fn separator(r: &mut Rng, st: &Style, needed: bool) -> String {
    if !needed && r.chance(st.tight, 100) {
        return String::new();
    }
    let mut s = String::new();
    if r.chance(st.comments, 100) {
        if r.coin() {
            s.push_str(*r.pick(&WS));
        }
        s.push('#');
        s.push_str(*r.pick(&COMMENT_BODIES));
        s.push_str(*r.pick(&["\n", "\n", "\r\n", "\r"]));
        if r.coin() {
            s.push_str(*r.pick(&WS));
        }
    } else {
        s.push_str(*r.pick(&WS));
    }
    s
}

fn kw_case(r: &mut Rng, st: &Style, k: &str) -> String {
    match st.case {
        0 => k.to_string(),
        1 => k.to_ascii_lowercase(),
        2 => k.chars().map(|c| if r.coin() { c.to_ascii_lowercase() } else { c.to_ascii_uppercase() }).collect(),
        _ => {
            let mut it = k.chars();
            match it.next() {
                Some(f) => f.to_ascii_uppercase().to_string() + &it.as_str().to_ascii_lowercase(),
                None => String::new(),
            }
        }
    }
}

pub struct Laid {
    pub text: String,
    /// byte span of every marked token range
    spans: Vec<(usize, usize)>,
    /// byte span of every token
    tok_at: Vec<(usize, usize)>,
    comments: bool,
}

pub fn layout(toks: &[Tok], nspans: usize, r: &mut Rng, st: &Style) -> Laid {
    let mut text = String::new();
    let mut spans = vec![(0usize, 0usize); nspans];
    let mut tok_at = Vec::with_capacity(toks.len());
    if r.chance(1, 4) {
        text.push_str(&separator(r, st, true));
    }
    for (i, t) in toks.iter().enumerate() {
        if i > 0 {
            text.push_str(&separator(r, st, need_space(&toks[i - 1], t)));
        }
        let start = text.len();
        for id in &t.open {
            spans[*id].0 = start;
        }
        if t.k == TK::Kw {
            text.push_str(&kw_case(r, st, &t.s));
        } else {
            text.push_str(&t.s);
        }
        for id in &t.close {
            spans[*id].1 = text.len();
        }
        tok_at.push((start, text.len()));
    }
    if r.chance(1, 4) {
        let mut s = separator(r, st, true);
        if r.coin() && s.contains('#') {
            // a final comment that is not terminated by a newline
            s = s.trim_end().to_string();
        }
        text.push_str(&s);
    }
    let comments = text.contains('#');
    Laid { text, spans, tok_at, comments }
}

/// replace {"$span": id} by the printed text of that token range and resolve {"$scope": v}
pub fn resolve(v: &Value, laid: &Laid, strict_scopes: bool) -> Value {
    match v {
        Value::Object(m) => {
            if m.len() == 1 {
                if let Some(id) = m.get("$span").and_then(|x| x.as_u64()) {
                    let (a, b) = laid.spans[id as usize];
                    return Value::from(laid.text[a..b].to_string());
                }
                if let Some(inner) = m.get("$scope") {
                    let x = resolve(inner, laid, strict_scopes);
                    return if strict_scopes { json!({ "join": [x] }) } else { x };
                }
            }
            Value::Object(m.iter().map(|(k, x)| (k.clone(), resolve(x, laid, strict_scopes))).collect())
        }
        Value::Array(a) => Value::Array(a.iter().map(|x| resolve(x, laid, strict_scopes)).collect()),
        _ => v.clone(),
    }
}

// ---------------------------------------------------------------------------------------
// printer: generated tree -> tokens + expected normal form, in one pass

#[derive(Clone, Copy, PartialEq, Eq, Debug)]
enum Pos {
    Subj,
    Pred,
    Obj,
    GraphName,
    Cell,
    Operand,
    From,
}

const PREFIXES: [(&str, &str); 8] = [("k", "http://k/"), ("", "http://d/"), ("xsd", "http://www.w3.org/2001/XMLSchema#"), ("filter", "http://f/"), ("a", "http://a/"), ("true", "http://t/"), ("union", "http://u/"), ("kü", "http://ku/")];

const X_IRI: [&str; 7] = ["<http://k/é€😀>", "<http://k/p#frag>", "<http://k/a?b=c&d=e>", "<http://k/\\u00e9x>", "<urn:x:y>", "<>", "<http://k/\\U0001F600>"];
const X_PNAME: [&str; 21] = ["k:e1", ":x", "k:", ":", "k:a.b", "k:a-b", "k:%41x", "k:a\\-b", "k:été", "kü:x", "k:x:y", "k:1a", "filter:x", "a:b", "true:x", "union:u", "k:€😀", "k:v1\\.", "k:a\\.b", "k:x\\#", "k:end%2E"];
const X_BLANK: [&str; 4] = ["_:b1", "_:b.x", "_:1", "_:été"];
const X_BARE: [&str; 11] = ["FILTERx", "unionized", "x-y", "graphite", "selectx", "bindx", "a1", "valuesx", "trueish", "é1", "limitless"];
const X_LIT: [&str; 18] = [
    "\"a\\\"b\"", "\"x # y\"", "\"}{\"", "'q\"q'", "\"\"\"multi\nline \"quoted\" \"\"\"", "\"\"", "\"é€😀\"", "\"tab\\t\"", "\"\\u00e9\"", "\"a\"@en-GB", "\"1\"^^xsd:integer", "'''it's'''", "\"x\"^^<http://www.w3.org/2001/XMLSchema#string>", "\"SELECT * WHERE { ?s ?p ?o }\"", "'#'", "\"\\\\\"", "\"a\"@fr", "\"\\U0001F600\"",
];
const X_NUM: [&str; 9] = ["3", "-5", "+7", "1.5", ".5", "1e5", "1.5e-3", "2E+2", "007"];
const X_QT_GROUND: [&str; 3] = ["<< <http://k/e1> <http://k/p1> 3 >>", "<<k:a k:b \"v\"@en>>", "<< << k:a k:b k:c >> <http://k/p2> \"é\" >>"];
const X_QT_OPEN: [&str; 3] = ["<< ?qs k:p \"v\" >>", "<< <http://k/e1> ?qp _:qb >>", "<< << ?x a k:C >> k:saidBy _:w >>"];

struct Pr {
    r: Rng,
    toks: Vec<Tok>,
    nspans: usize,
    pending_open: Vec<usize>,
    /// % chance that a constant is replaced by an exotic spelling of its position
    exotic: usize,
    /// inside a DATA block: no variables
    ground: bool,
    allow_blank: bool,
    feats: BTreeSet<String>,
    prefixes: BTreeSet<usize>,
    nodes: usize,
    /// diagnosis mode: Some(f) = only the optional printing feature `f` fires, and always
    only: Option<&'static str>,
}

/// optional printing features (deviations from the plainest printing), the candidates of
/// the cause attribution
const FEATURES: [&str; 40] = [
    "dollar_variable", "exotic:iri", "exotic:prefixed_name", "exotic:blank_node", "exotic:quoted_triple", "exotic:bare_identifier", "exotic:number", "exotic:boolean", "exotic:literal", "exotic:a",
    "prefixed_name_for_iri", "number_respelled", "literal_respelled", "invented_predicate_object_lists", "trailing_semicolon", "optional_dot_after_triples", "abbreviate_same_subject", "comma_for_same_predicate",
    "arithmetic_redundant_parentheses", "decimal_in_arithmetic", "deep_arithmetic", "filter_redundant_parentheses", "double_negation_without_parentheses", "function_call_filter", "bare_arithmetic_filter",
    "group_holding_only_a_filter", "dot_after_block", "single_quoted_bind_argument", "bare_number_bind_argument", "values_parenthesised_single_variable", "aggregate_without_parentheses", "where_keyword_omitted",
    "from_clauses_interleaved", "order_condition_bare_variable", "order_by_commas", "extra_prefix_declaration", "missing_prologue", "legacy_alias_without_DATA", "quads_share_graph_block", "optional_dot_in_quad_block",
];

struct Item {
    v: Value,
    /// a `{ }` group whose only content is a FILTER or BIND: its scope is observable
    lone_scope: bool,
    triples: bool,
}

impl Pr {
    fn new(r: Rng, exotic: usize) -> Pr {
        Pr { r, toks: vec![], nspans: 0, pending_open: vec![], exotic, ground: false, allow_blank: true, feats: BTreeSet::new(), prefixes: BTreeSet::new(), nodes: 0, only: None }
    }
    /// does the optional feature `f` fire here? (num/den in normal mode)
    fn on(&mut self, f: &'static str, num: usize, den: usize) -> bool {
        debug_assert!(FEATURES.contains(&f), "{}", f);
        match self.only {
            None => self.r.chance(num, den),
            // (term classes are also tried inside invented `;` `,` lists)
            Some(g) => {
                g == f
                    || (f == "invented_predicate_object_lists" && g.starts_with("exotic:"))
                    // `,` and a trailing `;` need a statement with several predicate-object pairs
                    || ((g == "comma_for_same_predicate" || g == "trailing_semicolon") && (f == "abbreviate_same_subject" || f == "invented_predicate_object_lists"))
            }
        }
    }
    fn push(&mut self, s: &str, k: TK) {
        let open = std::mem::take(&mut self.pending_open);
        self.toks.push(Tok { s: s.to_string(), k, open, close: vec![] });
    }
    fn kw(&mut self, s: &str) {
        self.push(s, TK::Kw);
    }
    fn sym(&mut self, s: &str) {
        self.push(s, TK::Sym);
    }
    fn term(&mut self, s: &str) {
        self.feats.insert(format!("term:{}", term_class(s)));
        if let Some((p, _)) = s.split_once(':') {
            if !s.starts_with('<') && !s.starts_with('"') && !s.starts_with('\'') && !s.starts_with("_:") {
                if let Some(i) = PREFIXES.iter().position(|(n, _)| *n == p) {
                    self.prefixes.insert(i);
                }
            }
        }
        if s.contains("xsd:") {
            self.prefixes.insert(2);
        }
        self.push(s, TK::Term);
    }
    fn span_open(&mut self) -> usize {
        let id = self.nspans;
        self.nspans += 1;
        self.pending_open.push(id);
        id
    }
    fn span_close(&mut self, id: usize) {
        if let Some(t) = self.toks.last_mut() {
            t.close.push(id);
        }
    }

    fn var(&mut self, v: &str) -> String {
        if self.on("dollar_variable", 1, 10) {
            format!("${}", v)
        } else {
            format!("?{}", v)
        }
    }

    fn exotic_classes(&self, pos: Pos) -> Vec<(&'static str, usize)> {
        let mut v: Vec<(&'static str, usize)> = match pos {
            Pos::Subj => vec![("iri", 2), ("prefixed_name", 3), ("blank_node", 2), ("quoted_triple", 1), ("bare_identifier", 2)],
            Pos::Pred => vec![("a", 2), ("iri", 1), ("prefixed_name", 3)],
            Pos::Obj => vec![("iri", 1), ("prefixed_name", 2), ("blank_node", 1), ("quoted_triple", 1), ("bare_identifier", 1), ("number", 2), ("boolean", 1), ("literal", 5)],
            Pos::GraphName | Pos::From => vec![("iri", 1), ("prefixed_name", 1)],
            Pos::Cell | Pos::Operand => vec![("iri", 1), ("prefixed_name", 2), ("number", 2), ("boolean", 1), ("literal", 2)],
        };
        if !self.allow_blank {
            v.retain(|(c, _)| *c != "blank_node");
        }
        v
    }

    fn exotic_of_class(&mut self, class: &str) -> String {
        match class {
            "iri" => self.r.pick(&X_IRI).to_string(),
            "prefixed_name" => self.r.pick(&X_PNAME).to_string(),
            "blank_node" => self.r.pick(&X_BLANK).to_string(),
            "bare_identifier" => self.r.pick(&X_BARE).to_string(),
            "number" => self.r.pick(&X_NUM).to_string(),
            "boolean" => self.r.pick(&["true", "false"]).to_string(),
            "literal" => self.r.pick(&X_LIT).to_string(),
            "a" => "a".to_string(),
            _ => {
                if self.ground || !self.allow_blank || self.r.coin() {
                    self.r.pick(&X_QT_GROUND).to_string()
                } else {
                    self.r.pick(&X_QT_OPEN).to_string()
                }
            }
        }
    }

    /// an exotic spelling for the position, or None (diagnosis mode: class not legal here)
    fn exotic_term(&mut self, pos: Pos) -> Option<String> {
        let classes = self.exotic_classes(pos);
        let class = match self.only {
            None => {
                let w: Vec<usize> = classes.iter().map(|c| c.1).collect();
                classes[self.r.weighted(&w)].0
            }
            Some(f) => {
                let c = f.strip_prefix("exotic:")?;
                classes.iter().find(|x| x.0 == c)?.0
            }
        };
        Some(self.exotic_of_class(class))
    }

    fn spell_const(&mut self, c: &str, pos: Pos) -> String {
        let want = match self.only {
            None => self.r.chance(self.exotic, 100),
            Some(f) => f.starts_with("exotic:"),
        };
        if want {
            if let Some(t) = self.exotic_term(pos) {
                return t;
            }
        }
        if c.starts_with("_:") {
            return c.to_string();
        }
        if ds::is_iri(c) {
            if let Some(local) = c.strip_prefix(ds::NS) {
                if self.on("prefixed_name_for_iri", 3, 10) {
                    return format!("k:{}", local);
                }
            }
            return format!("<{}>", c);
        }
        if ds::is_num(c) {
            if !self.on("number_respelled", 3, 10) {
                return c.to_string();
            }
            return match self.r.below(3) {
                0 => format!("+{}", c),
                1 => format!("{}.0", c),
                2 => format!("0{}", c),
                _ => c.to_string(),
            };
        }
        let esc = c.replace('\\', "\\\\").replace('"', "\\\"");
        if !self.on("literal_respelled", 5, 10) {
            return format!("\"{}\"", esc);
        }
        match self.r.below(5) {
            0 => format!("'{}'", c.replace('\\', "\\\\").replace('\'', "\\'")),
            1 => format!("\"\"\"{}\"\"\"", esc),
            2 => format!("\"{}\"@en", esc),
            3 => format!("\"{}\"^^xsd:string", esc),
            4 => format!("\"{}\"^^<http://www.w3.org/2001/XMLSchema#string>", esc),
            _ => format!("\"{}\"", esc),
        }
    }

    fn spell(&mut self, t: &T, pos: Pos) -> String {
        match t {
            T::Var(v) => self.var(v),
            T::Const(c) => self.spell_const(c, pos),
        }
    }

    // ---- triples ------------------------------------------------------------------------

    /// one triples-same-subject statement starting with (s,p,o), optionally extended with
    /// further given triples of the same subject and with invented `;` / `,` continuations
    fn statement(&mut self, s: &str, rest: &[(String, String)], at_end_of_block: bool) -> Value {
        // rest: (predicate, object) pairs in order; the first pair always prints its predicate
        let mut triples: Vec<Value> = vec![];
        self.term(s);
        let mut prev_p: Option<String> = None;
        for (i, (p, o)) in rest.iter().enumerate() {
            let same = prev_p.as_deref() == Some(p.as_str());
            if i > 0 {
                if same && self.on("comma_for_same_predicate", 2, 3) {
                    self.sym(",");
                    self.feats.insert("abbrev:,".into());
                } else {
                    self.sym(";");
                    self.feats.insert("abbrev:;".into());
                    self.term(p);
                }
            } else {
                self.term(p);
            }
            self.term(o);
            triples.push(json!([s, p, o]));
            prev_p = Some(p.clone());
        }
        if at_end_of_block && self.on("trailing_semicolon", 1, 12) {
            self.sym(";");
            self.feats.insert("abbrev:trailing;".into());
        }
        self.nodes += triples.len();
        Value::from(triples)
    }

    /// extra (predicate, object) pairs invented at print time
    fn invent_pairs(&mut self, first_p: &str, out: &mut Vec<(String, String)>) {
        if !self.on("invented_predicate_object_lists", 1, 6) {
            return;
        }
        let n = self.r.range(1, 3);
        let mut p = first_p.to_string();
        for _ in 0..n {
            if self.r.coin() {
                p = if self.ground || self.r.chance(4, 5) { self.invented(Pos::Pred) } else { self.var("p") };
            }
            let o = if self.ground || self.r.chance(2, 3) { self.invented(Pos::Obj) } else { self.var("x") };
            out.push((p.clone(), o));
        }
    }

    /// a term for an invented list member (plain terms in diagnosis mode)
    fn invented(&mut self, pos: Pos) -> String {
        if let Some(g) = self.only {
            if let Some(c) = g.strip_prefix("exotic:") {
                if let Some(cl) = self.exotic_classes(pos).iter().find(|x| x.0 == c).map(|x| x.0) {
                    return self.exotic_of_class(cl);
                }
            }
            return if pos == Pos::Pred { "<http://k/p9>".to_string() } else { "<http://k/e9>".to_string() };
        }
        let classes = self.exotic_classes(pos);
        let w: Vec<usize> = classes.iter().map(|c| c.1).collect();
        let c = classes[self.r.weighted(&w)].0;
        self.exotic_of_class(c)
    }

    fn bgp(&mut self, ts: &[TP], next_is_triples: bool, last_in_group: bool, items: &mut Vec<Item>) {
        let abbreviate = self.on("abbreviate_same_subject", 1, 2);
        let mut i = 0;
        while i < ts.len() {
            let s = self.spell(&ts[i].0, Pos::Subj);
            let mut pairs: Vec<(String, String)> = vec![];
            let p0 = self.spell(&ts[i].1, Pos::Pred);
            let o0 = self.spell(&ts[i].2, Pos::Obj);
            pairs.push((p0, o0));
            let mut j = i + 1;
            while abbreviate && j < ts.len() && ts[j].0 == ts[i].0 {
                let p = if ts[j].1 == ts[j - 1].1 { pairs.last().unwrap().0.clone() } else { self.spell(&ts[j].1, Pos::Pred) };
                let o = self.spell(&ts[j].2, Pos::Obj);
                pairs.push((p, o));
                j += 1;
            }
            let p_first = pairs[0].0.clone();
            self.invent_pairs(&p_first, &mut pairs);
            let last_stmt = j >= ts.len();
            let followed_by_triples = !last_stmt || next_is_triples;
            let will_dot = followed_by_triples || self.on("optional_dot_after_triples", 1, 2);
            let at_end = will_dot || (last_stmt && last_in_group);
            let v = self.statement(&s, &pairs, at_end);
            if will_dot {
                self.sym(".");
            }
            items.push(Item { v: json!({ "bgp": v }), lone_scope: false, triples: true });
            i = j;
        }
    }

    // ---- expressions --------------------------------------------------------------------

    fn arith(&mut self, a: &Arith, parent: u8, right: bool) -> Value {
        let (prec, op) = match a {
            Arith::Var(_) | Arith::Num(_) => (3u8, ""),
            Arith::Add(..) => (1, "+"),
            Arith::Sub(..) => (1, "-"),
            Arith::Mul(..) => (2, "*"),
            Arith::Div(..) => (2, "/"),
        };
        let paren = prec < parent || (prec == parent && right) || self.on("arithmetic_redundant_parentheses", 1, 8);
        if paren {
            self.sym("(");
            self.feats.insert("arith:parens".into());
        }
        let v = match a {
            Arith::Var(v) => {
                let s = self.var(v);
                self.term(&s);
                json!({ "t": s })
            }
            Arith::Num(n) => {
                let s = if self.on("decimal_in_arithmetic", 1, 6) { format!("{}.5", n) } else { n.to_string() };
                self.term(&s);
                json!({ "t": s })
            }
            Arith::Add(l, r) | Arith::Sub(l, r) | Arith::Mul(l, r) | Arith::Div(l, r) => {
                let inner = if paren { 0 } else { prec };
                let _ = inner;
                let lv = self.arith(l, prec, false);
                self.sym(op);
                let rv = self.arith(r, prec, true);
                let mut m = serde_json::Map::new();
                m.insert(op.to_string(), json!([lv, rv]));
                Value::Object(m)
            }
        };
        if paren {
            self.sym(")");
        }
        v
    }

    fn random_arith(&mut self, depth: usize, vars: &[String]) -> Arith {
        if depth == 0 || self.r.chance(1, 3) {
            return if !vars.is_empty() && self.r.coin() { Arith::Var(self.r.pick(vars).clone()) } else { Arith::Num(self.r.below(10) as i64) };
        }
        let l = Box::new(self.random_arith(depth - 1, vars));
        let r = Box::new(self.random_arith(depth - 1, vars));
        match self.r.below(4) {
            0 => Arith::Add(l, r),
            1 => Arith::Sub(l, r),
            2 => Arith::Mul(l, r),
            _ => Arith::Div(l, r),
        }
    }

    fn cmp_op(&mut self, op: &str) {
        if op == "=" || op == "!=" {
            self.sym(op);
        } else {
            self.push(op, TK::Spaced);
        }
    }

    /// ctx: 0 = an `||` operand list may appear bare, 1 = `&&` level, 2 = an atom is required
    fn expr(&mut self, e: &Expr, ctx: u8) -> Value {
        self.nodes += 1;
        let my = match e {
            Expr::Or(..) => 0u8,
            Expr::And(..) => 1,
            _ => 2,
        };
        let paren = my < ctx || (!matches!(e, Expr::Not(_)) && self.on("filter_redundant_parentheses", 1, 8));
        if paren {
            self.sym("(");
            self.feats.insert("filter:parens".into());
        }
        let v = match e {
            Expr::Or(a, b) => {
                let x = self.expr(a, 0);
                self.sym("||");
                let y = self.expr(b, 1);
                self.feats.insert("filter:||".into());
                json!({ "or": [x, y] })
            }
            Expr::And(a, b) => {
                let x = self.expr(a, 1);
                self.sym("&&");
                let y = self.expr(b, 2);
                self.feats.insert("filter:&&".into());
                json!({ "and": [x, y] })
            }
            Expr::Not(a) => {
                self.sym("!");
                self.feats.insert("filter:!".into());
                if matches!(**a, Expr::Not(_)) && self.on("double_negation_without_parentheses", 1, 2) {
                    let x = self.expr(a, 2);
                    json!({ "not": x })
                } else {
                    self.sym("(");
                    let x = self.expr(a, 0);
                    self.sym(")");
                    json!({ "not": x })
                }
            }
            Expr::CmpL(c, op, v) => {
                let lt = self.spell(&T::Const(c.clone()), Pos::Operand);
                let ls = self.span_open();
                self.term(&lt);
                self.span_close(ls);
                self.cmp_op(op);
                let r = self.var(v);
                let rs = self.span_open();
                self.term(&r);
                self.span_close(rs);
                self.feats.insert("filter:constant_on_the_left".into());
                json!({"cmp": [{"$span": ls}, op, {"$span": rs}], "la": {"t": lt}, "ra": {"t": r}})
            }
            Expr::Cmp(v, op, t) => {
                let l = self.var(v);
                let ls = self.span_open();
                self.term(&l);
                self.span_close(ls);
                self.cmp_op(op);
                let rt = self.spell(t, Pos::Operand);
                let rs = self.span_open();
                self.term(&rt);
                self.span_close(rs);
                json!({"cmp": [{"$span": ls}, op, {"$span": rs}], "la": {"t": l}, "ra": {"t": rt}})
            }
            Expr::ArithCmp(a, op, b) => {
                // sometimes a deeper expression than the generator's
                let mut vs = vec![];
                a.vars(&mut vs);
                b.vars(&mut vs);
                let (a2, b2) = if self.on("deep_arithmetic", 1, 3) { (self.random_arith(3, &vs), self.random_arith(2, &vs)) } else { (a.clone(), b.clone()) };
                self.feats.insert("filter:arithmetic_comparison".into());
                let ls = self.span_open();
                let la = self.arith(&a2, 0, false);
                self.span_close(ls);
                self.cmp_op(op);
                let rs = self.span_open();
                let ra = self.arith(&b2, 0, false);
                self.span_close(rs);
                json!({"cmp": [{"$span": ls}, op, {"$span": rs}], "la": la, "ra": ra})
            }
        };
        if paren {
            self.sym(")");
        }
        v
    }

    fn filter(&mut self, e: &Expr) -> Value {
        self.kw("FILTER");
        self.sym("(");
        let v = self.expr(e, 0);
        self.sym(")");
        json!({ "filter": v })
    }

    /// filters that the generator's AST cannot express
    fn extra_filter(&mut self, call: bool) -> Value {
        self.kw("FILTER");
        self.sym("(");
        let v = if call {
            let (name, n) = *self.r.pick(&[("isTRIPLE", 1usize), ("SUBJECT", 1), ("PREDICATE", 1), ("OBJECT", 1), ("TRIPLE", 3)]);
            self.kw(name);
            self.sym("(");
            let mut args = vec![];
            for i in 0..n {
                if i > 0 {
                    self.sym(",");
                }
                let a = match self.r.below(4) {
                    0 => self.r.pick(&X_QT_OPEN).to_string(),
                    1 if self.only.is_none() => {
                        // argument classes of the function-call grammar (no booleans there)
                        let c = *self.r.pick(&["iri", "prefixed_name", "number", "literal"]);
                        self.exotic_of_class(c)
                    }
                    _ => self.var("t"),
                };
                self.term(&a);
                args.push(a);
            }
            self.sym(")");
            self.feats.insert("filter:function_call".into());
            json!({ "call": [name, args] })
        } else {
            // (a leading parenthesis would be read as a parenthesised boolean expression)
            let l = self.var("n");
            self.term(&l);
            self.sym("+");
            let rhs = self.random_arith(2, &["m".to_string()]);
            let rv = self.arith(&rhs, 1, true);
            let v = json!({"+": [{"t": l}, rv]});
            self.feats.insert("filter:bare_arithmetic".into());
            json!({ "arith": v })
        };
        self.sym(")");
        self.nodes += 1;
        json!({ "filter": v })
    }

    // ---- groups -------------------------------------------------------------------------

    fn collapse(items: Vec<Item>) -> (Value, bool) {
        match items.len() {
            0 => (json!("unit"), false),
            1 => {
                let it = items.into_iter().next().unwrap();
                let lone = it.lone_scope || it.v.get("filter").is_some() || it.v.get("bind").is_some();
                (it.v, lone)
            }
            _ => (json!({ "join": items.into_iter().map(|i| i.v).collect::<Vec<_>>() }), false),
        }
    }

    fn items(&mut self, g: &[P]) -> Vec<Item> {
        let mut items: Vec<Item> = vec![];
        for (i, p) in g.iter().enumerate() {
            let last = i + 1 == g.len();
            let next_is_triples = matches!(g.get(i + 1), Some(P::Bgp(ts)) if !ts.is_empty());
            if !self.ground && self.on("function_call_filter", 1, 50) {
                let v = self.extra_filter(true);
                items.push(Item { v, lone_scope: false, triples: false });
            }
            if !self.ground && self.on("bare_arithmetic_filter", 1, 50) {
                let v = self.extra_filter(false);
                items.push(Item { v, lone_scope: false, triples: false });
            }
            if !self.ground && self.on("group_holding_only_a_filter", 1, 80) {
                // a nested group that holds nothing but a FILTER: its scope is its own
                self.sym("{");
                let e = Expr::Cmp("a".into(), "=", T::Const("1".into()));
                let v = self.filter(&e);
                self.sym("}");
                self.feats.insert("group:lone_filter".into());
                items.push(Item { v, lone_scope: true, triples: false });
            }
            match p {
                P::Bgp(ts) => {
                    // a trailing `;` may also stand before a keyword-introduced or braced element
                    let closes_block = last || matches!(g.get(i + 1), Some(e) if !matches!(e, P::Bgp(_)));
                    self.bgp(ts, next_is_triples, closes_block, &mut items)
                }
                P::Group(inner) => {
                    self.sym("{");
                    let its = self.items(inner);
                    self.sym("}");
                    self.maybe_dot();
                    let (v, lone) = Pr::collapse(its);
                    self.nodes += 1;
                    self.feats.insert("group:nested".into());
                    items.push(Item { v, lone_scope: lone, triples: false });
                }
                P::Union(bs) => {
                    let mut vs = vec![];
                    for (bi, b) in bs.iter().enumerate() {
                        if bi > 0 {
                            self.kw("UNION");
                        }
                        vs.push(self.group(b));
                    }
                    self.maybe_dot();
                    self.nodes += 1;
                    self.feats.insert("UNION".into());
                    items.push(Item { v: json!({ "union": vs }), lone_scope: false, triples: false });
                }
                P::Graph(n, inner) => {
                    self.kw("GRAPH");
                    let name = match n {
                        GName::Iri(i) => self.spell_const(i, Pos::GraphName),
                        GName::Var(v) => self.var(v),
                    };
                    self.term(&name);
                    let v = self.group(inner);
                    self.maybe_dot();
                    self.nodes += 1;
                    self.feats.insert("GRAPH".into());
                    items.push(Item { v: json!({"graph": name, "p": v}), lone_scope: false, triples: false });
                }
                P::Filter(e) => {
                    let v = self.filter(e);
                    items.push(Item { v, lone_scope: false, triples: false });
                }
                P::Bind(args, v) => {
                    self.kw("BIND");
                    self.sym("(");
                    self.kw("CONCAT");
                    self.sym("(");
                    let mut av = vec![];
                    for (ai, a) in args.iter().enumerate() {
                        if ai > 0 {
                            self.sym(",");
                        }
                        match a {
                            BindArg::Var(v) => {
                                let s = self.var(v);
                                self.term(&s);
                                av.push(s);
                            }
                            BindArg::Str(s) => {
                                if ds::is_num(s) && self.on("bare_number_bind_argument", 1, 2) {
                                    self.term(s);
                                } else if self.on("single_quoted_bind_argument", 1, 4) {
                                    self.term(&format!("'{}'", s));
                                } else {
                                    self.term(&format!("\"{}\"", s));
                                }
                                av.push(s.clone());
                            }
                        }
                    }
                    self.sym(")");
                    self.kw("AS");
                    let out = self.var(v);
                    self.term(&out);
                    self.sym(")");
                    self.nodes += 1;
                    self.feats.insert("BIND".into());
                    items.push(Item { v: json!({ "bind": ["CONCAT", av, out] }), lone_scope: false, triples: false });
                }
                P::Values(vars, rows) => {
                    self.kw("VALUES");
                    let single = vars.len() == 1 && !self.on("values_parenthesised_single_variable", 1, 8);
                    let mut vv = vec![];
                    if !single {
                        self.sym("(");
                    }
                    for v in vars {
                        let s = self.var(v);
                        self.term(&s);
                        vv.push(s);
                    }
                    if !single {
                        self.sym(")");
                    }
                    self.sym("{");
                    let mut rv = vec![];
                    for row in rows {
                        if !single {
                            self.sym("(");
                        }
                        let mut cells = vec![];
                        for c in row {
                            match c {
                                None => {
                                    self.kw("UNDEF");
                                    cells.push(Value::Null);
                                }
                                Some(t) => {
                                    let s = self.spell_const(t, Pos::Cell);
                                    self.term(&s);
                                    cells.push(Value::from(s));
                                }
                            }
                        }
                        if !single {
                            self.sym(")");
                        }
                        rv.push(Value::from(cells));
                    }
                    self.sym("}");
                    self.nodes += 1;
                    self.feats.insert("VALUES".into());
                    items.push(Item { v: json!({"values": {"vars": vv, "rows": rv}}), lone_scope: false, triples: false });
                }
                P::Sub(q) => {
                    self.sym("{");
                    let v = self.select(q);
                    self.sym("}");
                    self.maybe_dot();
                    self.nodes += 1;
                    self.feats.insert("SUBSELECT".into());
                    items.push(Item { v: json!({ "sub": v }), lone_scope: false, triples: false });
                }
            }
        }
        // a scoped single-element group only stays distinguishable inside a real sequence
        if items.len() >= 2 {
            for it in items.iter_mut() {
                if it.lone_scope {
                    it.v = json!({ "$scope": it.v.clone() });
                    it.lone_scope = false;
                }
            }
        }
        let _ = items.iter().filter(|i| i.triples).count();
        items
    }

    fn maybe_dot(&mut self) {
        if self.on("dot_after_block", 1, 6) {
            self.sym(".");
            self.feats.insert("dot_after_block".into());
        }
    }

    /// `{ … }` with the collapse rule of a group graph pattern
    fn group(&mut self, g: &[P]) -> Value {
        self.sym("{");
        let its = self.items(g);
        self.sym("}");
        Pr::collapse(its).0
    }

    // ---- SELECT -------------------------------------------------------------------------

    fn select(&mut self, q: &Select) -> Value {
        self.kw("SELECT");
        if q.distinct {
            self.kw("DISTINCT");
        }
        let mut vars = vec![];
        match &q.proj {
            Proj::Star => {
                self.sym("*");
                vars.push(json!(["*", "*", null]));
            }
            Proj::Items(items) => {
                for it in items {
                    match it {
                        ProjItem::Var(v) => {
                            let s = self.var(v);
                            self.term(&s);
                            vars.push(json!(["VAR", s, null]));
                        }
                        ProjItem::Agg(a, v, alias) => {
                            let wrapped = !self.on("aggregate_without_parentheses", 3, 10);
                            if wrapped {
                                self.sym("(");
                            }
                            self.kw(a.name());
                            self.sym("(");
                            let s = self.var(v);
                            self.term(&s);
                            self.sym(")");
                            self.kw("AS");
                            let al = self.var(alias);
                            self.term(&al);
                            if wrapped {
                                self.sym(")");
                            }
                            self.feats.insert("aggregate".into());
                            vars.push(json!([a.name(), s, al]));
                        }
                    }
                }
            }
        }
        let mut from = vec![];
        let mut from_named = vec![];
        // FROM and FROM NAMED clauses may interleave
        let mut clauses: Vec<(bool, &String)> = q.from.iter().map(|f| (false, f)).chain(q.from_named.iter().map(|f| (true, f))).collect();
        if self.on("from_clauses_interleaved", 1, 2) {
            self.r.shuffle(&mut clauses);
        }
        for (named, f) in clauses {
            self.kw("FROM");
            if named {
                self.kw("NAMED");
            }
            let s = self.spell_const(f, Pos::From);
            self.term(&s);
            if named {
                from_named.push(s);
            } else {
                from.push(s);
            }
        }
        if !self.on("where_keyword_omitted", 1, 7) {
            self.kw("WHERE");
        } else {
            self.feats.insert("WHERE_omitted".into());
        }
        let gs = self.span_open();
        let pattern = self.group(&q.group);
        self.span_close(gs);
        let mut group_by = vec![];
        if !q.group_by.is_empty() {
            self.kw("GROUP");
            self.kw("BY");
            for v in &q.group_by {
                let s = self.var(v);
                self.term(&s);
                group_by.push(s);
            }
        }
        let mut order = vec![];
        if !q.order.is_empty() {
            self.kw("ORDER");
            self.kw("BY");
            for (i, (v, desc)) in q.order.iter().enumerate() {
                if i > 0 && self.on("order_by_commas", 1, 5) {
                    self.sym(",");
                }
                let s = self.var(v);
                if *desc {
                    self.kw("DESC");
                    self.sym("(");
                    self.term(&s);
                    self.sym(")");
                } else if self.on("order_condition_bare_variable", 2, 5) {
                    self.term(&s);
                } else {
                    self.kw("ASC");
                    self.sym("(");
                    self.term(&s);
                    self.sym(")");
                }
                order.push(json!([s, if *desc { "DESC" } else { "ASC" }]));
            }
        }
        if let Some(l) = q.limit {
            self.kw("LIMIT");
            self.term(&l.to_string());
        }
        self.nodes += 1;
        json!({"distinct": q.distinct, "vars": vars, "from": from, "from_named": from_named, "pattern": pattern, "group_by": group_by, "order": order, "limit": q.limit, "$group_span": gs})
    }

    // ---- updates ------------------------------------------------------------------------

    fn tt(&mut self, t: &TT, pos: Pos) -> String {
        match t {
            TT::Var(v) => self.var(v),
            TT::Const(c) => self.spell_const(c, pos),
            TT::Blank(b) => format!("_:{}", b),
        }
    }

    /// `{ quads }`; returns the expected quad list
    fn quads(&mut self, qs: &[QT]) -> Vec<Value> {
        let mut out: Vec<Value> = vec![];
        self.sym("{");
        let mut i = 0;
        while i < qs.len() {
            let q = &qs[i];
            match &q.graph {
                None => {
                    let s = self.tt(&q.s, Pos::Subj);
                    let p = self.tt(&q.p, Pos::Pred);
                    let o = self.tt(&q.o, Pos::Obj);
                    let mut pairs = vec![(p.clone(), o)];
                    self.invent_pairs(&p, &mut pairs);
                    let next_plain = matches!(qs.get(i + 1), Some(n) if n.graph.is_none());
                    let will_dot = next_plain || self.on("optional_dot_in_quad_block", 1, 2);
                    let v = self.statement(&s, &pairs, will_dot || i + 1 == qs.len());
                    if will_dot {
                        self.sym(".");
                    }
                    for t in v.as_array().unwrap() {
                        out.push(json!([null, t[0], t[1], t[2]]));
                    }
                    i += 1;
                }
                Some(g) => {
                    self.kw("GRAPH");
                    let gn = self.tt(g, Pos::GraphName);
                    self.term(&gn);
                    self.sym("{");
                    // consecutive quads of the same graph may share the block
                    let mut j = i;
                    loop {
                        let q = &qs[j];
                        let s = self.tt(&q.s, Pos::Subj);
                        let p = self.tt(&q.p, Pos::Pred);
                        let o = self.tt(&q.o, Pos::Obj);
                        let mut pairs = vec![(p.clone(), o)];
                        self.invent_pairs(&p, &mut pairs);
                        let more = j + 1 < qs.len() && qs[j + 1].graph.as_ref() == Some(g) && self.on("quads_share_graph_block", 1, 2);
                        let will_dot = more || self.on("optional_dot_in_quad_block", 1, 2);
                        let v = self.statement(&s, &pairs, true);
                        if will_dot {
                            self.sym(".");
                        }
                        for t in v.as_array().unwrap() {
                            out.push(json!([gn, t[0], t[1], t[2]]));
                        }
                        j += 1;
                        if !more {
                            break;
                        }
                    }
                    self.sym("}");
                    self.maybe_dot();
                    self.feats.insert("quads:GRAPH_block".into());
                    i = j;
                }
            }
        }
        self.sym("}");
        out
    }

    /// returns (expected for the strict entry point, expected with legacy aliases enabled);
    /// `None` = must be rejected
    fn update(&mut self, u: &Upd) -> (Option<Value>, Option<Value>) {
        self.feats.insert(format!("update:{}", u.kind()));
        match u {
            Upd::InsertData(q) | Upd::DeleteData(q) => {
                let ins = matches!(u, Upd::InsertData(_));
                self.kw(if ins { "INSERT" } else { "DELETE" });
                let alias = self.on("legacy_alias_without_DATA", 1, 4);
                if !alias {
                    self.kw("DATA");
                } else {
                    self.feats.insert("update:legacy_alias_without_DATA".into());
                }
                self.ground = true;
                self.allow_blank = ins;
                let qv = self.quads(q);
                self.ground = false;
                self.allow_blank = true;
                let v = if ins { json!({ "insert_data": qv }) } else { json!({ "delete_data": qv }) };
                (if alias { None } else { Some(v.clone()) }, Some(v))
            }
            Upd::InsertWhere { ins, pattern } => {
                self.kw("INSERT");
                let iv = self.quads(ins);
                self.kw("WHERE");
                let w = self.group(pattern);
                let v = json!({"insert_where": {"insert": iv, "where": w}});
                (Some(v.clone()), Some(v))
            }
            Upd::DeleteWhere { del, pattern } => {
                self.kw("DELETE");
                self.allow_blank = false;
                let dv = self.quads(del);
                self.allow_blank = true;
                self.kw("WHERE");
                let w = self.group(pattern);
                let v = json!({"delete_where": {"delete": dv, "where": w}});
                (Some(v.clone()), Some(v))
            }
            Upd::DeleteInsertWhere { del, ins, pattern } => {
                self.kw("DELETE");
                self.allow_blank = false;
                let dv = self.quads(del);
                self.allow_blank = true;
                self.kw("INSERT");
                let iv = self.quads(ins);
                self.kw("WHERE");
                let w = self.group(pattern);
                let v = json!({"delete_insert_where": {"delete": dv, "insert": iv, "where": w}});
                (Some(v.clone()), Some(v))
            }
            Upd::DeleteWhereShort(q) => {
                self.kw("DELETE");
                self.kw("WHERE");
                self.allow_blank = false;
                let qv = self.quads(q);
                self.allow_blank = true;
                // the quad block is template and pattern: one BGP per quad, GRAPH-wrapped
                let mut pats: Vec<Value> = qv
                    .iter()
                    .map(|q| {
                        let b = json!({"bgp": [[q[1], q[2], q[3]]]});
                        if q[0].is_null() {
                            b
                        } else {
                            json!({"graph": q[0], "p": b})
                        }
                    })
                    .collect();
                let w = match pats.len() {
                    0 => json!("unit"),
                    1 => pats.pop().unwrap(),
                    _ => json!({ "join": pats }),
                };
                let v = json!({"delete_where_short": {"delete": qv, "where": w}});
                (Some(v.clone()), Some(v))
            }
        }
    }

    /// PREFIX declarations for (some of) the prefixes in use; returns the expected map
    fn prologue(&mut self) -> (Vec<Tok>, Value) {
        let mut toks = vec![];
        let mut map = serde_json::Map::new();
        let mut decl: Vec<usize> = self.prefixes.iter().copied().collect();
        if self.on("extra_prefix_declaration", 1, 5) {
            decl.push(self.r.below(PREFIXES.len())); // unused or repeated declaration
        }
        if self.on("missing_prologue", 1, 10) {
            decl.clear(); // prefixes are not resolved by the parser: a missing prologue still parses
        }
        self.r.shuffle(&mut decl);
        for i in decl {
            let (n, iri) = PREFIXES[i];
            toks.push(Tok { s: "PREFIX".into(), k: TK::Kw, open: vec![], close: vec![] });
            toks.push(Tok { s: format!("{}:", n), k: TK::Term, open: vec![], close: vec![] });
            toks.push(Tok { s: format!("<{}>", iri), k: TK::Term, open: vec![], close: vec![] });
            map.insert(n.to_string(), Value::from(iri));
        }
        (toks, Value::Object(map))
    }
}

/// Normal form of a parsed tree: a group that is the whole pattern of a SELECT, GRAPH,
/// UNION branch or WHERE clause may be represented as `Join([x])` or as `x` (its scope is
/// explicit either way); inside a sequence of siblings the two are different trees.
fn unwrap_whole_pattern_joins(v: &Value, inside_join_list: bool) -> Value {
    match v {
        Value::Object(m) => {
            if !inside_join_list && m.len() == 1 {
                if let Some(Value::Array(a)) = m.get("join") {
                    if a.len() == 1 {
                        return unwrap_whole_pattern_joins(&a[0], false);
                    }
                }
            }
            Value::Object(
                m.iter()
                    .map(|(k, x)| {
                        let nv = if k == "join" {
                            match x {
                                Value::Array(a) => Value::Array(a.iter().map(|e| unwrap_whole_pattern_joins(e, true)).collect()),
                                other => other.clone(),
                            }
                        } else {
                            unwrap_whole_pattern_joins(x, false)
                        };
                        (k.clone(), nv)
                    })
                    .collect(),
            )
        }
        Value::Array(a) => Value::Array(a.iter().map(|e| unwrap_whole_pattern_joins(e, false)).collect()),
        _ => v.clone(),
    }
}

/// remove the monitor's bookkeeping keys from an expected tree
fn strip_marks(v: &Value) -> Value {
    match v {
        Value::Object(m) => Value::Object(m.iter().filter(|(k, _)| k.as_str() != "$group_span").map(|(k, x)| (k.clone(), strip_marks(x))).collect()),
        Value::Array(a) => Value::Array(a.iter().map(strip_marks).collect()),
        _ => v.clone(),
    }
}

// ---------------------------------------------------------------------------------------
// generated cases

pub struct Printed {
    pub toks: Vec<Tok>,
    pub nspans: usize,
    /// expected (strict entry point, alias-enabled entry point); None = must be rejected
    pub strict: Option<Value>,
    pub alias: Option<Value>,
    prefixes: Value,
    pub is_select: bool,
    group_span: Option<usize>,
    feats: BTreeSet<String>,
    nodes: usize,
    tree_debug: String,
}

fn small_state(r: &mut Rng) -> ds::Dataset {
    let v = ds::Vocab { n_ent: 4, n_pred: 4, n_graph: 2, n_num: 4, n_word: 2 };
    let mut d = ds::gen_dataset(r, &v, 6);
    d.graphs.insert(ds::graph(0));
    d.graphs.insert(ds::graph(1));
    d
}

/// one generated request, printed into tokens together with its normal form
pub fn gen_printed(r: &mut Rng, decor: Rng, exotic: usize, only: Option<&'static str>) -> Printed {
    let state = small_state(r);
    let mut pr = Pr::new(decor, exotic);
    pr.only = only;
    if r.chance(65, 100) {
        let mut g = Gen::new(r, &state, 4, 4, 4);
        g.max_depth = 3;
        let (q, _) = g.gen_select(0, true);
        let v = pr.select(&q);
        let gs = v["$group_span"].as_u64().map(|x| x as usize);
        let (pro, pmap) = pr.prologue();
        let mut toks = pro;
        toks.extend(pr.toks.drain(..));
        let v = strip_marks(&v);
        Printed { toks, nspans: pr.nspans, strict: Some(json!({ "select": v })), alias: Some(json!({ "select": v })), prefixes: pmap, is_select: true, group_span: gs, feats: pr.feats, nodes: pr.nodes, tree_debug: format!("{:?}", q) }
    } else {
        let mut ug = UGen { r, n_ent: 4, n_pred: 4, n_num: 4, n_graph: 2 };
        let u = ug.gen(&state);
        let (s, a) = pr.update(&u);
        let (pro, pmap) = pr.prologue();
        let mut toks = pro;
        toks.extend(pr.toks.drain(..));
        Printed { toks, nspans: pr.nspans, strict: s.map(|v| json!({ "update": strip_marks(&v) })), alias: a.map(|v| json!({ "update": strip_marks(&v) })), prefixes: pmap, is_select: false, group_span: None, feats: pr.feats, nodes: pr.nodes, tree_debug: format!("{:?}", u) }
    }
}

fn class_at(p: &Printed, laid: &Laid, pos: i64) -> String {
    if pos < 0 {
        return "unknown".into();
    }
    let pos = pos as usize;
    for (i, (a, b)) in laid.tok_at.iter().enumerate() {
        if pos < *b || i + 1 == laid.tok_at.len() {
            let t = &p.toks[i];
            let _ = a;
            return match t.k {
                TK::Kw => format!("keyword:{}", t.s),
                TK::Sym | TK::Spaced => format!("symbol:{}", t.s),
                TK::Term => format!("term:{}", term_class(&t.s)),
            };
        }
    }
    "end_of_input".into()
}

/// report what an entry point did with a printed tree against what it had to do
#[allow(clippy::too_many_arguments)]
fn judge_faithful(ctx: &mut Ctx, pool: &mut Pool, k: u64, p: &Printed, laid: &Laid, entry: &str, text: &str, expected: Option<Value>, expected_collapsed: Option<Value>, expected_rest: usize, style: &Style) {
    ctx.add_evals(1);
    ctx.count(&format!("parses.{}", entry), 1);
    let reply = pool.ask(entry, true, text);
    let witness = |extra: Value| json!({"entry": entry, "text": clip(text, 1500), "generated_tree": clip(&p.tree_debug, 1200), "layout": format!("{:?}", style), "observed": extra});
    match reply {
        Reply::Ok { rest, dump } => {
            ctx.count(&format!("accepted.{}", entry), 1);
            let Some(exp) = expected else {
                ctx.violation(json!({"kind": "request_outside_the_entry_points_grammar_accepted", "entry": entry}), witness(json!({ "dump": dump })));
                return;
            };
            match rest.parse::<usize>() {
                Ok(n) if n == expected_rest => {}
                _ => {
                    ctx.violation(json!({"kind": "unconsumed_rest_wrong", "entry": entry}), witness(json!({"rest": rest, "expected_rest_len": expected_rest})));
                    return;
                }
            }
            let got = unwrap_whole_pattern_joins(&dump.unwrap_or(Value::Null), false);
            if let Some((path, e, g)) = diff(&exp, &got, "") {
                // is the difference exactly the collapse of scope-bearing single-element groups?
                let collapsed = expected_collapsed.map(|c| diff(&c, &got, "").is_none()).unwrap_or(false);
                if collapsed {
                    ctx.count("trees_that_lost_the_scope_of_a_single_element_group", 1);
                    // the first difference is `join` expected where the lone element itself was parsed
                    let element = g.as_array().and_then(|a| a.first()).and_then(|x| x.as_str()).unwrap_or("unknown").to_string();
                    ctx.count(&format!("trees_that_lost_the_scope_of_a_single_element_group.{}", element), 1);
                    ctx.violation(json!({"kind": "nesting_lost", "cause": "group_of_one_element_is_merged_into_the_enclosing_group", "element": element}), witness(json!({"first_difference_at": path, "expected": e, "parsed": g})));
                } else {
                    let cause = attribute(ctx, pool, k, false);
                    // the innermost two steps of the path: stable across entry points and nesting
                    let segs: Vec<&str> = path.split('.').filter(|x| !x.is_empty()).collect();
                    let at = segs[segs.len().saturating_sub(2)..].join(".");
                    ctx.violation(json!({"kind": "tree_differs", "at": at, "cause": cause}), witness(json!({"first_difference_at": path, "expected": e, "parsed": clip(&g.to_string(), 600)})));
                }
            } else {
                ctx.count("trees_equal_to_the_normal_form", 1);
            }
        }
        Reply::Err { code, wher, pos, .. } => {
            ctx.count(&format!("rejected.{}", entry), 1);
            if expected.is_some() {
                let at = class_at(p, laid, if entry == "group" { -1 } else { pos });
                let cause = attribute(ctx, pool, k, true);
                ctx.violation(json!({"kind": "valid_query_rejected", "cause": cause}), witness(json!({"error_kind": code, "error_slice": wher, "offset": pos, "token_at_offset": at})));
            } else {
                ctx.count("requests_correctly_refused", 1);
            }
        }
        other => report_crash(ctx, entry, text, &other, "faithful"),
    }
}

/// totality verdicts shared by all phases
fn report_crash(ctx: &mut Ctx, entry: &str, text: &str, r: &Reply, what: &str) {
    match r {
        Reply::Panic(msg) => {
            ctx.count("panics", 1);
            let dropping = msg.starts_with("DROP ");
            ctx.violation(json!({"kind": "panic", "site": stable_site(msg), "while": if dropping { "dropping_the_tree" } else { "parsing" }}), json!({"entry": entry, "input": clip(text, 1200), "input_len": text.len(), "panic": clip(msg, 400), "workload": what}));
        }
        Reply::Died { signal, code, stderr, during_drop } => {
            ctx.count("worker_deaths", 1);
            let cause = if stderr.contains("overflowed its stack") { "stack_overflow".to_string() } else if let Some(s) = signal { format!("signal_{}", s) } else { format!("exit_code_{:?}_without_verdict", code) };
            ctx.violation(json!({"kind": "process_death", "cause": cause, "while": if *during_drop { "dropping_the_tree" } else { "parsing" }, "recursion": "not_established"}), json!({"entry": entry, "input": clip(text, 1200), "input_len": text.len(), "signal": signal, "exit_code": code, "stderr": clip(stderr, 300), "workload": what}));
        }
        Reply::Timeout => {
            ctx.count("worker_timeouts", 1);
            ctx.inconclusive(&format!("worker did not answer within the watchdog for entry {} on an input of {} bytes ({})", entry, text.len(), what));
        }
        Reply::Bad(m) => ctx.inconclusive(&format!("worker protocol problem: {}", clip(m, 200))),
        _ => {}
    }
}

/// case k of the faithful phase, printed normally or with exactly one optional feature
fn faithful_case(ctx: &Ctx, k: u64, only: Option<&'static str>) -> Printed {
    let mut r = ctx.rng(k);
    let exotic = *r.pick(&[0usize, 10, 25]);
    gen_printed(&mut r, ctx.rng_labeled("decor", k), exotic, only)
}

/// Which single printing feature reproduces the failure of case k? The tree is printed
/// again in the plainest way plus exactly one optional feature (or one layout property)
/// and parsed again; the first one that fails the same way is the established cause.
fn attribute(ctx: &mut Ctx, pool: &mut Pool, k: u64, rejected: bool) -> String {
    if let Some(c) = pool.attributed.get(&(k, rejected)) {
        return c.clone();
    }
    let c = attribute_uncached(ctx, pool, k, rejected);
    pool.attributed.insert((k, rejected), c.clone());
    c
}

fn attribute_uncached(ctx: &mut Ctx, pool: &mut Pool, k: u64, _rejected: bool) -> String {
    let plain = Style { tight: 0, comments: 0, case: 0 };
    let fails = |ctx: &mut Ctx, pool: &mut Pool, p: &Printed, st: &Style| -> bool {
        let mut lr = Rng::new(7);
        let laid = layout(&p.toks, p.nspans, &mut lr, st);
        let Some(exp) = p.alias.as_ref() else { return false };
        let exp = json!({"prefixes": p.prefixes, "sparql": resolve(exp, &laid, false), "ext": {}});
        ctx.add_evals(1);
        ctx.count("attribution_parses", 1);
        match pool.ask("combined_alias", true, &laid.text) {
            // any failure of the single-feature printing counts (a swallowed token may turn a
            // wrong tree into a rejection and vice versa)
            Reply::Ok { dump, .. } => diff(&exp, &unwrap_whole_pattern_joins(&dump.unwrap_or(Value::Null), false), "").is_some(),
            Reply::Err { .. } => true,
            _ => false,
        }
    };
    let base = faithful_case(ctx, k, Some(""));
    if fails(ctx, pool, &base, &plain) {
        return "plainest_printing_of_the_tree".into();
    }
    for f in FEATURES {
        let p = faithful_case(ctx, k, Some(f));
        if fails(ctx, pool, &p, &plain) {
            return f.to_string();
        }
    }
    for (name, st) in [("layout:no_optional_whitespace", Style { tight: 100, comments: 0, case: 0 }), ("layout:comments", Style { tight: 0, comments: 100, case: 0 }), ("layout:lower_case_keywords", Style { tight: 0, comments: 0, case: 1 }), ("layout:mixed_case_keywords", Style { tight: 0, comments: 0, case: 2 })] {
        if fails(ctx, pool, &base, &st) {
            return name.into();
        }
    }
    "not_reproduced_by_a_single_printing_feature".into()
}

fn phase_faithful(ctx: &mut Ctx, pool: &mut Pool, total: u64, frac: f64) {
    ctx.phase("faithful", total);
    while ctx.within(frac) {
        let Some(k) = ctx.next_case() else { break };
        let p = faithful_case(ctx, k, None);
        for f in &p.feats {
            ctx.note("features_printed", f);
        }
        ctx.max("max_tokens_in_a_query", p.toks.len() as u64);
        let strict_scopes = |v: &Option<Value>, laid: &Laid, s: bool| v.as_ref().map(|v| resolve(v, laid, s));
        for li in 0..2u64 {
            let mut lr = ctx.rng_labeled("layout", k * 2 + li);
            let style = random_style(&mut lr);
            let laid = layout(&p.toks, p.nspans, &mut lr, &style);
            ctx.count(&format!("layouts.case_{}", style.case), 1);
            if style.tight == 100 {
                ctx.count("layouts.no_optional_whitespace", 1);
            }
            if laid.comments {
                ctx.count("layouts.with_comments", 1);
            }
            if !laid.text.is_ascii() {
                ctx.count("texts_with_multibyte_characters", 1);
            }
            let wrap = |v: Option<Value>, pf: &Value| v.map(|v| json!({"prefixes": pf, "sparql": v, "ext": {}}));
            // whole-request entry points
            let es = strict_scopes(&p.strict, &laid, true);
            let ec = strict_scopes(&p.strict, &laid, false);
            judge_faithful(ctx, pool, k, &p, &laid, "combined", &laid.text, wrap(es.clone(), &p.prefixes), wrap(ec.clone(), &p.prefixes), 0, &style);
            let as_ = strict_scopes(&p.alias, &laid, true);
            let ac = strict_scopes(&p.alias, &laid, false);
            judge_faithful(ctx, pool, k, &p, &laid, "combined_alias", &laid.text, wrap(as_, &p.prefixes), wrap(ac, &p.prefixes), 0, &style);
            if p.is_select {
                let sel = |v: &Option<Value>| v.as_ref().map(|v| v["select"].clone());
                judge_faithful(ctx, pool, k, &p, &laid, "sparql", &laid.text, sel(&es), sel(&ec), 0, &style);
                // the group alone, followed by text that must be left alone
                if let Some(gs) = p.group_span {
                    let (a, b) = laid.spans[gs];
                    let tail = *lr.pick(&["", "", " tail", "}", " . ?x ?y ?z", "\n# c", " é", "LIMIT 3", "{"]);
                    let text = format!("{}{}", &laid.text[a..b], tail);
                    let pat = |v: &Option<Value>| v.as_ref().map(|v| v["select"]["pattern"].clone());
                    judge_faithful(ctx, pool, k, &p, &laid, "group", &text, pat(&es), pat(&ec), tail.len(), &style);
                }
            }
            if p.nodes >= 3 {
                ctx.nontrivial(hash_str(&format!("{}|{}", p.tree_debug, laid.text)));
            }
            if ctx.wants_sample() && p.nodes >= 6 && li == 1 {
                ctx.sample(json!({"text": clip(&laid.text, 900), "layout": format!("{:?}", style), "normal_form": clip(&es.as_ref().map(|v| v.to_string()).unwrap_or_else(|| "must be rejected by the strict entry point".into()), 900)}));
            }
        }
    }
}

// ---------------------------------------------------------------------------------------
// totality workloads

pub const EXT_SEEDS: [&str; 16] = [
    "RULE :OverheatingAlert :-\nCONSTRUCT {\n    ?room ex:overheatingAlert true .\n}\nWHERE {\n    ?reading a ex:Sensor ;\n             ex:room ?room ;\n             ex:temperature ?temp\n    FILTER (?temp > 80)\n}",
    "PREFIX ex: <http://example.org/>\nRULE :TransitiveRelated PROB(combination=independent, threshold=0.3, confidence=0.9) :-\nCONSTRUCT { ?a ex:related ?c . }\nWHERE { ?a ex:related ?b . ?b ex:related ?c . NOT ?a ex:blocked ?c }",
    "RULE :Hybrid PROB(provenance=hybrid, threshold=0.7) :- CONSTRUCT { ?x :risk :high } WHERE { ?x :score ?s FILTER(?s > 3) }",
    "RULE :W :- RSTREAM FROM NAMED WINDOW :w ON :stream [RANGE PT10M STEP PT1M] WITH POLICY (timeout=5s, fallback=drop) CONSTRUCT { ?s :p ?o } WHERE { WINDOW :w { ?s :q ?o . } }",
    "RULE :OverheatingAlert :-\nCONSTRUCT { ?room ex:overheatingAlert true . }\nWHERE { ?reading ex:room ?room ; ex:temperature ?temp FILTER (?temp > 80) }\nML.PREDICT(MODEL \"temperaturePredictor\",\n INPUT { SELECT ?room ?humidity WHERE { ?room :humidity ?humidity } },\n OUTPUT ?predictedTemp)",
    "REGISTER ISTREAM <http://out/stream> AS\nSELECT *\nFROM NAMED WINDOW :w ON ?stream [RANGE 3 STEP 1]\nWHERE { WINDOW :w { ?s a <http://test/IType> . } }",
    "RETRIEVE SOME ACTIVE STREAM ?s FROM <http://my.org/catalog>\nWITH {\n    ?s a :Stream .\n    ?s :hasDescriptor ?descriptor .\n    ?meta :hasLocation <:somelocation>.\n}\nREGISTER RSTREAM <http://out/stream> AS\nSELECT *\nFROM NAMED WINDOW :wind ON ?s [RANGE PT10M STEP PT1M]\nFROM NAMED WINDOW :wind2 ON :uri2 [SLIDING PT5M STEP PT30S REPORT ON_WINDOW_CLOSE TICK TIME_DRIVEN]\nWHERE {\n    WINDOW :wind { ?obs a ssn:Observation . ?obs ssn:hasSimpleResult ?value . }\n    WINDOW :wind2 { ?obs2 a ssn:Observation . }\n}",
    "PREFIX ex: <http://example.org/>\n\nMODEL \"digit_model\" {\n    ARCH MLP { HIDDEN [16, 8] }\n    OUTPUT EXCLUSIVE { \"A\", \"B\", \"C\" }\n}\n\nNEURAL RELATION ex:predictedDigit USING MODEL \"digit_model\" {\n    INPUT {\n        ?sample ex:x0 ?x0 .\n        ?sample ex:x1 ?x1 .\n    }\n    FEATURES { ?x0, ?x1 }\n}\n\nML.PREDICT(MODEL \"digit_model\",\n    INPUT {\n        SELECT ?sample ?x0 ?x1\n        WHERE {\n            ?sample ex:x0 ?x0 .\n            ?sample ex:x1 ?x1 .\n        }\n    },\n    OUTPUT ?label\n)",
    "TRAIN NEURAL RELATION ex:predictedDigit {\n    DATA {\n        ?sample ex:label ?label .\n    }\n    LABEL ?label\n    TARGET { ?sample ex:predictedDigit ?label }\n    LOSS cross_entropy\n    OPTIMIZER adam\n    LEARNING_RATE 0.001\n    EPOCHS 50\n    BATCH_SIZE 16\n    SAVE_TO \"mnist_digit_model.bin\"\n}",
    "TRAIN NEURAL RELATION ex:predictedDigit {\n    QUERY {\n        SELECT ?sample ?p0 ?label\n        WHERE { ?sample ex:pixel_0 ?p0 . ?sample ex:label ?label . }\n    }\n    LABEL ?label\n    TARGET { ?sample ex:predictedDigit ?label }\n    LOSS mse\n    OPTIMIZER sgd\n    LEARNING_RATE 0.5\n    EPOCHS 5\n    BATCH_SIZE 2\n}",
    "MODEL \"m\" {\n ARCH MLP { HIDDEN [64, 32] }\n OUTPUT BINARY { \"yes\" }\n}",
    "ML.PREDICT(MODEL \"fraud_predictor\",\n INPUT { SELECT ?tx ?amt WHERE { ?tx ex:amount ?amt . FILTER(?amt > 10) } },\n OUTPUT ?score)",
    "FROM NAMED WINDOW <http://w/1> ON <http://s/1> [TUMBLING 10 REPORT PERIODIC TICK TUPLE_DRIVEN] WITH POLICY steal",
    "PREFIX : <http://d/> INSERT { :a :b :c }",
    "PREFIX ex: <http://example.org/> DELETE { ?s ex:p ?o } INSERT { GRAPH ex:g { ?s ex:q ?o } } WHERE { ?s ex:p ?o . FILTER(?o != 3) }",
    "SELECT ?s (SUM(?n) AS ?t) FROM <http://k/g0> FROM NAMED <http://k/g1> WHERE { GRAPH ?g { ?s <http://k/p2> ?n } { ?s ?p << ?a ?b ?c >> } UNION { VALUES (?s ?n) { (<http://k/e1> 1) (UNDEF \"x\"@en) } } BIND(CONCAT(\"#\", ?n) AS ?c) } GROUP BY ?s ORDER BY DESC(?t) LIMIT 10",
];

const EXT_ENTRIES: [&str; 16] = ["standalone_rule", "rule", "ml_predict", "model", "neural", "train", "register", "retrieve", "window", "where", "filter", "insert", "delete", "values", "bind", "rule_call"];

pub const DICT: [&str; 64] = [
    "SELECT", "DISTINCT", "WHERE", "FILTER", "GRAPH", "UNION", "BIND", "VALUES", "UNDEF", "AS", "FROM", "NAMED", "GROUP BY", "ORDER BY", "LIMIT", "INSERT", "DELETE", "DATA", "PREFIX", "RULE", "CONSTRUCT", "REGISTER", "RETRIEVE", "MODEL", "ML.PREDICT(", "WINDOW", "NOT", "PROB(", "INPUT {", "OUTPUT", "{", "}", "(", ")", "<<", ">>", "{|", "|}", "^^", "@en", "\"", "'''", "\"\"\"", "\\u00", "\\U0001F600", "%4", "_:", "?", "$", ":-", ":", "#", "\n", ".", ";", ",", "!", "&&", "<", ">", "99999999999999999999", "18446744073709551616", "PT9999999999999999999H", "a",
];

pub const MB: [&str; 10] = ["é", "€", "😀", "\u{0301}", "\u{00A0}", "\u{2028}", "\u{FEFF}", "\u{00B7}", "\u{3000}", "ß"];

pub fn seed_text(ctx: &Ctx, r: &mut Rng, label: &str, k: u64) -> (String, bool) {
    if r.chance(30, 100) {
        (r.pick(&EXT_SEEDS).to_string(), true)
    } else {
        let exotic = *r.pick(&[0usize, 25, 60]);
        let p = gen_printed(r, ctx.rng_labeled(label, k), exotic, None);
        let st = random_style(r);
        let laid = layout(&p.toks, p.nspans, r, &st);
        (laid.text, false)
    }
}

pub fn char_offsets(s: &str) -> Vec<usize> {
    let mut v: Vec<usize> = s.char_indices().map(|(i, _)| i).collect();
    v.push(s.len());
    v
}

pub fn mutate(r: &mut Rng, s: &str, other: &str, kinds: &mut Vec<&'static str>) -> String {
    let offs = char_offsets(s);
    let at = |r: &mut Rng| offs[r.below(offs.len())];
    match r.below(11) {
        0 => {
            kinds.push("byte_flip");
            let mut b = s.as_bytes().to_vec();
            if !b.is_empty() {
                let i = r.below(b.len());
                b[i] = r.below(256) as u8;
            }
            String::from_utf8_lossy(&b).into_owned()
        }
        1 => {
            kinds.push("byte_insert");
            let mut b = s.as_bytes().to_vec();
            let i = r.below(b.len() + 1);
            for _ in 0..r.range(1, 3) {
                b.insert(i, r.below(256) as u8);
            }
            String::from_utf8_lossy(&b).into_owned()
        }
        2 => {
            kinds.push("byte_delete");
            let mut b = s.as_bytes().to_vec();
            if !b.is_empty() {
                let i = r.below(b.len());
                let n = r.range(1, 8).min(b.len() - i);
                b.drain(i..i + n);
            }
            String::from_utf8_lossy(&b).into_owned()
        }
        3 => {
            kinds.push("splice");
            let o2 = char_offsets(other);
            let (a, b) = (o2[r.below(o2.len())], o2[r.below(o2.len())]);
            let (a, b) = (a.min(b), a.max(b));
            let i = at(r);
            format!("{}{}{}", &s[..i], &other[a..b], &s[i..])
        }
        4 | 5 => {
            kinds.push("token_insert");
            let i = at(r);
            let sp = if r.coin() { " " } else { "" };
            format!("{}{}{}{}{}", &s[..i], sp, r.pick(&DICT), sp, &s[i..])
        }
        6 => {
            kinds.push("multibyte_insert");
            let i = at(r);
            format!("{}{}{}", &s[..i], r.pick(&MB), &s[i..])
        }
        7 => {
            kinds.push("truncate");
            s[..at(r)].to_string()
        }
        8 => {
            kinds.push("duplicate_span");
            let (a, b) = (at(r), at(r));
            let (a, b) = (a.min(b), a.max(b));
            format!("{}{}{}", &s[..b], &s[a..b], &s[b..])
        }
        9 => {
            kinds.push("swap_words");
            let mut w: Vec<&str> = s.split(' ').collect();
            if w.len() >= 2 {
                let (i, j) = (r.below(w.len()), r.below(w.len()));
                w.swap(i, j);
            }
            w.join(" ")
        }
        _ => {
            kinds.push("char_replace");
            let i = r.below(offs.len().max(2) - 1);
            let a = offs[i];
            let b = offs.get(i + 1).copied().unwrap_or(s.len());
            let rep = if r.coin() { r.pick(&MB).to_string() } else { ((0x20 + r.below(0x5f)) as u8 as char).to_string() };
            format!("{}{}{}", &s[..a], rep, &s[b..])
        }
    }
}

struct Seen {
    accepted: bool,
    past_start: bool,
    dump: Option<Value>,
}

/// one hostile input through one entry point: totality checks; returns what was seen
fn judge_total(ctx: &mut Ctx, pool: &mut Pool, entry: &str, text: &str, want_dump: bool, what: &str) -> Seen {
    ctx.add_evals(1);
    ctx.count(&format!("parses.{}", entry), 1);
    let r = pool.ask(entry, want_dump, text);
    match r {
        Reply::Ok { rest, dump } => {
            ctx.count(&format!("accepted.{}", entry), 1);
            let whole = matches!(entry, "combined" | "combined_alias" | "sparql");
            match rest.parse::<usize>() {
                Ok(n) => {
                    if whole && n != 0 && !text[text.len() - n..].trim().is_empty() {
                        ctx.violation(json!({"kind": "accepted_without_consuming_the_whole_input", "entry": entry}), json!({"input": clip(text, 1200), "unconsumed": clip(&text[text.len() - n..], 200), "workload": what}));
                    }
                    if n > text.len() {
                        ctx.violation(json!({"kind": "rest_longer_than_input", "entry": entry}), json!({"input": clip(text, 1200), "rest_len": n}));
                    }
                }
                Err(_) => {
                    // "inner:off:len" / "foreign": the rest is not a suffix of the input
                    ctx.violation(json!({"kind": "rest_is_not_a_suffix_of_the_input", "entry": entry}), json!({"input": clip(text, 1200), "rest": rest, "workload": what}));
                }
            }
            Seen { accepted: true, past_start: true, dump }
        }
        Reply::Err { code, wher, pos, .. } => {
            ctx.count(&format!("rejected.{}", entry), 1);
            ctx.note("error_kinds", &code);
            if wher == "inner" {
                ctx.count("errors_whose_slice_is_not_a_suffix_of_the_input", 1);
            }
            Seen { accepted: false, past_start: pos > 0, dump: None }
        }
        other => {
            report_crash(ctx, entry, text, &other, what);
            Seen { accepted: false, past_start: true, dump: None }
        }
    }
}

/// the entry points that share one grammar must agree on the same text
fn cross_check(ctx: &mut Ctx, text: &str, combined: &Seen, alias: &Seen, sparql: &Seen, what: &str) {
    let only_select = |s: &Seen| s.dump.as_ref().map(|d| d["sparql"].get("select").is_some() && d["ext"].as_object().map(|m| m.is_empty()).unwrap_or(false)).unwrap_or(false);
    if combined.accepted && !alias.accepted {
        ctx.violation(json!({"kind": "entry_points_disagree", "pair": "combined_accepts_but_alias_enabled_variant_rejects"}), json!({"input": clip(text, 1200), "workload": what}));
    }
    if combined.accepted && alias.accepted && combined.dump.is_some() && combined.dump != alias.dump {
        ctx.violation(json!({"kind": "entry_points_disagree", "pair": "combined_and_alias_enabled_variant_build_different_trees"}), json!({"input": clip(text, 1200), "workload": what}));
    }
    if sparql.accepted && !(combined.accepted && only_select(combined)) {
        ctx.violation(json!({"kind": "entry_points_disagree", "pair": "parse_sparql_query_accepts_what_parse_combined_query_does_not"}), json!({"input": clip(text, 1200), "workload": what}));
    }
    if combined.accepted && only_select(combined) && !sparql.accepted {
        ctx.violation(json!({"kind": "entry_points_disagree", "pair": "parse_combined_query_accepts_a_plain_select_that_parse_sparql_query_rejects"}), json!({"input": clip(text, 1200), "workload": what}));
    }
    if sparql.accepted && combined.accepted {
        if let (Some(a), Some(b)) = (&sparql.dump, &combined.dump) {
            if *a != b["sparql"]["select"] {
                ctx.violation(json!({"kind": "entry_points_disagree", "pair": "parse_sparql_query_and_parse_combined_query_build_different_trees"}), json!({"input": clip(text, 1200), "workload": what}));
            }
        }
    }
}

fn all_main_entries(ctx: &mut Ctx, pool: &mut Pool, text: &str, what: &str) -> bool {
    let c = judge_total(ctx, pool, "combined", text, true, what);
    let a = judge_total(ctx, pool, "combined_alias", text, true, what);
    let s = judge_total(ctx, pool, "sparql", text, true, what);
    cross_check(ctx, text, &c, &a, &s, what);
    // the group parser is a prefix parser: feed it the text from its first brace on
    let mut past = c.past_start || a.past_start || s.past_start;
    if let Some(i) = text.find('{') {
        let g = judge_total(ctx, pool, "group", &text[i..], false, what);
        past = past || g.past_start;
    }
    if c.accepted || a.accepted || s.accepted {
        ctx.count("hostile_inputs_accepted_by_some_entry_point", 1);
    }
    past
}

fn phase_mutate(ctx: &mut Ctx, pool: &mut Pool, total: u64, frac: f64) {
    ctx.phase("mutate", total);
    while ctx.within(frac) {
        let Some(k) = ctx.next_case() else { break };
        let mut r = ctx.rng(k);
        let (seed, ext) = seed_text(ctx, &mut r, "seed", k);
        let (other, _) = seed_text(ctx, &mut r, "other", k);
        let mut kinds = vec![];
        let mut text = seed;
        for _ in 0..r.range(1, 3) {
            text = mutate(&mut r, &text, &other, &mut kinds);
        }
        for m in &kinds {
            ctx.count(&format!("mutations.{}", m), 1);
        }
        if !text.is_ascii() {
            ctx.count("texts_with_multibyte_characters", 1);
        }
        let what = format!("mutate[{}]", kinds.join("+"));
        let past = all_main_entries(ctx, pool, &text, &what);
        // extension primitives: the one that fits the seed best, and a random one
        let mut es: Vec<&str> = vec![*r.pick(&EXT_ENTRIES)];
        if ext {
            let t = text.trim_start();
            for (kw, e) in [("RULE", "rule"), ("ML.PREDICT", "ml_predict"), ("MODEL", "model"), ("NEURAL", "neural"), ("TRAIN", "train"), ("REGISTER", "register"), ("RETRIEVE", "retrieve"), ("FROM NAMED WINDOW", "window"), ("PREFIX", "standalone_rule")] {
                if t.starts_with(kw) {
                    es.push(e);
                }
            }
        }
        for e in es {
            // primitives are prefix parsers that start at their keyword
            judge_total(ctx, pool, e, &text, true, &what);
        }
        if past {
            ctx.nontrivial(hash_str(&text));
        }
        if ctx.wants_sample() && kinds.len() >= 2 {
            ctx.sample(json!({"mutations": kinds, "input": clip(&text, 600)}));
        }
    }
}

/// hand-written seeds for the every-offset sweep: every token scanner of the anchor list
pub const SWEEP_SEEDS: [&str; 10] = [
    "PREFIX k: <http://k/> SELECT ?s WHERE { ?s k:p1 k:e1 . ?s a k:C ; k:q \"lit\"@en , 'x'^^k:dt , 12.5e-3 . _:b1 k:r _:b.2 }",
    "SELECT * WHERE { ?s x:y ?o }",
    "SELECT * WHERE { <http://k/e1> <http://k/p> \"a\\\"b\\u00e9\" . << ?a k:p 3 >> k:q true FILTER(?a != k:e2 && !(?o < 3.5)) }",
    "SELECT ?a (SUM(?n) AS ?t) WHERE { GRAPH k:g1 { ?a k:p2 ?n } VALUES (?a ?n) { (k:e1 1) (UNDEF \"w\") } BIND(CONCAT(\"#\", ?n) AS ?c) } GROUP BY ?a ORDER BY DESC(?t) ?a LIMIT 5",
    "PREFIX : <http://d/> INSERT DATA { :a :b \"\"\"long\nstring\"\"\" . GRAPH :g { :a :b -5 } }",
    "DELETE { ?s k:p ?o } INSERT { ?s k:q _:n } WHERE { ?s k:p ?o . { ?s k:r ?x } UNION { ?s k:r2 ?x } }",
    "DELETE WHERE { GRAPH ?g { ?s ?p ?o } }",
    "SELECT * WHERE { ?s k:a%41\\-b k:x.y.z . }# trailing comment",
    "RULE :R PROB(combination=min, threshold=0.5) :- CONSTRUCT { ?a :p ?b . } WHERE { ?a :q ?b FILTER(?b > 1) }",
    "REGISTER RSTREAM <http://o/s> AS SELECT * FROM NAMED WINDOW :w ON ?s [RANGE PT10M STEP PT1M] WHERE { WINDOW :w { ?x a :T . } }",
];

fn phase_everyoffset(ctx: &mut Ctx, pool: &mut Pool, total: u64, frac: f64) {
    ctx.phase("everyoffset", total);
    while ctx.within(frac) {
        let Some(k) = ctx.next_case() else { break };
        let mut r = ctx.rng(k);
        // the hand-written seeds first, then generated ones with exotic terms
        let seed = if (k as usize) < SWEEP_SEEDS.len() {
            SWEEP_SEEDS[k as usize].to_string()
        } else {
            let p = gen_printed(&mut r, ctx.rng_labeled("decor", k), 60, None);
            let st = Style { tight: 60, comments: 10, case: r.below(4) as u8 };
            let t = layout(&p.toks, p.nspans, &mut r, &st).text;
            if t.chars().count() > 260 {
                continue;
            }
            t
        };
        let offs = char_offsets(&seed);
        ctx.max("everyoffset.max_seed_chars", offs.len() as u64);
        let entries: Vec<&str> = if seed.starts_with("RULE") { vec!["combined", "standalone_rule", "rule"] } else if seed.starts_with("REGISTER") { vec!["combined", "register"] } else { vec!["combined_alias", "sparql"] };
        let mut past = false;
        for &i in &offs {
            // 2-, 3- and 4-byte characters (and two more drawn from the pool) at this offset
            let extra1 = *r.pick(&MB);
            let extra2 = *r.pick(&["\\", "\"", "<", "{", "#", "'", ":", "\0"]);
            for ins in ["é", "€", "😀", extra1, extra2] {
                let t = format!("{}{}{}", &seed[..i], ins, &seed[i..]);
                for e in &entries {
                    past |= judge_total(ctx, pool, e, &t, false, "everyoffset:insert").past_start;
                }
                ctx.count("everyoffset.insertions", 1);
                if let Some(b) = t.find('{') {
                    judge_total(ctx, pool, "group", &t[b..], false, "everyoffset:insert");
                }
            }
            // truncation at this offset
            let t = &seed[..i];
            for e in &entries {
                judge_total(ctx, pool, e, t, false, "everyoffset:truncate");
            }
            ctx.count("everyoffset.truncations", 1);
            // deletion of the character at this offset
            if i < seed.len() {
                let n = seed[i..].chars().next().map(|c| c.len_utf8()).unwrap_or(1);
                let t = format!("{}{}", &seed[..i], &seed[i + n..]);
                for e in &entries {
                    judge_total(ctx, pool, e, &t, false, "everyoffset:delete");
                }
                ctx.count("everyoffset.deletions", 1);
            }
        }
        ctx.count("everyoffset.seeds_swept_completely", 1);
        if past {
            ctx.nontrivial(hash_str(&seed));
        }
        if ctx.wants_sample() {
            ctx.sample(json!({"seed_swept_at_every_offset": seed, "offsets": offs.len()}));
        }
    }
}

/// exhaustive small edits of the hand-written seeds: every pair of words exchanged, every
/// number replaced by boundary values (fault enumeration over the keyword order and the
/// numeric conversions of the extension grammars)
fn phase_systematic(ctx: &mut Ctx, pool: &mut Pool) {
    const NUMS: [&str; 9] = ["0", "18446744073709551615", "18446744073709551616", "9999999999999999999", "307445734561825861", "5124095576030431", "99999999999999999999999999999999999999999", "-1", "1e400"];
    let seeds: Vec<&str> = EXT_SEEDS.iter().chain(SWEEP_SEEDS.iter()).copied().collect();
    ctx.phase("systematic", seeds.len() as u64);
    while let Some(k) = ctx.next_case() {
        let seed = seeds[k as usize];
        let t = seed.trim_start();
        let mut entries: Vec<&str> = vec!["combined"];
        for (kw, e) in [("RULE", "rule"), ("ML.PREDICT", "ml_predict"), ("MODEL", "model"), ("TRAIN", "train"), ("REGISTER", "register"), ("RETRIEVE", "retrieve"), ("FROM NAMED WINDOW", "window"), ("PREFIX", "standalone_rule"), ("SELECT", "sparql")] {
            if t.starts_with(kw) {
                entries.push(e);
            }
        }
        // words and the white space between them
        let mut words: Vec<(usize, usize)> = vec![];
        let mut start: Option<usize> = None;
        for (i, c) in seed.char_indices() {
            if c.is_whitespace() {
                if let Some(a) = start.take() {
                    words.push((a, i));
                }
            } else if start.is_none() {
                start = Some(i);
            }
        }
        if let Some(a) = start {
            words.push((a, seed.len()));
        }
        let mut n = 0u64;
        for i in 0..words.len() {
            for j in i + 1..words.len() {
                if !ctx.time_left() {
                    break;
                }
                let (a, b) = (words[i], words[j]);
                if seed[a.0..a.1] == seed[b.0..b.1] {
                    continue;
                }
                let text = format!("{}{}{}{}{}", &seed[..a.0], &seed[b.0..b.1], &seed[a.1..b.0], &seed[a.0..a.1], &seed[b.1..]);
                for e in &entries {
                    judge_total(ctx, pool, e, &text, false, "systematic:swap_two_words");
                }
                n += 1;
            }
        }
        ctx.count("systematic.word_swaps", n);
        // digit runs
        let b = seed.as_bytes();
        let mut i = 0;
        let mut runs = 0u64;
        while i < b.len() {
            if b[i].is_ascii_digit() {
                let mut j = i;
                while j < b.len() && b[j].is_ascii_digit() {
                    j += 1;
                }
                for v in NUMS {
                    let text = format!("{}{}{}", &seed[..i], v, &seed[j..]);
                    for e in &entries {
                        judge_total(ctx, pool, e, &text, false, "systematic:boundary_number");
                    }
                    runs += 1;
                }
                i = j;
            } else {
                i += 1;
            }
        }
        ctx.count("systematic.boundary_numbers", runs);
        ctx.nontrivial(hash_str(seed));
        if ctx.wants_sample() {
            ctx.sample(json!({"seed": clip(seed, 300), "word_pairs_exchanged": n, "numbers_replaced": runs}));
        }
    }
}

/// complete requests followed by text that cannot continue them
fn phase_trailing(ctx: &mut Ctx, pool: &mut Pool, total: u64, frac: f64) {
    ctx.phase("trailing", total);
    const JUNK: [&str; 14] = ["}", ")", "<http://k/junk>", "\"junk\"", ".", "SELECT * WHERE { ?s ?p ?o }", "WHERE", "junk", "é", ";", "{ }", "INSERT DATA { <http://a> <http://b> <http://c> }", "x:y", "0"];
    while ctx.within(frac) {
        let Some(k) = ctx.next_case() else { break };
        let mut r = ctx.rng(k);
        let p = gen_printed(&mut r, ctx.rng_labeled("decor", k), 10, None);
        if p.strict.is_none() {
            continue;
        }
        let st = random_style(&mut r);
        let laid = layout(&p.toks, p.nspans, &mut r, &st);
        let junk = *r.pick(&JUNK);
        // the newline ends a final comment and separates `LIMIT 1` from `0`
        let text = format!("{}\n{}", laid.text, junk);
        for e in ["combined", "combined_alias", "sparql"] {
            if e == "sparql" && !p.is_select {
                continue;
            }
            ctx.add_evals(1);
            ctx.count(&format!("parses.{}", e), 1);
            match pool.ask(e, false, &text) {
                Reply::Ok { rest, .. } => {
                    ctx.violation(json!({"kind": "trailing_input_accepted", "entry": e}), json!({"input": clip(&text, 1200), "junk": junk, "rest": rest}));
                }
                Reply::Err { .. } => ctx.count("trailing_input_refused", 1),
                other => report_crash(ctx, e, &text, &other, "trailing"),
            }
        }
        ctx.nontrivial(hash_str(&text));
        if ctx.wants_sample() {
            ctx.sample(json!({ "input": clip(&text, 500) }));
        }
    }
}

// ---------------------------------------------------------------------------------------
// nesting ladders

struct Construct {
    name: &'static str,
    /// the recursion the construct exercises (part of the signature)
    recursion: &'static str,
    entry: &'static str,
    /// deepest rung (flat, iterative constructs stop earlier: they are linear work each)
    max: usize,
    build: fn(usize) -> String,
}

fn rep(s: &str, n: usize) -> String {
    s.repeat(n)
}

const CONSTRUCTS: [Construct; 22] = [
    Construct { name: "balanced_group_braces", recursion: "parse_group_graph_pattern", entry: "combined", max: 100_000, build: |n| format!("SELECT * WHERE {} ?s ?p ?o {}", rep("{", n), rep("}", n)) },
    Construct { name: "unbalanced_open_braces", recursion: "parse_group_graph_pattern", entry: "group", max: 100_000, build: |n| rep("{", n) },
    Construct { name: "nested_graph_blocks", recursion: "parse_group_graph_pattern", entry: "sparql", max: 100_000, build: |n| format!("SELECT * WHERE {{ {} ?s ?p ?o {} }}", rep("GRAPH ?g { ", n), rep("}", n)) },
    Construct { name: "nested_subselects", recursion: "parse_group_graph_pattern", entry: "combined", max: 100_000, build: |n| format!("SELECT * WHERE {{ {} ?s ?p ?o {} }}", rep("{ SELECT * WHERE { ", n), rep("} }", n)) },
    Construct { name: "nested_union_branches", recursion: "parse_group_graph_pattern", entry: "combined", max: 100_000, build: |n| format!("SELECT * WHERE {{ {} ?s ?p ?o {} }}", rep("{ ?a ?b ?c } UNION { ", n), rep("}", n)) },
    Construct { name: "update_where_nesting", recursion: "parse_group_graph_pattern", entry: "combined", max: 100_000, build: |n| format!("DELETE {{ ?s ?p ?o }} WHERE {} ?s ?p ?o {}", rep("{", n), rep("}", n)) },
    Construct { name: "filter_parentheses", recursion: "filter_expression", entry: "combined", max: 100_000, build: |n| format!("SELECT * WHERE {{ ?s ?p ?x FILTER({} ?x = 1 {}) }}", rep("(", n), rep(")", n)) },
    Construct { name: "filter_negations", recursion: "filter_expression", entry: "filter", max: 100_000, build: |n| format!("FILTER({}(?x = 1))", rep("!", n)) },
    Construct { name: "filter_unbalanced_parentheses", recursion: "filter_expression", entry: "filter", max: 100_000, build: |n| format!("FILTER({}", rep("(", n)) },
    Construct { name: "arithmetic_parentheses", recursion: "arithmetic_expression", entry: "combined", max: 100_000, build: |n| format!("SELECT * WHERE {{ ?s ?p ?x FILTER({} ?x {} + 1 = 2) }}", rep("(", n), rep(")", n)) },
    Construct { name: "nested_quoted_triples", recursion: "quoted_triple", entry: "combined", max: 100_000, build: |n| format!("SELECT * WHERE {{ {} <http://a> <http://b> <http://c> {} <http://p> ?o }}", rep("<< ", n), rep(" >> <http://b> <http://c>", n).trim_end_matches(" <http://b> <http://c>").to_string() + &rep("", 0)) },
    Construct { name: "unbalanced_quoted_triple_openers", recursion: "quoted_triple", entry: "group", max: 100_000, build: |n| format!("{{ {}", rep("<< ", n)) },
    Construct { name: "long_and_chain", recursion: "tree_of_left_nested_boolean_operators", entry: "combined", max: 100_000, build: |n| format!("SELECT * WHERE {{ ?s ?p ?x FILTER(?x = 1{}) }}", rep(" && ?x = 1", n)) },
    Construct { name: "long_or_chain", recursion: "tree_of_left_nested_boolean_operators", entry: "filter", max: 100_000, build: |n| format!("FILTER(?x = 1{})", rep(" || ?x = 1", n)) },
    Construct { name: "long_arithmetic_chain", recursion: "tree_of_left_nested_arithmetic_operators", entry: "filter", max: 100_000, build: |n| format!("FILTER(?x{} = 2)", rep(" + 1", n)) },
    Construct { name: "long_bare_arithmetic_chain", recursion: "tree_of_left_nested_arithmetic_operators", entry: "filter", max: 100_000, build: |n| format!("FILTER(?x{})", rep(" * 2", n)) },
    Construct { name: "long_union_chain", recursion: "none_flat", entry: "combined", max: 30_000, build: |n| format!("SELECT * WHERE {{ {{ ?s ?p ?o }}{} }}", rep(" UNION { ?s ?p ?o }", n)) },
    Construct { name: "long_object_list", recursion: "none_flat", entry: "combined", max: 30_000, build: |n| format!("SELECT * WHERE {{ ?s ?p 0{} }}", rep(" , 1", n)) },
    Construct { name: "long_predicate_list", recursion: "none_flat", entry: "combined", max: 30_000, build: |n| format!("INSERT DATA {{ <http://s> <http://p> 0{} }}", rep(" ; <http://p> 1", n)) },
    Construct { name: "many_statements_and_filters", recursion: "none_flat", entry: "combined", max: 30_000, build: |n| format!("SELECT * WHERE {{ {} }}", rep("?s ?p ?o . FILTER(?o = 1) ", n)) },
    Construct { name: "many_prefix_declarations_and_values_rows", recursion: "none_flat", entry: "combined", max: 30_000, build: |n| format!("{} SELECT * WHERE {{ VALUES (?a ?b) {{ {} }} }}", rep("PREFIX p: <http://p/> ", n), rep("(1 UNDEF) ", n)) },
    Construct { name: "rule_prob_and_ml_predict_braces", recursion: "extension_block_scanners", entry: "combined", max: 100_000, build: |n| format!("RULE :R PROB(combination=min, threshold={}0.5{}) :- CONSTRUCT {{ ?a :p ?b }} WHERE {{ ?a :q ?b }} ML.PREDICT(MODEL \"m\", INPUT {{ {} SELECT ?a WHERE {{ ?a :q ?b }} {} }}, OUTPUT ?y)", rep("(", n), rep(")", n), rep("{", n), rep("}", n)) },
];

const RUNGS: [usize; 9] = [10, 30, 100, 300, 1_000, 3_000, 10_000, 30_000, 100_000];

fn phase_nesting(ctx: &mut Ctx, pool: &mut Pool) {
    ctx.phase("nesting", CONSTRUCTS.len() as u64);
    while let Some(k) = ctx.next_case() {
        let c = &CONSTRUCTS[k as usize];
        let mut last_ok = 0usize;
        let mut first_bad: Option<(usize, Reply)> = None;
        let top = if ctx.thorough() { c.max } else { c.max.min(100_000) };
        for &n in RUNGS.iter().filter(|n| **n <= top) {
            let text = (c.build)(n);
            ctx.add_evals(1);
            ctx.count(&format!("parses.{}", c.entry), 1);
            let r = pool.ask(c.entry, false, &text);
            match &r {
                Reply::Ok { .. } | Reply::Err { .. } => {
                    last_ok = n;
                    ctx.max(&format!("nesting.deepest_survived.{}", c.name), n as u64);
                    if matches!(r, Reply::Ok { .. }) {
                        ctx.max(&format!("nesting.deepest_accepted.{}", c.name), n as u64);
                    }
                }
                Reply::Timeout | Reply::Bad(_) => {
                    report_crash(ctx, c.entry, &text, &r, c.name);
                    break;
                }
                _ => {
                    first_bad = Some((n, r.clone()));
                    break;
                }
            }
        }
        ctx.nontrivial(hash_str(c.name));
        if let Some((mut bad, mut reply)) = first_bad {
            // narrow the witness: smallest depth (to ~25 %) at which the worker no longer answers
            let mut lo = last_ok;
            while bad - lo > (bad / 4).max(1) {
                let mid = lo + (bad - lo) / 2;
                let r = pool.ask(c.entry, false, &(c.build)(mid));
                ctx.add_evals(1);
                match r {
                    Reply::Ok { .. } | Reply::Err { .. } => lo = mid,
                    Reply::Timeout | Reply::Bad(_) => break,
                    other => {
                        bad = mid;
                        reply = other;
                    }
                }
            }
            let text = (c.build)(bad);
            match &reply {
                Reply::Died { signal, code, stderr, during_drop } => {
                    ctx.count("worker_deaths", 1);
                    let cause = if stderr.contains("overflowed its stack") { "stack_overflow".to_string() } else if let Some(s) = signal { format!("signal_{}", s) } else { format!("exit_code_{:?}_without_verdict", code) };
                    ctx.violation(
                        json!({"kind": "process_death", "cause": cause, "while": if *during_drop { "dropping_the_tree" } else { "parsing" }, "recursion": c.recursion}),
                        json!({"construct": c.name, "entry": c.entry, "depth_that_kills_the_worker": bad, "deepest_depth_answered": lo, "worker_stack_mb": 8, "input": clip(&text, 300), "input_len": text.len(), "signal": signal, "stderr": clip(stderr, 300)}),
                    );
                }
                other => report_crash(ctx, c.entry, &text, other, c.name),
            }
        }
        if ctx.wants_sample() {
            ctx.sample(json!({"construct": c.name, "example_depth_3": (c.build)(3), "deepest_depth_answered": last_ok}));
        }
    }
}

// ---------------------------------------------------------------------------------------

fn run(ctx: &mut Ctx) {
    let mut pool = match Pool::new() {
        Ok(p) => p,
        Err(e) => {
            ctx.inconclusive(&format!("worker binary unavailable: {}", e));
            return;
        }
    };
    phase_nesting(ctx, &mut pool);
    phase_systematic(ctx, &mut pool);
    phase_faithful(ctx, &mut pool, ctx.by_tier(24_000, 2_000_000), 0.50);
    phase_trailing(ctx, &mut pool, ctx.by_tier(4_000, 200_000), 0.56);
    phase_everyoffset(ctx, &mut pool, ctx.by_tier(64, 4_000), 0.78);
    phase_mutate(ctx, &mut pool, ctx.by_tier(32_000, 4_000_000), 1.0);
    ctx.count("worker_processes_started", pool.spawned);
}

fn main() {
    let mut spec = Spec::new("C16", "exploration", RULE);
    spec.assumptions = &[
        "inputs reach the parsers as &str: arbitrary byte strings are made valid UTF-8 lossily first",
        "the supported fragment is what the monitor's own printer emits: SELECT with the G-QUERY operators, the six update forms and the two legacy aliases, terms of every lexical class; the extension grammars (RULE, REGISTER, RETRIEVE, MODEL, NEURAL RELATION, TRAIN, ML.PREDICT) are only in the totality workloads because they are whitespace- and case-sensitive by design",
        "normal form: every triples statement is its own BGP, a group of one element is that element unless the element is a FILTER or BIND joined with siblings (its scope is observable), comparison operands are compared both as the exact source slice and as the arithmetic tree obtained by parse_arithmetic_expression (what the plan lowering does)",
        "the worker gives each request the 8 MB stack of the HTTP server thread; a worker that does not answer within 180 s is reported as inconclusive, never as a violation",
        "booleans are printed in lower case, `<` `>` `<=` `>=` are always surrounded by white space (SPARQL tokenisation of `<` is otherwise ambiguous)",
    ];
    spec.quick_budget_s = 45;
    spec.thorough_budget_s = 600;
    kvcore::run(spec, run);
}
