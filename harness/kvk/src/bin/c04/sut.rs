//! The store under test: a real `SparqlDatabase`, driven through its public API only.

use crate::model::{Op, Universe, Via, AQ};
use kolibrie::sparql_database::SparqlDatabase;
use kvcore::Rng;
use shared::dataset_index::{GraphId, Quad};
use shared::triple::Triple;

pub struct Sut {
    pub db: SparqlDatabase,
}

/// ids outside anything the dictionary hands out, for strings it has never seen
const UNSEEN_TERM: u32 = 3_000_000;
const UNSEEN_GRAPH: u32 = 3_100_000;

impl Sut {
    /// `pre_encode`: put every string of the universe into the dictionary first (in an
    /// order derived from `enc_seed`), as a caller of the id-level API would.
    pub fn new(u: &Universe, pre_encode: bool, enc_seed: u64) -> Sut {
        let db = SparqlDatabase::new();
        if pre_encode {
            let mut all: Vec<&str> = u.terms.iter().map(|s| s.as_str()).chain(u.graphs.iter().skip(1).map(|s| s.as_str())).collect();
            Rng::new(enc_seed).shuffle(&mut all);
            let mut d = db.dictionary.write().unwrap();
            for s in all {
                d.encode(s);
            }
        }
        Sut { db }
    }

    /// a second store with the same content (for the enumeration of continuations)
    pub fn fork(&self) -> Sut {
        Sut { db: self.db.clone() }
    }

    fn enc(&self, s: &str) -> u32 {
        self.db.dictionary.write().unwrap().encode(s)
    }
    fn quad_w(&self, u: &Universe, q: AQ) -> Quad {
        Quad {
            subject: self.enc(&u.terms[q.0 as usize]),
            predicate: self.enc(&u.terms[q.1 as usize]),
            object: self.enc(&u.terms[q.2 as usize]),
            graph: self.graph_w(u, q.3),
        }
    }
    fn graph_w(&self, u: &Universe, g: u8) -> GraphId {
        if g == 0 {
            GraphId::Default
        } else {
            GraphId::Named(self.enc(&u.graphs[g as usize]))
        }
    }

    /// Apply one operation through the API the operation names; the returned boolean if any.
    pub fn apply(&mut self, u: &Universe, op: Op) -> Option<bool> {
        match op {
            Op::Insert(q, via) => match via {
                Via::Index => {
                    let quad = self.quad_w(u, q);
                    Some(self.db.dataset_index.insert_quad(&quad))
                }
                Via::Alias => {
                    let t = self.quad_w(u, q).triple();
                    Some(self.db.dataset_index.insert_triple(&t))
                }
                Via::Alias2 => {
                    let t = self.quad_w(u, q).triple();
                    Some(self.db.dataset_index.insert(&t))
                }
                Via::DbQuad => {
                    let quad = self.quad_w(u, q);
                    Some(self.db.add_quad(quad))
                }
                Via::DbTriple => {
                    let t = self.quad_w(u, q).triple();
                    self.db.add_triple(t);
                    None
                }
                Via::Parts => {
                    let (s, p, o) = (&u.terms[q.0 as usize], &u.terms[q.1 as usize], &u.terms[q.2 as usize]);
                    if q.3 == 0 {
                        self.db.add_triple_parts(s, p, o);
                        None
                    } else {
                        Some(self.db.add_quad_parts(s, p, o, &u.graphs[q.3 as usize]))
                    }
                }
            },
            Op::Delete(q, via) => match via {
                Via::Index => {
                    let quad = self.quad_w(u, q);
                    Some(self.db.dataset_index.delete_quad(&quad))
                }
                Via::Alias => {
                    let t: Triple = self.quad_w(u, q).triple();
                    Some(self.db.dataset_index.delete_triple(&t))
                }
                Via::Alias2 => {
                    let t = self.quad_w(u, q).triple();
                    Some(self.db.dataset_index.delete(&t))
                }
                Via::DbQuad => {
                    let quad = self.quad_w(u, q);
                    Some(self.db.delete_quad(&quad))
                }
                Via::DbTriple => {
                    let t = self.quad_w(u, q).triple();
                    Some(self.db.delete_triple(&t))
                }
                Via::Parts => Some(self.db.delete_triple_parts(&u.terms[q.0 as usize], &u.terms[q.1 as usize], &u.terms[q.2 as usize])),
            },
            Op::Create(g) => {
                let gid = self.graph_w(u, g);
                Some(self.db.dataset_index.create_graph(gid))
            }
            Op::ClearG(g) => {
                let gid = self.graph_w(u, g);
                self.db.dataset_index.clear_graph(gid);
                None
            }
            Op::DropG(g) => {
                let gid = self.graph_w(u, g);
                Some(self.db.dataset_index.drop_graph(gid))
            }
            Op::Rebuild => {
                self.db.build_all_indexes();
                None
            }
            Op::ClearAll => {
                self.db.dataset_index.clear();
                None
            }
            Op::CloneDb => {
                self.db = self.db.clone();
                None
            }
        }
    }
}

/// The ids of the strings of the universe as the dictionary has them *now*, verified by
/// decoding each one back. Strings the dictionary has never seen get ids it cannot hand out.
pub struct Ids {
    pub t: Vec<u32>,
    pub g: Vec<GraphId>,
}

impl Ids {
    pub fn resolve(db: &SparqlDatabase, u: &Universe) -> Result<Ids, String> {
        let mut t = Vec::with_capacity(u.terms.len());
        let mut g = Vec::with_capacity(u.graphs.len());
        let mut found: Vec<(u32, &str)> = vec![];
        {
            let d = db.dictionary.read().unwrap();
            for (i, s) in u.terms.iter().enumerate() {
                match d.string_to_id.get(s.as_str()) {
                    Some(&id) => {
                        found.push((id, s));
                        t.push(id)
                    }
                    None => t.push(UNSEEN_TERM + i as u32),
                }
            }
            g.push(GraphId::Default);
            for (i, s) in u.graphs.iter().enumerate().skip(1) {
                match d.string_to_id.get(s.as_str()) {
                    Some(&id) => {
                        found.push((id, s));
                        g.push(GraphId::Named(id))
                    }
                    None => g.push(GraphId::Named(UNSEEN_GRAPH + i as u32)),
                }
            }
        }
        for (id, s) in found {
            let back = db.decode_any(id);
            if back.as_deref() != Some(s) {
                return Err(format!("string {:?} has id {} which decodes to {:?}", s, id, back));
            }
        }
        Ok(Ids { t, g })
    }
    #[inline]
    pub fn rev_t(&self, id: u32) -> Option<u8> {
        self.t.iter().position(|x| *x == id).map(|i| i as u8)
    }
    #[inline]
    pub fn rev_g(&self, g: GraphId) -> Option<u8> {
        self.g.iter().position(|x| *x == g).map(|i| i as u8)
    }
}
