//! The abstract store: a set of lexical quads plus a set of named-graph names.
//! Terms and graphs are small indexes into a `Universe` of strings.

use std::collections::BTreeSet;

/// (subject, predicate, object, graph); graph 0 = the default graph
pub type AQ = (u8, u8, u8, u8);
pub type Pat = (Option<u8>, Option<u8>, Option<u8>);

#[derive(Clone, Debug)]
pub struct Universe {
    /// terms[0..nt] are written by operations, terms[nt] is never written
    pub terms: Vec<String>,
    /// graphs[0] = "" (default graph), graphs[1..ng] named graphs that operations create and
    /// write, graphs[ng] is never created (only cleared / dropped / deleted from / read)
    pub graphs: Vec<String>,
    pub nt: u8,
    pub ng: u8,
}

impl Universe {
    pub fn new(n_terms: u8, n_named: u8) -> Universe {
        // term 0 is lexically the name of graph 1: graph names are ordinary terms
        let mut terms = vec!["http://k/g1".to_string()];
        for i in 1..n_terms {
            terms.push(format!("http://k/t{}", i));
        }
        terms.push("http://k/zz".to_string());
        let mut graphs = vec![String::new()];
        for i in 1..=n_named {
            graphs.push(format!("http://k/g{}", i));
        }
        graphs.push("http://k/gz".to_string());
        // QueryBuilder prefix/suffix/substring filters are checked against the exact-match
        // expectation: no term may contain another one
        for a in &terms {
            for b in &terms {
                assert!(a == b || !a.contains(b.as_str()), "universe terms must not contain each other");
            }
        }
        Universe { terms, graphs, nt: n_terms, ng: n_named + 1 }
    }
    pub fn show_q(&self, q: &AQ) -> String {
        format!("{} {} {} @{}", self.t(q.0), self.t(q.1), self.t(q.2), self.g(q.3))
    }
    pub fn t(&self, i: u8) -> &str {
        self.terms[i as usize].rsplit('/').next().unwrap_or("")
    }
    pub fn g(&self, i: u8) -> &str {
        if i == 0 {
            "DEFAULT"
        } else {
            self.graphs[i as usize].rsplit('/').next().unwrap_or("")
        }
    }
    pub fn term_index(&self, s: &str) -> Option<u8> {
        self.terms.iter().position(|t| t == s).map(|i| i as u8)
    }
}

/// which API an insert / delete goes through
#[derive(Clone, Copy, PartialEq, Eq, Debug)]
pub enum Via {
    /// DatasetIndex::insert_quad / delete_quad
    Index,
    /// DatasetIndex::insert_triple / delete_triple (default graph)
    Alias,
    /// DatasetIndex::insert / delete (default graph)
    Alias2,
    /// SparqlDatabase::add_quad / delete_quad
    DbQuad,
    /// SparqlDatabase::add_triple / delete_triple (default graph)
    DbTriple,
    /// SparqlDatabase::add_quad_parts (named) / add_triple_parts / delete_triple_parts (default)
    Parts,
}

#[derive(Clone, Copy, PartialEq, Eq, Debug)]
pub enum Op {
    Insert(AQ, Via),
    Delete(AQ, Via),
    Create(u8),
    ClearG(u8),
    DropG(u8),
    Rebuild,
    ClearAll,
    CloneDb,
}

impl Op {
    pub fn api(&self) -> &'static str {
        match self {
            Op::Insert(q, v) => match v {
                Via::Index => "insert_quad",
                Via::Alias => "insert_triple",
                Via::Alias2 => "insert",
                Via::DbQuad => "db.add_quad",
                Via::DbTriple => "db.add_triple",
                Via::Parts => {
                    if q.3 == 0 {
                        "db.add_triple_parts"
                    } else {
                        "db.add_quad_parts"
                    }
                }
            },
            Op::Delete(_, v) => match v {
                Via::Index => "delete_quad",
                Via::Alias => "delete_triple",
                Via::Alias2 => "delete",
                Via::DbQuad => "db.delete_quad",
                Via::DbTriple => "db.delete_triple",
                Via::Parts => "db.delete_triple_parts",
            },
            Op::Create(_) => "create_graph",
            Op::ClearG(_) => "clear_graph",
            Op::DropG(_) => "drop_graph",
            Op::Rebuild => "db.build_all_indexes",
            Op::ClearAll => "clear",
            Op::CloneDb => "db.clone",
        }
    }
    pub fn with_via(&self, v: Via) -> Op {
        match *self {
            Op::Insert(q, _) => Op::Insert(q, v),
            Op::Delete(q, _) => Op::Delete(q, v),
            o => o,
        }
    }
    pub fn show(&self, u: &Universe) -> String {
        match self {
            Op::Insert(q, _) | Op::Delete(q, _) => format!("{}({})", self.api(), u.show_q(q)),
            Op::Create(g) | Op::ClearG(g) | Op::DropG(g) => format!("{}({})", self.api(), u.g(*g)),
            _ => format!("{}()", self.api()),
        }
    }
    pub fn code(&self) -> String {
        match self {
            Op::Insert(q, v) => format!("i{}{}{}{}{}", q.0, q.1, q.2, q.3, *v as u8),
            Op::Delete(q, v) => format!("d{}{}{}{}{}", q.0, q.1, q.2, q.3, *v as u8),
            Op::Create(g) => format!("c{}", g),
            Op::ClearG(g) => format!("l{}", g),
            Op::DropG(g) => format!("x{}", g),
            Op::Rebuild => "r".into(),
            Op::ClearAll => "z".into(),
            Op::CloneDb => "k".into(),
        }
    }
}

#[derive(Clone, Default, Debug)]
pub struct Model {
    pub quads: BTreeSet<AQ>,
    /// names of the named graphs that exist (created or first written, until dropped)
    pub named: BTreeSet<u8>,
    /// number of operations so far that changed `quads` or `named`
    pub changes: u64,
    /// graphs that were dropped at some point (observation counters only)
    pub dropped: BTreeSet<u8>,
}

impl Model {
    /// Apply the operation; the value the real mutator has to return (None = returns nothing).
    pub fn apply(&mut self, op: Op) -> Option<bool> {
        let before = (self.quads.len(), self.named.len());
        let mut touched = false;
        let r = match op {
            Op::Insert(q, via) => {
                if q.3 != 0 {
                    touched |= self.named.insert(q.3);
                }
                let new = self.quads.insert(q);
                touched |= new;
                match via {
                    Via::DbTriple => None,
                    Via::Parts if q.3 == 0 => None,
                    _ => Some(new),
                }
            }
            Op::Delete(q, _) => {
                let was = self.quads.remove(&q);
                touched |= was;
                Some(was)
            }
            Op::Create(g) => {
                if g == 0 {
                    Some(false)
                } else {
                    let new = self.named.insert(g);
                    touched |= new;
                    Some(new)
                }
            }
            Op::ClearG(g) => {
                self.quads.retain(|q| q.3 != g);
                None
            }
            Op::DropG(g) => {
                if g == 0 {
                    self.quads.retain(|q| q.3 != 0);
                    Some(true)
                } else if self.named.contains(&g) {
                    self.quads.retain(|q| q.3 != g);
                    self.named.remove(&g);
                    self.dropped.insert(g);
                    Some(true)
                } else {
                    Some(false)
                }
            }
            Op::Rebuild | Op::CloneDb => None,
            Op::ClearAll => {
                self.quads.clear();
                self.dropped.extend(self.named.iter().copied());
                self.named.clear();
                None
            }
        };
        if touched || before != (self.quads.len(), self.named.len()) {
            self.changes += 1;
        }
        r
    }

    /// the matching quads, in the order of the set (sorted)
    pub fn matching(&self, pat: Pat, g: Option<u8>) -> Vec<AQ> {
        self.quads
            .iter()
            .filter(|q| pat.0.map_or(true, |s| s == q.0) && pat.1.map_or(true, |p| p == q.1) && pat.2.map_or(true, |o| o == q.2) && g.map_or(true, |g| g == q.3))
            .copied()
            .collect()
    }
}
