//! C04 — Every read path of the store agrees with the set of quads written.
//!
//! Events: every mutator of `DatasetIndex` / the `SparqlDatabase` wrappers (with its return
//! value) and, after it, the answers of every read path.
//! Oracle: an abstract set of lexical quads plus a set of named-graph names (`model.rs`),
//! filtered by linear scan. Nothing of the engine is used to compute an expected value.
//!
//! Phases (random runs first with at most 40 % of the workload cap, then exh):
//!   exh     exhaustive histories over 2 terms x {Default, g1, g2}: one case = the first two
//!           operations, the remaining one (quick) / two (thorough) enumerated inside; the
//!           complete read sweep runs after every operation.
//!   random  histories of 200..2000 operations over up to 6 terms x 4 graphs, biased to the
//!           dangerous interleavings, through the index API, the database wrappers or both.
//!
//! A failing history is localised (complete sweep after every operation), minimised
//! (ddmin, wrappers -> primitives, clear/drop -> single deletes) and reported with a
//! signature that names the failing read and the smallest operation after which it fails.

mod checks;
mod model;
mod sut;

use checks::{check_state, Failure, Obs, Plan};
use kvcore::{guard, hash_str, json, panic_site, Ctx, Rng, Spec};
use model::{Model, Op, Universe, Via, AQ};
use std::collections::HashSet;
use sut::Sut;

const RULE: &str = "phase exh: ALL operation sequences of length <=3 (quick) / <=4 (thorough) over the 59 operations {insert_quad, delete_quad} x 24 quads (2 terms, graphs Default/g1/g2) + {create_graph, clear_graph, drop_graph} x 3 graphs + build_all_indexes + clear, complete read sweep after every operation; phase random: seeded histories of 200-2000 operations over 2-6 terms x 1-3 named graphs (+ one never-written term and one never-created graph) through DatasetIndex, the SparqlDatabase wrappers, or both, with a targeted read check after every operation and a complete sweep every 8-64 operations. Non-trivial = the history contains at least one operation that changed the abstract quad set or graph catalog (so reads with a non-empty expected answer were compared; random phase: this is checked explicitly); distinct by hash of the operation sequence.";

/// what happened when a history was executed against a fresh store
struct Outcome {
    /// index of the operation after which the first disagreement was observed
    at: usize,
    failure: Failure,
}

#[derive(Clone, Copy, PartialEq)]
enum Policy {
    /// complete sweep after every operation
    FullEvery,
    /// return values after every operation, complete sweep after the last one only
    FullLast,
}

/// Execute `ops` from an empty store. Pure function of its arguments.
fn run_history(u: &Universe, ops: &[Op], pre_encode: bool, enc_seed: u64, policy: Policy, obs: &mut Obs) -> Option<Outcome> {
    let mut sut = Sut::new(u, pre_encode, enc_seed);
    let mut model = Model::default();
    let plan = Plan::canonical(u);
    for (i, op) in ops.iter().enumerate() {
        let full = policy == Policy::FullEvery || i + 1 == ops.len();
        if let Err(f) = step(u, &mut sut, &mut model, *op, if full { Some(&plan) } else { None }, None, obs) {
            return Some(Outcome { at: i, failure: f });
        }
    }
    None
}

/// One operation on the store under test and on the model, then the reads.
/// `plan` = complete sweep; `extra` = targeted reads (random phase).
fn step(u: &Universe, sut: &mut Sut, model: &mut Model, op: Op, plan: Option<&Plan>, extra: Option<&Plan>, obs: &mut Obs) -> Result<(), Failure> {
    let before = model.clone();
    let exp = model.apply(op);
    obs.evals += 1;
    checks::observe_transition(&before, op, model, exp, &before.dropped, obs);
    let r = guard(|| {
        let got = sut.apply(u, op);
        if got != exp {
            return Err(Failure::ret(op.api(), got, exp, u, op));
        }
        if let Some(p) = plan {
            check_state(u, sut, model, p, obs)?;
            obs.states_full += 1;
        }
        if let Some(p) = extra {
            check_state(u, sut, model, p, obs)?;
            obs.states_targeted += 1;
        }
        Ok(())
    });
    match r {
        Ok(x) => x,
        Err(e) => {
            if e.contains("/repo/") {
                Err(Failure::panic(panic_site(&e), e))
            } else {
                panic!("monitor bug: {}", e)
            }
        }
    }
}

fn same_failure(a: &Failure, b: &Failure) -> bool {
    a.presig() == b.presig()
}

/// Does `ops` still exhibit the failure `f` (anywhere)? Returns the truncated history.
fn still_fails(u: &Universe, ops: &[Op], pre: bool, enc_seed: u64, f: &Failure, obs: &mut Obs) -> Option<Vec<Op>> {
    match run_history(u, ops, pre, enc_seed, Policy::FullLast, obs) {
        Some(o) if same_failure(&o.failure, f) => Some(ops[..=o.at].to_vec()),
        _ => None,
    }
}

/// ddmin-style reduction of a failing history, then replacement of compound operations
/// (clear/drop/wrappers) by the primitive ones when the failure survives: the last
/// operation of the result is the smallest operation that still exhibits the failure.
fn shrink(u: &Universe, mut ops: Vec<Op>, pre: bool, enc_seed: u64, f: &Failure, obs: &mut Obs) -> Vec<Op> {
    let mut f = f.clone();
    let mut budget = 1500usize; // number of re-executions allowed
    for _round in 0..3 {
        let mut chunk = (ops.len() / 2).max(1);
        loop {
            let mut i = 0;
            while i < ops.len() && ops.len() > 1 && budget > 0 {
                let end = (i + chunk).min(ops.len());
                let mut cand = ops[..i].to_vec();
                cand.extend_from_slice(&ops[end..]);
                budget -= 1;
                if cand.is_empty() {
                    i = end;
                    continue;
                }
                match still_fails(u, &cand, pre, enc_seed, &f, obs) {
                    Some(c) => ops = c,
                    None => i = end,
                }
            }
            if chunk == 1 || budget == 0 {
                break;
            }
            chunk = (chunk / 2).max(1);
        }
        let mut changed = false;
        // every operation through the plain index API: when that history fails as well, the
        // wrappers are not needed for the defect and the primitive failure is the one reported
        let plain: Vec<Op> = ops.iter().map(|o| o.with_via(Via::Index)).collect();
        if plain != ops {
            if let Some(o) = run_history(u, &plain, pre, enc_seed, Policy::FullEvery, obs) {
                ops = plain[..=o.at].to_vec();
                f = o.failure;
                changed = true;
            }
        }
        // compound last operation -> primitive
        if let Some((&last, prefix)) = ops.split_last() {
            let mut m = Model::default();
            for o in prefix {
                m.apply(*o);
            }
            let mut cands: Vec<Op> = vec![];
            match last {
                Op::DropG(g) => {
                    cands.push(Op::ClearG(g));
                    cands.extend(m.quads.iter().filter(|q| q.3 == g).map(|q| Op::Delete(*q, Via::Index)));
                }
                Op::ClearG(g) => cands.extend(m.quads.iter().filter(|q| q.3 == g).map(|q| Op::Delete(*q, Via::Index))),
                Op::ClearAll => {
                    for g in 0..=u.ng {
                        cands.push(Op::DropG(g));
                    }
                    cands.extend(m.quads.iter().map(|q| Op::Delete(*q, Via::Index)));
                }
                _ => {}
            }
            for c in cands {
                let mut h = prefix.to_vec();
                h.push(c);
                if let Some(t) = still_fails(u, &h, pre, enc_seed, &f, obs) {
                    ops = t;
                    changed = true;
                    break;
                }
            }
        }
        if !changed {
            break;
        }
    }
    ops
}

struct Reporter {
    shrunk: HashSet<String>,
}

impl Reporter {
    /// A history failed: localise the first failing operation under the canonical sweep,
    /// minimise, and report with a signature naming the smallest failing operation.
    fn report(&mut self, ctx: &mut Ctx, u: &Universe, ops: &[Op], pre: bool, enc_seed: u64, found: Outcome, localise_from: usize, obs: &mut Obs) {
        ctx.count("failing_histories", 1);
        // first failing operation under the complete sweep after every operation
        let mut scratch = Obs::default();
        let loc = {
            let mut sut = Sut::new(u, pre, enc_seed);
            let mut model = Model::default();
            let plan = Plan::canonical(u);
            let mut res = None;
            for (i, op) in ops.iter().enumerate().take(found.at + 1) {
                let full = i >= localise_from;
                if let Err(f) = step(u, &mut sut, &mut model, *op, if full { Some(&plan) } else { None }, None, &mut scratch) {
                    res = Some(Outcome { at: i, failure: f });
                    break;
                }
            }
            res
        };
        let (first, localised) = match loc {
            Some(o) => (o, true),
            None => (found, false),
        };
        let key = first.failure.presig();
        if !self.shrunk.insert(key.clone()) || self.shrunk.len() > 12 {
            ctx.count("failing_histories_with_an_already_reported_failure", 1);
            return;
        }
        let hist = ops[..=first.at].to_vec();
        let (min, fin) = if localised {
            let min = shrink(u, hist, pre, enc_seed, &first.failure, &mut scratch);
            // the failure as exhibited by the minimal history
            let fin = run_history(u, &min, pre, enc_seed, Policy::FullEvery, &mut scratch).map(|o| (o.at, o.failure));
            match fin {
                Some((at, f)) => (min[..=at].to_vec(), f),
                None => (min, first.failure.clone()),
            }
        } else {
            (hist, first.failure.clone())
        };
        obs.evals += scratch.evals;
        let after = if localised { min.last().map(|o| o.api()).unwrap_or("none") } else { "not_localised" };
        let sig = fin.signature(after);
        let detail = json!({
            "minimal_history": min.iter().map(|o| o.show(u)).collect::<Vec<_>>(),
            "failure": fin.detail,
            "original_history_length": ops.len(),
            "first_failing_operation_index_in_original": first.at,
            "pre_encoded_dictionary": pre,
        });
        ctx.violation(sig, detail);
    }
}

// ---------------------------------------------------------------------------------------
// phase exh

fn exhaustive_ops(u: &Universe) -> Vec<Op> {
    let mut v = vec![];
    for ins in [true, false] {
        for g in 0..u.ng {
            for s in 0..u.nt {
                for p in 0..u.nt {
                    for o in 0..u.nt {
                        v.push(if ins { Op::Insert((s, p, o, g), Via::Index) } else { Op::Delete((s, p, o, g), Via::Index) });
                    }
                }
            }
        }
    }
    for g in 0..u.ng {
        v.push(Op::Create(g));
        v.push(Op::ClearG(g));
        v.push(Op::DropG(g));
    }
    v.push(Op::Rebuild);
    v.push(Op::ClearAll);
    v
}

fn hist_hash(ops: &[Op]) -> u64 {
    let mut s = String::with_capacity(ops.len() * 8);
    for o in ops {
        s.push_str(&o.code());
        s.push(';');
    }
    hash_str(&s)
}

fn phase_exh(ctx: &mut Ctx, rep: &mut Reporter, obs: &mut Obs) {
    let u = Universe::new(2, 2);
    let ops = exhaustive_ops(&u);
    let n = ops.len() as u64;
    let depth = ctx.by_tier(3usize, 4usize);
    let plan = Plan::canonical(&u);
    ctx.phase("exh", n * n);
    ctx.max("exh.operations_per_step", n);
    ctx.max("exh.history_length", depth as u64);
    while let Some(k) = ctx.next_case() {
        let (a, b) = ((k / n) as usize, (k % n) as usize);
        let enc_seed = ctx.rng(k).next_u64();
        let mut sut = Sut::new(&u, true, enc_seed);
        let mut model = Model::default();
        let mut hist: Vec<Op> = vec![];
        let mut failed: Option<Outcome> = None;
        // prefix a, b
        for (i, oi) in [a, b].into_iter().enumerate() {
            hist.push(ops[oi]);
            if let Err(f) = step(&u, &mut sut, &mut model, ops[oi], Some(&plan), None, obs) {
                failed = Some(Outcome { at: i, failure: f });
                break;
            }
        }
        if b == 0 {
            ctx.count("exh.histories_len1", 1);
        }
        ctx.count("exh.histories_len2", 1);
        if failed.is_none() {
            'outer: for c in 0..ops.len() {
                let mut s3 = sut.fork();
                let mut m3 = model.clone();
                hist.truncate(2);
                hist.push(ops[c]);
                if let Err(f) = step(&u, &mut s3, &mut m3, ops[c], Some(&plan), None, obs) {
                    failed = Some(Outcome { at: 2, failure: f });
                    break 'outer;
                }
                ctx.count("exh.histories_len3", 1);
                if depth >= 4 {
                    for d in 0..ops.len() {
                        let mut s4 = s3.fork();
                        let mut m4 = m3.clone();
                        hist.truncate(3);
                        hist.push(ops[d]);
                        if let Err(f) = step(&u, &mut s4, &mut m4, ops[d], Some(&plan), None, obs) {
                            failed = Some(Outcome { at: 3, failure: f });
                            break 'outer;
                        }
                        ctx.count("exh.histories_len4", 1);
                        if m4.changes > 0 {
                            ctx.nontrivial(hist_hash(&hist));
                        }
                    }
                    hist.truncate(3);
                } else if m3.changes > 0 {
                    ctx.nontrivial(hist_hash(&hist));
                }
                if ctx.wants_sample() && c == 7 && m3.changes >= 2 {
                    ctx.sample(json!({"history": hist.iter().map(|o| o.show(&u)).collect::<Vec<_>>(), "quads_after": m3.quads.len(), "named_graphs_after": m3.named.len(), "note": "one of the histories enumerated inside this case"}));
                }
            }
        }
        if let Some(o) = failed {
            rep.report(ctx, &u, &hist.clone(), true, enc_seed, o, 0, obs);
        }
    }
}

// ---------------------------------------------------------------------------------------
// phase random

struct Gen {
    grow: bool,
    removed: Vec<AQ>,
    drain: Option<(u8, usize)>,
    cap: usize,
}

fn pick_via(r: &mut Rng, vias: &[Via], insert: bool, g: u8) -> Via {
    let ok: Vec<Via> = vias
        .iter()
        .copied()
        .filter(|v| match v {
            Via::Index | Via::DbQuad => true,
            Via::Alias | Via::Alias2 | Via::DbTriple => g == 0,
            Via::Parts => insert || g == 0,
        })
        .collect();
    if ok.is_empty() {
        Via::Index
    } else {
        *r.pick(&ok)
    }
}

fn rand_quad(r: &mut Rng, u: &Universe) -> AQ {
    (r.below(u.nt as usize) as u8, r.below(u.nt as usize) as u8, r.below(u.nt as usize) as u8, r.below(u.ng as usize) as u8)
}

fn gen_op(r: &mut Rng, u: &Universe, m: &Model, g: &mut Gen, vias: &[Via]) -> Op {
    if m.quads.len() >= g.cap {
        g.grow = false;
    } else if m.quads.is_empty() {
        g.grow = true;
    } else if r.chance(1, 40) {
        g.grow = !g.grow;
    }
    // a running drain: delete the quads of one graph one by one down to the last
    if let Some((dg, left)) = g.drain {
        let in_g: Vec<AQ> = m.quads.iter().copied().filter(|q| q.3 == dg).collect();
        if left == 0 || in_g.is_empty() {
            g.drain = None;
        } else {
            g.drain = Some((dg, left - 1));
            let q = *r.pick(&in_g);
            g.removed.push(q);
            return Op::Delete(q, pick_via(r, vias, false, q.3));
        }
    }
    let w: [usize; 15] = if g.grow { [300, 100, 40, 80, 60, 40, 50, 30, 20, 20, 30, 3, 5, 15, 10] } else { [60, 30, 20, 40, 220, 220, 60, 20, 40, 40, 30, 3, 5, 40, 10] };
    let existing: Vec<AQ> = if m.quads.len() <= 64 { m.quads.iter().copied().collect() } else { m.quads.iter().copied().step_by(1 + m.quads.len() / 64).collect() };
    let ins = |r: &mut Rng, q: AQ| Op::Insert(q, pick_via(r, vias, true, q.3));
    let del = |r: &mut Rng, q: AQ| Op::Delete(q, pick_via(r, vias, false, q.3));
    match r.weighted(&w) {
        0 => {
            let q = rand_quad(r, u);
            ins(r, q)
        }
        1 => {
            // same triple into another graph
            if existing.is_empty() {
                let q = rand_quad(r, u);
                return ins(r, q);
            }
            let q = *r.pick(&existing);
            let g2 = r.below(u.ng as usize) as u8;
            ins(r, (q.0, q.1, q.2, g2))
        }
        2 => {
            if existing.is_empty() {
                let q = rand_quad(r, u);
                return ins(r, q);
            }
            let q = *r.pick(&existing);
            ins(r, q)
        }
        3 => {
            // re-insert something that was deleted / cleared / dropped
            if g.removed.is_empty() {
                let q = rand_quad(r, u);
                return ins(r, q);
            }
            let i = r.below(g.removed.len());
            let q = g.removed.swap_remove(i);
            ins(r, q)
        }
        4 => {
            if existing.is_empty() {
                let q = rand_quad(r, u);
                return del(r, q);
            }
            let q = *r.pick(&existing);
            g.removed.push(q);
            del(r, q)
        }
        5 => {
            // delete from the smallest non-empty graph: drives graphs to their last quad
            let mut best: Option<(usize, u8)> = None;
            for gi in 0..u.ng {
                let c = m.quads.iter().filter(|q| q.3 == gi).count();
                if c > 0 && best.map_or(true, |(bc, _)| c < bc || (c == bc && r.coin())) {
                    best = Some((c, gi));
                }
            }
            match best {
                None => {
                    let q = rand_quad(r, u);
                    del(r, q)
                }
                Some((_, gi)) => {
                    let in_g: Vec<AQ> = m.quads.iter().copied().filter(|q| q.3 == gi).collect();
                    let q = *r.pick(&in_g);
                    g.removed.push(q);
                    del(r, q)
                }
            }
        }
        6 => {
            // delete something that is not there
            match r.below(4) {
                0 => {
                    let q = rand_quad(r, u);
                    del(r, q)
                }
                1 if !existing.is_empty() => {
                    // the triple exists, but in another graph (possibly never created)
                    let q = *r.pick(&existing);
                    let g2 = r.below(u.ng as usize + 1) as u8;
                    del(r, (q.0, q.1, q.2, g2))
                }
                2 => {
                    // never-written term in one position
                    let mut q = rand_quad(r, u);
                    match r.below(3) {
                        0 => q.0 = u.nt,
                        1 => q.1 = u.nt,
                        _ => q.2 = u.nt,
                    }
                    del(r, q)
                }
                _ => {
                    // never-created graph
                    let q = rand_quad(r, u);
                    del(r, (q.0, q.1, q.2, u.ng))
                }
            }
        }
        7 => Op::Create(r.below(u.ng as usize) as u8),
        8 => {
            let gi = r.below(u.ng as usize + 1) as u8;
            g.removed.extend(m.quads.iter().filter(|q| q.3 == gi).take(6));
            Op::ClearG(gi)
        }
        9 => {
            let gi = r.below(u.ng as usize + 1) as u8;
            g.removed.extend(m.quads.iter().filter(|q| q.3 == gi).take(6));
            Op::DropG(gi)
        }
        10 => Op::Rebuild,
        11 => {
            g.removed.extend(m.quads.iter().take(8));
            Op::ClearAll
        }
        12 => Op::CloneDb,
        13 => {
            // start a drain of one non-empty graph
            let cands: Vec<u8> = (0..u.ng).filter(|gi| m.quads.iter().any(|q| q.3 == *gi)).collect();
            if cands.is_empty() {
                return Op::Rebuild;
            }
            let gi = *r.pick(&cands);
            g.drain = Some((gi, 40));
            let in_g: Vec<AQ> = m.quads.iter().copied().filter(|q| q.3 == gi).collect();
            let q = *r.pick(&in_g);
            g.removed.push(q);
            del(r, q)
        }
        _ => {
            // fill: the same triple into every graph
            let q = rand_quad(r, u);
            let gi = r.below(u.ng as usize) as u8;
            g.removed.push((q.0, q.1, q.2, (gi + 1) % u.ng));
            ins(r, (q.0, q.1, q.2, gi))
        }
    }
}

fn phase_random(ctx: &mut Ctx, rep: &mut Reporter, obs: &mut Obs) {
    let total = ctx.by_tier(720u64, 24_000u64);
    ctx.phase("random", total);
    loop {
        // the random phase runs first and may use at most 40 % of the workload cap, the
        // rest belongs to the exhaustive phase (matters for the thorough tier only)
        if !ctx.within(0.4) {
            ctx.count("random.stopped_at_its_share_of_the_workload_cap", 1);
            break;
        }
        let Some(k) = ctx.next_case() else { break };
        let mut r = ctx.rng(k);
        let (nt, nn) = if r.chance(1, 2) { (6, 3) } else { (r.range(2, 6) as u8, r.range(1, 3) as u8) };
        let u = Universe::new(nt, nn);
        let mode = r.weighted(&[3, 4, 3]);
        let (vias, pre, mode_name): (Vec<Via>, bool, &str) = match mode {
            0 => (vec![Via::Index, Via::Index, Via::Alias, Via::Alias2], true, "index"),
            1 => (vec![Via::Parts, Via::Parts, Via::DbQuad, Via::DbTriple], false, "wrappers"),
            _ => (vec![Via::Index, Via::Alias, Via::Alias2, Via::Parts, Via::Parts, Via::DbQuad, Via::DbTriple], r.coin(), "mixed"),
        };
        let n_ops = if r.chance(1, 6) { r.range(1000, 2000) } else { r.range(200, 1000) };
        let cap = *r.pick(&[4usize, 8, 16, 40, 120]);
        let sweep_every = r.range(8, 64);
        let enc_seed = r.next_u64();
        ctx.count(&format!("random.mode.{}", mode_name), 1);
        ctx.max("random.max_history_length", n_ops as u64);

        let mut sut = Sut::new(&u, pre, enc_seed);
        let mut model = Model::default();
        let mut g = Gen { grow: true, removed: vec![], drain: None, cap };
        let canonical = Plan::canonical(&u);
        let mut ops: Vec<Op> = Vec::with_capacity(n_ops);
        let mut rr = ctx.rng_labeled("reads", k);
        let mut failed: Option<Outcome> = None;
        let mut last_full_ok = 0usize;
        let nonempty0 = obs.nonempty_total();
        for i in 0..n_ops {
            let op = gen_op(&mut r, &u, &model, &mut g, &vias);
            if g.removed.len() > 64 {
                g.removed.drain(..32);
            }
            ops.push(op);
            let full = (i + 1) % sweep_every == 0 || i + 1 == n_ops;
            let sweep;
            let targeted;
            let (p_full, p_extra) = if full {
                sweep = canonical.subsample(&u, &mut rr);
                (Some(&sweep), None)
            } else {
                targeted = Plan::targeted(&u, op, &mut rr);
                (None, Some(&targeted))
            };
            if let Err(f) = step(&u, &mut sut, &mut model, op, p_full, p_extra, obs) {
                failed = Some(Outcome { at: i, failure: f });
                break;
            }
            if full {
                last_full_ok = i + 1;
            }
        }
        ctx.max("random.max_state_changing_operations_in_a_history", model.changes);
        if model.changes > 0 && obs.nonempty_total() > nonempty0 {
            ctx.nontrivial(hist_hash(&ops));
        }
        if ctx.wants_sample() {
            ctx.sample(json!({"mode": mode_name, "terms": nt, "named_graphs": nn, "operations": ops.len(), "fill_cap": cap, "sweep_every": sweep_every,
                "first_operations": ops.iter().take(12).map(|o| o.show(&u)).collect::<Vec<_>>(), "quads_at_end": model.quads.len(), "named_graphs_at_end": model.named.len()}));
        }
        if let Some(o) = failed {
            rep.report(ctx, &u, &ops, pre, enc_seed, o, last_full_ok, obs);
        }
    }
}

fn run(ctx: &mut Ctx) {
    let mut obs = Obs::default();
    let mut rep = Reporter { shrunk: HashSet::new() };
    phase_random(ctx, &mut rep, &mut obs);
    phase_exh(ctx, &mut rep, &mut obs);
    obs.flush(ctx);
}

fn main() {
    let mut spec = Spec::new("C04", "exploration", RULE);
    spec.assumptions = &[
        "terms and graph names are plain strings of the M-TERM domain (no <>, quotes or << >>), so encode_term_star and Dictionary::encode coincide; one term is lexically equal to a graph name on purpose",
        "results are compared lexically: every id returned is mapped back through the dictionary (decode_any) to a string of the universe; an id that decodes to anything else is a violation",
        "order of results is not part of the property, except all_quads (documented as a sorted snapshot): compared as multisets, duplicates are violations",
        "the legacy (pre-catalog) serialized index form is not reachable through the public API and is not exercised",
        "build_all_indexes, clear_graph, clear, clone are abstract no-ops / deletions as documented; create_graph/drop_graph/insert/delete return values are part of the check",
        "exhaustive sub-space: the `exhaustive` flag refers to phase exh only (all histories up to the stated length over the 59 operations); the random phase is sized by case count so that it completes",
    ];
    spec.quick_budget_s = 90;
    spec.thorough_budget_s = 1500;
    // the exhaustive phase completes in the quick tier (length 3); in the thorough tier the
    // length-4 space is enumerated as far as the cap allows and the runtime clears the flag
    // when a shard stops early
    spec.exhaustive = true;
    kvcore::run(spec, run);
}
