//! The read side: every lookup of the store compared with the abstract quad set.

use crate::model::{Model, Op, Pat, Universe, AQ};
use crate::sut::{Ids, Sut};
use kvcore::{json, Ctx, Rng, Value};
use shared::dataset_index::{GraphId, Quad};
use shared::terms::Term;
use shared::triple::Triple;
use std::collections::{BTreeMap, BTreeSet, HashSet};

// read APIs (index into Obs::reads)
pub const A_QUERY_GRAPH: usize = 0;
pub const A_QUERY_QUADS_G: usize = 1;
pub const A_DB_QUERY_GRAPH_QUADS: usize = 2;
pub const A_QUERY_DEFAULT: usize = 3;
pub const A_QUERY: usize = 4;
pub const A_GET_MATCHING: usize = 5;
pub const A_DB_QUERY_DEFAULT_TRIPLES: usize = 6;
pub const A_QUERY_QUADS_ALL: usize = 7;
pub const A_NAMED_ALL: usize = 8;
pub const A_NAMED_VISIBLE: usize = 9;
pub const A_MERGED: usize = 10;
pub const A_CONTAINS: usize = 11;
pub const A_GRAPHS_FOR_TRIPLE: usize = 12;
pub const A_ALL_QUADS: usize = 13;
pub const A_GRAPHS: usize = 14;
pub const A_NAMED_GRAPHS: usize = 15;
pub const A_GRAPH_EXISTS: usize = 16;
pub const A_LEN_GRAPH: usize = 17;
pub const A_LEN_DEFAULT: usize = 18;
pub const A_QB_DECODED: usize = 19;
pub const A_QB_TRIPLES: usize = 20;
pub const A_QB_COUNT: usize = 21;
pub const A_QB_PARTIAL: usize = 22;
pub const A_QB_COLUMNS: usize = 23;
pub const NAPI: usize = 24;
pub const API: [&str; NAPI] = [
    "query_graph",
    "query_quads(Some(g))",
    "db.query_graph_quads",
    "query_default",
    "query",
    "get_matching_triples",
    "db.query_default_triples",
    "query_quads(None)",
    "query_named_graphs(None)",
    "query_named_graphs(Some(visible))",
    "query_merged_graphs",
    "contains_quad",
    "graphs_for_triple",
    "all_quads",
    "graphs",
    "named_graphs",
    "graph_exists",
    "len_graph",
    "len_default",
    "QueryBuilder.get_decoded_triples",
    "QueryBuilder.get_triples",
    "QueryBuilder.count",
    "QueryBuilder.starting/ending/like",
    "QueryBuilder.get_subjects/predicates/objects",
];

const SHAPES: [&str; 8] = ["???", "??O", "?P?", "?PO", "S??", "S?O", "SP?", "SPO"];
pub fn shape_of(p: &Pat) -> &'static str {
    SHAPES[(p.0.is_some() as usize) << 2 | (p.1.is_some() as usize) << 1 | p.2.is_some() as usize]
}
/// the physical index that the documented dispatch of query_graph uses for a shape
fn serving_index(shape: &str) -> &'static str {
    match shape {
        "SPO" => "spog",
        "SP?" | "S??" | "???" => "gspo",
        "S?O" | "??O" => "gosp",
        "?PO" | "?P?" => "gpos",
        _ => "",
    }
}

#[derive(Default)]
pub struct Obs {
    pub reads: [u64; NAPI],
    pub nonempty: [u64; NAPI],
    pub shapes: [u64; 8],
    pub evals: u64,
    pub states_full: u64,
    pub states_targeted: u64,
    pub ops: BTreeMap<&'static str, [u64; 3]>,
    pub trans: BTreeMap<&'static str, u64>,
    pub max_quads: u64,
    pub max_named: u64,
    pub max_graphs_of_one_triple: u64,
    pub max_visible_set: u64,
    pub max_merged_sources: u64,
}

impl Obs {
    pub fn nonempty_total(&self) -> u64 {
        self.nonempty.iter().sum()
    }
    #[inline]
    fn read(&mut self, api: usize, nonempty: bool) {
        self.reads[api] += 1;
        self.nonempty[api] += nonempty as u64;
        self.evals += 1;
    }
    pub fn t(&mut self, k: &'static str) {
        *self.trans.entry(k).or_insert(0) += 1;
    }
    pub fn flush(&self, ctx: &mut Ctx) {
        ctx.add_evals(self.evals);
        for i in 0..NAPI {
            if self.reads[i] > 0 {
                ctx.count(&format!("reads.{}", API[i]), self.reads[i]);
                ctx.count(&format!("reads_with_nonempty_expected_answer.{}", API[i]), self.nonempty[i]);
            }
        }
        for i in 0..8 {
            ctx.count(&format!("pattern_shape.{}", SHAPES[i]), self.shapes[i]);
        }
        for (k, v) in &self.ops {
            ctx.count(&format!("op.{}", k), v[0]);
            if v[1] + v[2] > 0 {
                ctx.count(&format!("op.{}.returned_true", k), v[1]);
                ctx.count(&format!("op.{}.returned_false", k), v[2]);
            }
        }
        for (k, v) in &self.trans {
            ctx.count(&format!("interleaving.{}", k), *v);
        }
        ctx.count("states_checked_with_the_complete_sweep", self.states_full);
        ctx.count("states_checked_with_targeted_reads", self.states_targeted);
        ctx.max("max_quads_in_store", self.max_quads);
        ctx.max("max_named_graphs", self.max_named);
        ctx.max("max_graphs_holding_the_same_triple", self.max_graphs_of_one_triple);
        ctx.max("max_visible_set_size", self.max_visible_set);
        ctx.max("max_merged_source_list_length", self.max_merged_sources);
    }
}

#[derive(Clone, Debug)]
pub struct Failure {
    pub kind: &'static str,
    pub api: &'static str,
    pub shape: &'static str,
    /// which graphs the read was about: default / named / never_created / all / visible_set / merged
    pub scope: &'static str,
    pub diff: String,
    pub detail: Value,
}

impl Failure {
    pub fn presig(&self) -> String {
        format!("{}|{}|{}|{}|{}", self.kind, self.api, self.shape, self.scope, self.diff)
    }
    pub fn signature(&self, after: &str) -> Value {
        let mut m = serde_json_map();
        m.insert("kind".into(), json!(self.kind));
        m.insert("api".into(), json!(self.api));
        if !self.shape.is_empty() {
            m.insert("shape".into(), json!(self.shape));
            if self.kind == "read_disagrees_with_written_quads" && !self.api.starts_with("QueryBuilder") {
                m.insert("index_serving_the_shape".into(), json!(serving_index(self.shape)));
            }
        }
        if !self.scope.is_empty() {
            m.insert("scope".into(), json!(self.scope));
        }
        m.insert("diff".into(), json!(self.diff));
        m.insert("after".into(), json!(after));
        Value::Object(m)
    }
    pub fn ret(api: &'static str, got: Option<bool>, exp: Option<bool>, u: &Universe, op: Op) -> Failure {
        Failure {
            kind: "mutator_returned_wrong_value",
            api,
            shape: "",
            scope: "",
            diff: format!("returned_{:?}_expected_{:?}", got, exp).to_lowercase(),
            detail: json!({"operation": op.show(u), "returned": format!("{:?}", got), "expected": format!("{:?}", exp)}),
        }
    }
    pub fn panic(site: String, msg: String) -> Failure {
        Failure { kind: "panic", api: "", shape: "", scope: "", diff: site, detail: json!({"panic": msg}) }
    }
}

fn serde_json_map() -> serde_json::Map<String, Value> {
    serde_json::Map::new()
}

/// which reads to perform
pub struct Plan {
    pub patterns: Vec<Pat>,
    /// visibility sets for query_named_graphs(.., Some(set)) as graph indexes
    pub visible: Vec<Vec<u8>>,
    /// source lists for query_merged_graphs
    pub merged: Vec<Vec<u8>>,
    /// membership / catalog / snapshot / alias paths
    pub global: bool,
    pub aliases: bool,
    pub query_builder: bool,
}

impl Plan {
    /// every pattern over the universe (incl. the never-written term), every visibility
    /// set, a fixed family of source lists
    pub fn canonical(u: &Universe) -> Plan {
        let vals: Vec<Option<u8>> = std::iter::once(None).chain((0..=u.nt).map(Some)).collect();
        let mut patterns = vec![];
        for s in &vals {
            for p in &vals {
                for o in &vals {
                    patterns.push((*s, *p, *o));
                }
            }
        }
        let ngr = u.ng as usize + 1;
        let mut visible = vec![];
        for mask in 0u32..(1 << ngr) {
            visible.push((0..ngr as u8).filter(|g| mask >> g & 1 == 1).collect());
        }
        let last = u.ng - 1; // highest writable graph (0 when there is no named one: never, ng >= 2)
        let mut merged: Vec<Vec<u8>> = vec![vec![], vec![0], vec![1], vec![1, 1], vec![0, 1], vec![1, 0, 1], (0..=u.ng).collect(), vec![u.ng], vec![last, 0, last], vec![u.ng, last]];
        for g in 0..u.ng {
            merged.push(vec![g, g]);
        }
        merged.sort();
        merged.dedup();
        Plan { patterns, visible, merged, global: true, aliases: true, query_builder: true }
    }

    /// the complete pattern sweep with a random choice of 4 visibility sets and 3 source lists
    pub fn subsample(&self, u: &Universe, r: &mut Rng) -> Plan {
        let mut visible = vec![];
        for _ in 0..4 {
            visible.push(r.pick(&self.visible).clone());
        }
        let mut merged = vec![];
        for _ in 0..3 {
            let n = r.range(0, 5);
            merged.push((0..n).map(|_| r.below(u.ng as usize + 1) as u8).collect());
        }
        Plan { patterns: self.patterns.clone(), visible, merged, global: true, aliases: r.chance(1, 3), query_builder: true }
    }

    /// the 8 shapes of the triple an operation touched (in every graph), plus random patterns
    pub fn targeted(u: &Universe, op: Op, r: &mut Rng) -> Plan {
        let mut patterns = vec![];
        if let Op::Insert(q, _) | Op::Delete(q, _) = op {
            for m in 0..8u8 {
                patterns.push((if m & 4 != 0 { Some(q.0) } else { None }, if m & 2 != 0 { Some(q.1) } else { None }, if m & 1 != 0 { Some(q.2) } else { None }));
            }
        } else {
            patterns.push((None, None, None));
        }
        let any = |r: &mut Rng| -> Option<u8> {
            if r.chance(2, 5) {
                None
            } else {
                Some(r.below(u.nt as usize + 1) as u8)
            }
        };
        for _ in 0..4 {
            patterns.push((any(r), any(r), any(r)));
        }
        let ngr = u.ng as usize + 1;
        let mut visible = vec![];
        for _ in 0..2 {
            let mask = r.below(1 << ngr) as u32;
            visible.push((0..ngr as u8).filter(|g| mask >> g & 1 == 1).collect());
        }
        let n = r.range(0, 4);
        let merged = vec![(0..n).map(|_| r.below(ngr) as u8).collect()];
        Plan { patterns, visible, merged, global: true, aliases: false, query_builder: r.chance(1, 4) }
    }
}

struct Chk<'a> {
    vis_sets: Vec<HashSet<GraphId>>,
    merged_ids: Vec<Vec<GraphId>>,
    u: &'a Universe,
    sut: &'a Sut,
    ids: Ids,
    m: &'a Model,
    obs: &'a mut Obs,
}

fn diff_kind(got: &[AQ], exp: &[AQ]) -> Option<&'static str> {
    if got == exp {
        return None;
    }
    let gs: BTreeSet<&AQ> = got.iter().collect();
    let es: BTreeSet<&AQ> = exp.iter().collect();
    let missing = es.iter().any(|q| !gs.contains(*q));
    let extra = gs.iter().any(|q| !es.contains(*q));
    Some(match (missing, extra) {
        (false, false) => "duplicate_result",
        (true, false) => "matching_quad_missing",
        (false, true) => "non_matching_or_deleted_quad_returned",
        (true, true) => "missing_and_extra",
    })
}

impl<'a> Chk<'a> {
    fn scope_of(&self, g: u8) -> &'static str {
        if g == 0 {
            "default"
        } else if g == self.u.ng {
            "never_created_graph"
        } else {
            "named"
        }
    }
    fn pat_ids(&self, p: &Pat) -> (Option<u32>, Option<u32>, Option<u32>) {
        (p.0.map(|x| self.ids.t[x as usize]), p.1.map(|x| self.ids.t[x as usize]), p.2.map(|x| self.ids.t[x as usize]))
    }
    fn show_pat(&self, p: &Pat) -> String {
        let f = |x: Option<u8>| x.map(|i| self.u.t(i).to_string()).unwrap_or_else(|| "?".into());
        format!("{} {} {}", f(p.0), f(p.1), f(p.2))
    }
    fn foreign(&self, api: usize, what: String) -> Failure {
        Failure { kind: "read_returned_term_or_graph_never_written", api: API[api], shape: "", scope: "", diff: "foreign_id".into(), detail: json!({ "returned": what }) }
    }
    fn norm_quads(&self, api: usize, v: &[Quad]) -> Result<Vec<AQ>, Failure> {
        let mut out = Vec::with_capacity(v.len());
        for q in v {
            match (self.ids.rev_t(q.subject), self.ids.rev_t(q.predicate), self.ids.rev_t(q.object), self.ids.rev_g(q.graph)) {
                (Some(s), Some(p), Some(o), Some(g)) => out.push((s, p, o, g)),
                _ => return Err(self.foreign(api, format!("{:?}", q))),
            }
        }
        out.sort_unstable();
        Ok(out)
    }
    fn norm_triples(&self, api: usize, v: &[Triple], g: u8) -> Result<Vec<AQ>, Failure> {
        let mut out = Vec::with_capacity(v.len());
        for q in v {
            match (self.ids.rev_t(q.subject), self.ids.rev_t(q.predicate), self.ids.rev_t(q.object)) {
                (Some(s), Some(p), Some(o)) => out.push((s, p, o, g)),
                _ => return Err(self.foreign(api, format!("{:?}", q))),
            }
        }
        out.sort_unstable();
        Ok(out)
    }
    fn cmp(&mut self, api: usize, pat: &Pat, scope: &'static str, ctxs: &dyn Fn() -> String, got: Vec<AQ>, exp: &[AQ]) -> Result<(), Failure> {
        self.obs.read(api, !exp.is_empty());
        match diff_kind(&got, exp) {
            None => Ok(()),
            Some(d) => Err(Failure {
                kind: "read_disagrees_with_written_quads",
                api: API[api],
                shape: shape_of(pat),
                scope,
                diff: d.into(),
                detail: json!({
                    "read": format!("{}({}{})", API[api], self.show_pat(pat), ctxs()),
                    "returned": got.iter().map(|q| self.u.show_q(q)).collect::<Vec<_>>(),
                    "expected": exp.iter().map(|q| self.u.show_q(q)).collect::<Vec<_>>(),
                    "abstract_quads": self.m.quads.iter().map(|q| self.u.show_q(q)).collect::<Vec<_>>(),
                    "abstract_named_graphs": self.m.named.iter().map(|g| self.u.g(*g).to_string()).collect::<Vec<_>>(),
                }),
            }),
        }
    }
    fn quads(&mut self, api: usize, pat: &Pat, scope: &'static str, ctxs: &dyn Fn() -> String, got: &[Quad], exp: &[AQ]) -> Result<(), Failure> {
        let n = self.norm_quads(api, got)?;
        self.cmp(api, pat, scope, ctxs, n, exp)
    }
    fn triples(&mut self, api: usize, pat: &Pat, scope: &'static str, ctxs: &dyn Fn() -> String, got: &[Triple], exp: &[AQ]) -> Result<(), Failure> {
        let g = exp.first().map(|q| q.3).unwrap_or(0);
        let n = self.norm_triples(api, got, g)?;
        self.cmp(api, pat, scope, ctxs, n, exp)
    }

    fn catalog(&mut self) -> Result<(), Failure> {
        let sut: &'a Sut = self.sut;
        let di = &sut.db.dataset_index;
        let u: &'a Universe = self.u;
        let content = |m: &Model, g: u8| if m.quads.iter().any(|q| q.3 == g) { "graph_holds_quads" } else { "graph_is_empty" };
        let state = |m: &Model| json!({"abstract_named_graphs": m.named.iter().map(|g| u.g(*g).to_string()).collect::<Vec<_>>(), "abstract_quads": m.quads.iter().map(|q| u.show_q(q)).collect::<Vec<_>>()});
        for g in 0..=u.ng {
            let exp = g == 0 || self.m.named.contains(&g);
            let got = di.graph_exists(self.ids.g[g as usize]);
            self.obs.read(A_GRAPH_EXISTS, exp && g != 0);
            if got != exp {
                return Err(Failure {
                    kind: "graph_catalog_disagrees_with_graph_lifecycle",
                    api: "graph_exists",
                    shape: "",
                    scope: content(self.m, g),
                    diff: if exp { "existing_graph_reported_missing".into() } else { "graph_reported_that_was_never_created_or_was_dropped".into() },
                    detail: json!({"graph": u.g(g), "returned": got, "state": state(self.m)}),
                });
            }
        }
        for (api, list, with_default) in [(A_NAMED_GRAPHS, di.named_graphs(), false), (A_GRAPHS, di.graphs(), true)] {
            let mut got: Vec<u8> = vec![];
            for g in &list {
                match self.ids.rev_g(*g) {
                    Some(i) => got.push(i),
                    None => return Err(self.foreign(api, format!("{:?}", g))),
                }
            }
            got.sort_unstable();
            let mut exp: Vec<u8> = self.m.named.iter().copied().collect();
            if with_default {
                exp.insert(0, 0);
            }
            self.obs.read(api, exp.len() > with_default as usize);
            if got != exp {
                let missing: Vec<u8> = exp.iter().copied().filter(|g| !got.contains(g)).collect();
                let extra: Vec<u8> = got.iter().copied().filter(|g| !exp.contains(g)).collect();
                let (diff, g) = if let Some(g) = missing.first() {
                    ("existing_graph_not_listed", *g)
                } else if let Some(g) = extra.first() {
                    ("graph_listed_that_was_never_created_or_was_dropped", *g)
                } else {
                    ("graph_listed_twice", 0)
                };
                return Err(Failure {
                    kind: "graph_catalog_disagrees_with_graph_lifecycle",
                    api: API[api],
                    shape: "",
                    scope: content(self.m, g),
                    diff: diff.into(),
                    detail: json!({"returned": got.iter().map(|g| u.g(*g).to_string()).collect::<Vec<_>>(), "state": state(self.m)}),
                });
            }
        }
        Ok(())
    }

    fn membership(&mut self, triples: &BTreeSet<(u8, u8, u8)>) -> Result<(), Failure> {
        let sut: &'a Sut = self.sut;
        let di = &sut.db.dataset_index;
        for &(s, p, o) in triples {
            let pat: Pat = (Some(s), Some(p), Some(o));
            let (si, pi, oi) = (self.ids.t[s as usize], self.ids.t[p as usize], self.ids.t[o as usize]);
            let mut holders = vec![];
            for g in 0..=self.u.ng {
                let exp = self.m.quads.contains(&(s, p, o, g));
                if exp {
                    holders.push((s, p, o, g));
                }
                let got = di.contains_quad(&Quad { subject: si, predicate: pi, object: oi, graph: self.ids.g[g as usize] });
                self.obs.read(A_CONTAINS, exp);
                if got != exp {
                    let scope = self.scope_of(g);
                    return Err(Failure {
                        kind: "read_disagrees_with_written_quads",
                        api: "contains_quad",
                        shape: "SPO",
                        scope,
                        diff: if exp { "matching_quad_missing".into() } else { "non_matching_or_deleted_quad_returned".into() },
                        detail: json!({"quad": self.u.show_q(&(s, p, o, g)), "returned": got, "abstract_quads": self.m.quads.iter().map(|q| self.u.show_q(q)).collect::<Vec<_>>()}),
                    });
                }
            }
            self.obs.max_graphs_of_one_triple = self.obs.max_graphs_of_one_triple.max(holders.len() as u64);
            let gs = di.graphs_for_triple(&Triple { subject: si, predicate: pi, object: oi });
            let mut got = vec![];
            for g in &gs {
                match self.ids.rev_g(*g) {
                    Some(i) => got.push((s, p, o, i)),
                    None => return Err(self.foreign(A_GRAPHS_FOR_TRIPLE, format!("{:?}", g))),
                }
            }
            got.sort_unstable();
            self.cmp(A_GRAPHS_FOR_TRIPLE, &pat, "all", &|| String::new(), got, &holders)?;
        }
        Ok(())
    }

    fn snapshot(&mut self) -> Result<(), Failure> {
        let sut: &'a Sut = self.sut;
        let di = &sut.db.dataset_index;
        let all = di.all_quads();
        let exp: Vec<AQ> = self.m.quads.iter().copied().collect();
        let pat: Pat = (None, None, None);
        self.quads(A_ALL_QUADS, &pat, "all", &|| String::new(), &all, &exp)?;
        if !all.windows(2).all(|w| w[0] < w[1]) {
            return Err(Failure { kind: "read_disagrees_with_written_quads", api: "all_quads", shape: "???", scope: "all", diff: "snapshot_not_strictly_sorted".into(), detail: json!({"returned": format!("{:?}", all)}) });
        }
        // the same snapshot, decoded term by term to strings
        let mut lex: Vec<(String, String, String, String)> = vec![];
        for q in &all {
            let d = |id: u32| sut.db.decode_any(id).unwrap_or_else(|| format!("<undecodable {}>", id));
            let g = match q.graph {
                GraphId::Default => String::new(),
                GraphId::Named(id) => d(id),
            };
            lex.push((d(q.subject), d(q.predicate), d(q.object), g));
        }
        lex.sort();
        let mut exp_lex: Vec<(String, String, String, String)> = self.m.quads.iter().map(|q| (self.u.terms[q.0 as usize].clone(), self.u.terms[q.1 as usize].clone(), self.u.terms[q.2 as usize].clone(), self.u.graphs[q.3 as usize].clone())).collect();
        exp_lex.sort();
        if lex != exp_lex {
            return Err(Failure { kind: "read_disagrees_with_written_quads", api: "all_quads", shape: "???", scope: "all", diff: "decoded_snapshot_differs".into(), detail: json!({"returned": format!("{:?}", lex), "expected": format!("{:?}", exp_lex)}) });
        }
        for g in 0..=self.u.ng {
            let exp = self.m.quads.iter().filter(|q| q.3 == g).count();
            let got = di.len_graph(self.ids.g[g as usize]);
            self.obs.read(A_LEN_GRAPH, exp > 0);
            if got != exp {
                let scope = self.scope_of(g);
                return Err(Failure { kind: "read_disagrees_with_written_quads", api: "len_graph", shape: "???", scope, diff: if got > exp { "count_too_high".into() } else { "count_too_low".into() }, detail: json!({"graph": self.u.g(g), "returned": got, "expected": exp}) });
            }
            if g == 0 {
                let got = di.len_default();
                self.obs.read(A_LEN_DEFAULT, exp > 0);
                if got != exp {
                    return Err(Failure { kind: "read_disagrees_with_written_quads", api: "len_default", shape: "???", scope: "default", diff: if got > exp { "count_too_high".into() } else { "count_too_low".into() }, detail: json!({"returned": got, "expected": exp}) });
                }
            }
        }
        Ok(())
    }

    fn pattern(&mut self, idx: usize, pat: &Pat, plan: &Plan) -> Result<(), Failure> {
        let sut: &'a Sut = self.sut;
        let u: &'a Universe = self.u;
        let db = &sut.db;
        let di = &db.dataset_index;
        let (s, p, o) = self.pat_ids(pat);
        self.obs.shapes[(pat.0.is_some() as usize) << 2 | (pat.1.is_some() as usize) << 1 | pat.2.is_some() as usize] += 1;
        let none = || String::new();
        // per graph
        for g in 0..=u.ng {
            let gid = self.ids.g[g as usize];
            let exp = self.m.matching(*pat, Some(g));
            let scope = self.scope_of(g);
            let c = move || format!(" @{}", u.g(g));
            self.quads(A_QUERY_GRAPH, pat, scope, &c, &di.query_graph(gid, s, p, o), &exp)?;
            if plan.aliases {
                self.quads(A_QUERY_QUADS_G, pat, scope, &c, &di.query_quads(s, p, o, Some(gid)), &exp)?;
                self.quads(A_DB_QUERY_GRAPH_QUADS, pat, scope, &c, &db.query_graph_quads(gid, s, p, o), &exp)?;
            }
            if g == 0 {
                self.triples(A_QUERY_DEFAULT, pat, "default", &none, &di.query_default(s, p, o), &exp)?;
                if plan.aliases {
                    self.triples(A_QUERY, pat, "default", &none, &di.query(s, p, o), &exp)?;
                    let term = |x: Option<u32>, n: &str| x.map(Term::Constant).unwrap_or_else(|| Term::Variable(n.to_string()));
                    let tp = (term(s, "s"), term(p, "p"), term(o, "o"));
                    self.triples(A_GET_MATCHING, pat, "default", &none, &di.get_matching_triples(&tp), &exp)?;
                    self.triples(A_DB_QUERY_DEFAULT_TRIPLES, pat, "default", &none, &db.query_default_triples(s, p, o), &exp)?;
                }
            }
        }
        // across all graphs
        let all = self.m.matching(*pat, None);
        self.quads(A_QUERY_QUADS_ALL, pat, "all", &none, &di.query_quads(s, p, o, None), &all)?;
        let named: Vec<AQ> = all.iter().copied().filter(|q| q.3 != 0).collect();
        self.quads(A_NAMED_ALL, pat, "named", &none, &di.query_named_graphs(s, p, o, None), &named)?;
        // patterns that mention the never-written term (expected answer always empty) get a
        // rotating eighth of the visibility sets / quarter of the source lists
        let thin = plan.visible.len() > 8 && (pat.0 == Some(u.nt) || pat.1 == Some(u.nt) || pat.2 == Some(u.nt));
        for (vi, vis) in plan.visible.iter().enumerate() {
            if thin && (vi + idx) % 8 != 0 {
                continue;
            }
            let exp: Vec<AQ> = named.iter().copied().filter(|q| vis.contains(&q.3)).collect();
            self.obs.max_visible_set = self.obs.max_visible_set.max(vis.len() as u64);
            let c = move || format!(" visible={:?}", vis.iter().map(|g| u.g(*g)).collect::<Vec<_>>());
            let got = di.query_named_graphs(s, p, o, Some(&self.vis_sets[vi]));
            self.quads(A_NAMED_VISIBLE, pat, "visible_set", &c, &got, &exp)?;
        }
        // merged default graph
        for (mi, src) in plan.merged.iter().enumerate() {
            if thin && (mi + idx) % 4 != 0 {
                continue;
            }
            let exp: BTreeSet<AQ> = all.iter().filter(|q| src.contains(&q.3)).map(|q| (q.0, q.1, q.2, 0)).collect();
            let exp: Vec<AQ> = exp.into_iter().collect();
            self.obs.max_merged_sources = self.obs.max_merged_sources.max(src.len() as u64);
            let c = move || format!(" sources={:?}", src.iter().map(|g| u.g(*g)).collect::<Vec<_>>());
            let got = di.query_merged_graphs(&self.merged_ids[mi], s, p, o);
            let n = self.norm_triples(A_MERGED, &got, 0)?;
            self.cmp(A_MERGED, pat, "merged", &c, n, &exp)?;
        }
        // QueryBuilder: exact lexical filters over the default graph
        if plan.query_builder {
            let exp0 = self.m.matching(*pat, Some(0));
            let build = |pat: &Pat| {
                let mut qb = db.query();
                if let Some(x) = pat.0 {
                    qb = qb.with_subject(&u.terms[x as usize]);
                }
                if let Some(x) = pat.1 {
                    qb = qb.with_predicate(&u.terms[x as usize]);
                }
                if let Some(x) = pat.2 {
                    qb = qb.with_object(&u.terms[x as usize]);
                }
                qb
            };
            let dec = build(pat).get_decoded_triples();
            let mut got = vec![];
            for (a, b, c) in &dec {
                match (u.term_index(a), u.term_index(b), u.term_index(c)) {
                    (Some(a), Some(b), Some(c)) => got.push((a, b, c, 0)),
                    _ => return Err(self.foreign(A_QB_DECODED, format!("{:?}", (a, b, c)))),
                }
            }
            got.sort_unstable();
            self.cmp(A_QB_DECODED, pat, "default", &none, got, &exp0)?;
            match idx % 4 {
                0 => {
                    let ts: Vec<Triple> = build(pat).get_triples().into_iter().collect();
                    self.triples(A_QB_TRIPLES, pat, "default", &none, &ts, &exp0)?;
                    let n = build(pat).count();
                    self.obs.read(A_QB_COUNT, !exp0.is_empty());
                    if n != exp0.len() {
                        return Err(Failure { kind: "read_disagrees_with_written_quads", api: API[A_QB_COUNT], shape: shape_of(pat), scope: "default", diff: if n > exp0.len() { "count_too_high".into() } else { "count_too_low".into() }, detail: json!({"filters": self.show_pat(pat), "returned": n, "expected": exp0.len()}) });
                    }
                }
                1 => {
                    // prefix / suffix / substring filters with a whole term behave as exact ones
                    let mut qb = db.query();
                    // the three kinds rotate over the three positions from lookup to lookup
                    let rot = (idx / 4) % 3;
                    if let Some(x) = pat.0 {
                        let t = &u.terms[x as usize];
                        qb = match rot {
                            0 => qb.with_subject_starting(t),
                            1 => qb.with_subject_like(t),
                            _ => qb.with_subject_ending(t),
                        };
                    }
                    if let Some(x) = pat.1 {
                        let t = &u.terms[x as usize];
                        qb = match rot {
                            0 => qb.with_predicate_like(t),
                            1 => qb.with_predicate_ending(t),
                            _ => qb.with_predicate_starting(t),
                        };
                    }
                    if let Some(x) = pat.2 {
                        let t = &u.terms[x as usize];
                        qb = match rot {
                            0 => qb.with_object_ending(t),
                            1 => qb.with_object_starting(t),
                            _ => qb.with_object_like(t),
                        };
                    }
                    let ts: Vec<Triple> = qb.get_triples().into_iter().collect();
                    self.triples(A_QB_PARTIAL, pat, "default", &none, &ts, &exp0)?;
                }
                2 => {
                    // column projections keep one entry per matching triple
                    let cols = [build(pat).get_subjects(), build(pat).get_predicates(), build(pat).get_objects()];
                    for (ci, col) in cols.iter().enumerate() {
                        let mut got: Vec<String> = col.clone();
                        got.sort();
                        let mut exp: Vec<String> = exp0.iter().map(|q| u.terms[[q.0, q.1, q.2][ci] as usize].clone()).collect();
                        exp.sort();
                        self.obs.read(A_QB_COLUMNS, !exp.is_empty());
                        if got != exp {
                            return Err(Failure { kind: "read_disagrees_with_written_quads", api: API[A_QB_COLUMNS], shape: shape_of(pat), scope: "default", diff: format!("column_{}_differs", ["subject", "predicate", "object"][ci]), detail: json!({"filters": self.show_pat(pat), "returned": got, "expected": exp}) });
                        }
                    }
                }
                _ => {}
            }
        }
        Ok(())
    }
}

/// All reads of `plan` against the current state. First disagreement wins (fixed order:
/// catalog, membership, snapshot, then the patterns in plan order).
pub fn check_state(u: &Universe, sut: &Sut, m: &Model, plan: &Plan, obs: &mut Obs) -> Result<(), Failure> {
    let ids = Ids::resolve(&sut.db, u).map_err(|e| Failure { kind: "dictionary_does_not_round_trip", api: "decode_any", shape: "", scope: "", diff: "decode_differs".into(), detail: json!({ "what": e }) })?;
    obs.max_quads = obs.max_quads.max(m.quads.len() as u64);
    obs.max_named = obs.max_named.max(m.named.len() as u64);
    let vis_sets = plan.visible.iter().map(|v| v.iter().map(|g| ids.g[*g as usize]).collect()).collect();
    let merged_ids = plan.merged.iter().map(|v| v.iter().map(|g| ids.g[*g as usize]).collect()).collect();
    let mut c = Chk { vis_sets, merged_ids, u, sut, ids, m, obs };
    if plan.global {
        c.catalog()?;
        let mut triples: BTreeSet<(u8, u8, u8)> = BTreeSet::new();
        for p in &plan.patterns {
            if let (Some(s), Some(pp), Some(o)) = *p {
                triples.insert((s, pp, o));
            }
        }
        c.membership(&triples)?;
        c.snapshot()?;
    }
    for (i, p) in plan.patterns.iter().enumerate() {
        c.pattern(i, p, plan)?;
    }
    Ok(())
}

/// interleavings of interest, observed on the abstract state around an operation
pub fn observe_transition(before: &Model, op: Op, after: &Model, ret: Option<bool>, ever_dropped: &BTreeSet<u8>, obs: &mut Obs) {
    let e = obs.ops.entry(op.api()).or_insert([0; 3]);
    e[0] += 1;
    match ret {
        Some(true) => e[1] += 1,
        Some(false) => e[2] += 1,
        None => {}
    }
    let count = |m: &Model, g: u8| m.quads.iter().filter(|q| q.3 == g).count();
    match op {
        Op::Delete(q, _) => {
            if ret == Some(true) && count(after, q.3) == 0 {
                obs.t(if q.3 == 0 { "delete_of_the_last_quad_of_the_default_graph" } else { "delete_of_the_last_quad_of_a_named_graph" });
            }
            if ret == Some(false) {
                if q.3 != 0 && !before.named.contains(&q.3) {
                    obs.t("delete_from_a_graph_that_does_not_exist");
                } else if before.quads.iter().any(|x| (x.0, x.1, x.2) == (q.0, q.1, q.2)) {
                    obs.t("delete_of_a_triple_that_is_only_in_other_graphs");
                }
            }
            if ret == Some(true) && after.quads.iter().any(|x| (x.0, x.1, x.2) == (q.0, q.1, q.2)) {
                obs.t("delete_of_a_triple_that_stays_in_another_graph");
            }
        }
        Op::Insert(q, _) => {
            let new = !before.quads.contains(&q);
            if new && q.3 != 0 && before.named.contains(&q.3) && count(before, q.3) == 0 {
                obs.t("insert_into_an_existing_empty_named_graph");
            }
            if new && q.3 != 0 && !before.named.contains(&q.3) {
                obs.t(if ever_dropped.contains(&q.3) { "insert_recreates_a_dropped_graph" } else { "insert_creates_a_graph" });
            }
            if new && before.quads.iter().any(|x| (x.0, x.1, x.2) == (q.0, q.1, q.2)) {
                obs.t("insert_of_a_triple_already_in_another_graph");
            }
            if !new {
                obs.t("insert_of_a_quad_already_present");
            }
        }
        Op::Create(g) => {
            if g != 0 {
                obs.t(if before.named.contains(&g) { "create_of_an_existing_graph" } else if ever_dropped.contains(&g) { "create_of_a_dropped_graph" } else { "create_of_a_new_graph" });
            } else {
                obs.t("create_of_the_default_graph");
            }
        }
        Op::ClearG(g) => {
            if g != 0 && !before.named.contains(&g) {
                obs.t("clear_of_a_graph_that_does_not_exist");
            } else if count(before, g) == 0 {
                obs.t("clear_of_an_empty_graph");
            } else {
                obs.t(if g == 0 { "clear_of_the_nonempty_default_graph" } else { "clear_of_a_nonempty_named_graph" });
            }
        }
        Op::DropG(g) => {
            if g == 0 {
                obs.t(if count(before, 0) > 0 { "drop_of_the_nonempty_default_graph" } else { "drop_of_the_empty_default_graph" });
            } else if !before.named.contains(&g) {
                obs.t("drop_of_a_graph_that_does_not_exist");
            } else {
                obs.t(if count(before, g) > 0 { "drop_of_a_nonempty_named_graph" } else { "drop_of_an_empty_named_graph" });
            }
        }
        Op::Rebuild => {
            if before.named.iter().any(|g| count(before, *g) == 0) {
                obs.t("rebuild_with_an_empty_named_graph");
            }
            if before.quads.iter().any(|q| q.3 != 0) {
                obs.t("rebuild_with_quads_in_named_graphs");
            }
            if before.quads.is_empty() && before.named.is_empty() {
                obs.t("rebuild_of_an_empty_store");
            }
        }
        Op::ClearAll => {
            if !before.named.is_empty() {
                obs.t("clear_with_named_graphs");
            }
        }
        Op::CloneDb => {}
    }
}
