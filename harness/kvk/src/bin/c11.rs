//! C11 — Multi-window results are joins of what each window itself reported.
//!
//! Events: every binding row handed to the `ResultConsumer` of an `RSPEngine` built through
//! `RSPBuilder` from an RSP-QL text with 1-3 `WINDOW` blocks (+ optional static patterns /
//! static N-Triples), stamped at emission time with the number of contents every window had
//! reported so far. The contents a window reported are observed by a *probe*: a
//! `WindowRunner` with the very parameters of the engine window, fed the same (item, ts)
//! sequence immediately BEFORE the engine gets the item, so that at any emission the probe
//! has reported at least what the engine window has.
//!
//! Oracle (BGP case of M-SPARQL, the only fragment WINDOW blocks / static patterns have):
//! a row mu restricted to the variables of block B is an answer of B over a dataset D iff
//! dom(mu) = vars(B) and mu(B) (the ground instances of B's patterns) is a subset of D.
//! So for every emitted row and every window w: mu(B_w) must be contained in ONE content
//! that probe w reported before the emission; mu(static patterns) must be contained in the
//! static N-Triples. All data is lexical (the strings fed / returned), no dictionary ids.
//!
//! When a restriction fails the cause is established by looking where the ground triples
//! mu(B_w) do exist: only in another stream, only in the static data, in different contents
//! of the same window, nowhere (then: is there an own answer that differs from the row only
//! on variables shared with another block = join overwrote a shared variable).
//!
//! Multi-thread mode runs under the schedule hooks of `kolibrie::verif_hooks`: events are
//! counted per site (logical quiescence: every sent content processed; coordinator thread
//! finished = the consumer closure was dropped), seeded sleeps/yields perturb the schedule
//! and the (site, thread) log gives the number of distinct hook-event orders seen.

use kolibrie::rsp::s2r::{ContentContainer, ReportStrategy, Tick};
use kolibrie::rsp::window_runner::{WindowRunner, WindowSpec};
use kolibrie::rsp_engine::{OperationMode, QueryExecutionMode, RSPBuilder, RSPEngine, ResultConsumer, SimpleR2R};
use kolibrie::verif_hooks;
use kvcore::rng::mix;
use kvcore::{guard, hash_str, json, panic_site, Ctx, Rng, Spec, Value};
use shared::query::{Fallback, SyncPolicy};
use shared::triple::Triple;
use std::collections::{BTreeMap, BTreeSet, HashMap, HashSet};
use std::sync::atomic::{AtomicU64, AtomicUsize, Ordering};
use std::sync::{Arc, Mutex};
use std::time::{Duration, Instant};

const RULE: &str = "one case = one RSP-QL continuous query (1-3 windows, normally on different streams, now and then two windows on one stream or a window ON ?variable-stream; each WINDOW block a BGP of 1-3 patterns, blocks optionally joined on a shared variable; optional static patterns + static N-Triples; vocabulary shared between streams and static data, subjects specific to their stream) x window parameters x in-order streams (independent or global clock, random/burst interleaving) x policy (Wait, Steal, Timeout+steal, Timeout+drop; via builder or WITH POLICY) x mode (single-thread; multi-thread under schedule hooks, repeated with different seeded perturbations) x RSTREAM/ISTREAM/DSTREAM. Non-trivial = at least one emitted row had every block restriction checked against the probe contents AND a leak would have been observable (some block has an answer over items that were only sent to another stream, or over the static data, or the static patterns have an answer over stream items); distinct by hash of the whole case.";

const RDF_TYPE: &str = "http://www.w3.org/1999/02/22-rdf-syntax-ns#type";
const LOC: &str = "http://k/loc";

// ---------------------------------------------------------------------------------------
// lexical model

type LT = (String, String, String);
type Row = BTreeMap<String, String>;

#[derive(Clone, Debug, PartialEq, Eq, PartialOrd, Ord)]
enum T {
    V(String),
    C(String),
}
type TP = (T, T, T);

fn v(s: &str) -> T {
    T::V(s.to_string())
}
fn c(s: &str) -> T {
    T::C(s.to_string())
}

fn pat_vars(p: &[TP]) -> BTreeSet<String> {
    let mut out = BTreeSet::new();
    for (a, b, cc) in p {
        for t in [a, b, cc] {
            if let T::V(x) = t {
                out.insert(x.clone());
            }
        }
    }
    out
}

fn bind(t: &T, val: &str, cur: &mut Row, added: &mut Vec<String>) -> bool {
    match t {
        T::C(k) => k == val,
        T::V(x) => match cur.get(x) {
            Some(b) => b == val,
            None => {
                cur.insert(x.clone(), val.to_string());
                added.push(x.clone());
                true
            }
        },
    }
}

/// All solutions of a basic graph pattern over a set of triples (nested loops, set semantics).
fn bgp(pats: &[TP], data: &BTreeSet<LT>) -> BTreeSet<Row> {
    fn rec(pats: &[TP], i: usize, data: &BTreeSet<LT>, cur: &mut Row, out: &mut BTreeSet<Row>) {
        if i == pats.len() {
            out.insert(cur.clone());
            return;
        }
        let (ps, pp, po) = &pats[i];
        for (s, p, o) in data {
            let mut added = vec![];
            if bind(ps, s, cur, &mut added) && bind(pp, p, cur, &mut added) && bind(po, o, cur, &mut added) {
                rec(pats, i + 1, data, cur, out);
            }
            for a in added {
                cur.remove(&a);
            }
        }
    }
    let mut out = BTreeSet::new();
    if pats.is_empty() {
        return out;
    }
    rec(pats, 0, data, &mut Row::new(), &mut out);
    out
}

/// mu(P): the ground triples of the patterns under the row; None when a variable is unbound.
fn instantiate(pats: &[TP], row: &Row) -> Option<Vec<LT>> {
    let g = |t: &T| -> Option<String> {
        match t {
            T::C(k) => Some(k.clone()),
            T::V(x) => row.get(x).cloned(),
        }
    };
    let mut out = vec![];
    for (a, b, cc) in pats {
        out.push((g(a)?, g(b)?, g(cc)?));
    }
    Some(out)
}

// ---------------------------------------------------------------------------------------
// cases

#[derive(Clone, Copy, Debug, PartialEq, Eq)]
enum Policy {
    Wait,
    Steal,
    TimeoutSteal,
    TimeoutDrop,
}
impl Policy {
    fn name(self) -> &'static str {
        match self {
            Policy::Wait => "wait",
            Policy::Steal => "steal",
            Policy::TimeoutSteal => "timeout_steal",
            Policy::TimeoutDrop => "timeout_drop",
        }
    }
}

#[derive(Clone, Copy, Debug, PartialEq, Eq)]
enum Mode {
    Single,
    Multi,
}
impl Mode {
    fn name(self) -> &'static str {
        match self {
            Mode::Single => "single_thread",
            Mode::Multi => "multi_thread",
        }
    }
}

#[derive(Clone, Debug)]
struct Win {
    stream: usize,
    /// declared `ON ?anystream`: the window receives the items of every stream
    any_stream: bool,
    width: usize,
    slide: usize,
    non_empty: bool,
    /// 0 = `:stN`, 1 = `<http://k/stN>`
    iri_style: u8,
    block: Vec<TP>,
}

#[derive(Clone, Debug)]
struct Case {
    wins: Vec<Win>,
    static_pats: Vec<TP>,
    static_data: Vec<LT>,
    static_first: bool,
    policy: Policy,
    policy_in_query: bool,
    timeout_ms: u64,
    mode: Mode,
    stream_op: u8,
    volcano: bool,
    shared_vocab: bool,
    lockstep: bool,
    /// how the streams are called: 0 = unrelated names, 1 = names that are suffixes / prefixes
    /// of one another, 2 = names that differ in letter case only
    naming: u8,
    /// the query declares PREFIX k: <http://k/> and spells its vocabulary IRIs as prefixed names
    prefixed: bool,
    /// (stream, triple, timestamp) in feeding order; per stream the timestamps never decrease
    feed: Vec<(usize, LT, usize)>,
}

thread_local! {
    static NAMING: std::cell::Cell<u8> = const { std::cell::Cell::new(0) };
    static PREFIXED: std::cell::Cell<bool> = const { std::cell::Cell::new(false) };
}
/// the stream names of the case being handled (set by every function that takes the case)
fn use_naming(cs: &Case) {
    NAMING.with(|n| n.set(cs.naming));
    PREFIXED.with(|p| p.set(cs.prefixed));
}
fn stream_name(i: usize) -> String {
    match NAMING.with(|n| n.get()) {
        // every name is a proper suffix or prefix of another one
        1 => ["r", "sr", "r1", "xsr", "sr1", "r12"].get(i).map(|s| s.to_string()).unwrap_or_else(|| format!("r{}x", i)),
        2 => ["s", "S", "sS", "Ss", "SS", "ss"].get(i).map(|s| s.to_string()).unwrap_or_else(|| format!("S{}s", i)),
        _ => format!("st{}", i),
    }
}
impl Win {
    fn listens(&self, s: usize) -> bool {
        self.any_stream || self.stream == s
    }
    fn owns(&self, sent: Option<&BTreeSet<usize>>) -> bool {
        match sent {
            None => false,
            Some(ss) => {
                if self.any_stream {
                    !ss.is_empty()
                } else {
                    ss.contains(&self.stream)
                }
            }
        }
    }
}
fn stream_in_query(w: &Win) -> String {
    if w.any_stream {
        "?anystream".to_string()
    } else if w.iri_style == 0 {
        format!(":{}", stream_name(w.stream))
    } else {
        format!("<http://k/{}>", stream_name(w.stream))
    }
}
fn stream_for_feed(w: &Win, variant: u64) -> String {
    if w.iri_style == 0 {
        if variant % 2 == 0 {
            stream_name(w.stream)
        } else {
            format!(":{}", stream_name(w.stream))
        }
    } else if variant % 2 == 0 {
        format!("http://k/{}", stream_name(w.stream))
    } else {
        format!("<http://k/{}>", stream_name(w.stream))
    }
}

fn term_text(t: &T) -> String {
    match t {
        T::V(x) => format!("?{}", x),
        T::C(k) => {
            // under a PREFIX k: declaration vocabulary IRIs are written as prefixed names
            if PREFIXED.with(|p| p.get()) {
                if let Some(local) = k.strip_prefix("http://k/") {
                    if !local.is_empty() && local.chars().all(|ch| ch.is_ascii_alphanumeric() || ch == '_') {
                        return format!("k:{}", local);
                    }
                }
            }
            format!("<{}>", k)
        }
    }
}
fn pats_text(p: &[TP]) -> String {
    p.iter().map(|(a, b, cc)| format!("{} {} {} .", term_text(a), term_text(b), term_text(cc))).collect::<Vec<_>>().join(" ")
}

fn query_text(cs: &Case) -> String {
    use_naming(cs);
    let mut q = String::new();
    let op = ["RSTREAM", "ISTREAM", "DSTREAM"][cs.stream_op as usize % 3];
    if cs.prefixed {
        q.push_str("PREFIX k: <http://k/>\n");
    }
    q.push_str(&format!("REGISTER {} <http://out/stream> AS\nSELECT *\n", op));
    for (i, w) in cs.wins.iter().enumerate() {
        let mut spec = format!("RANGE {} STEP {}", w.width, w.slide);
        if w.non_empty {
            spec.push_str(" REPORT NON_EMPTY_CONTENT");
        }
        let pol = if cs.policy_in_query && i == 0 {
            match cs.policy {
                Policy::Wait => " WITH POLICY wait".to_string(),
                Policy::Steal => " WITH POLICY steal".to_string(),
                Policy::TimeoutSteal => format!(" WITH POLICY (timeout={}ms, fallback=steal)", cs.timeout_ms),
                Policy::TimeoutDrop => format!(" WITH POLICY (timeout={}ms, fallback=drop)", cs.timeout_ms),
            }
        } else {
            String::new()
        };
        q.push_str(&format!("FROM NAMED WINDOW :w{} ON {} [{}]{}\n", i, stream_in_query(w), spec, pol));
    }
    q.push_str("WHERE {\n");
    if cs.static_first && !cs.static_pats.is_empty() {
        q.push_str(&format!("  {}\n", pats_text(&cs.static_pats)));
    }
    for (i, w) in cs.wins.iter().enumerate() {
        q.push_str(&format!("  WINDOW :w{} {{ {} }}\n", i, pats_text(&w.block)));
    }
    if !cs.static_first && !cs.static_pats.is_empty() {
        q.push_str(&format!("  {}\n", pats_text(&cs.static_pats)));
    }
    q.push_str("}\n");
    q
}

fn nt_line(t: &LT) -> String {
    format!("<{}> <{}> <{}> .", t.0, t.1, t.2)
}

fn case_json(cs: &Case) -> Value {
    use_naming(cs);
    json!({
        "query": query_text(cs),
        "mode": cs.mode.name(),
        "policy": cs.policy.name(),
        "policy_given_in": if cs.policy_in_query { "query" } else { "builder" },
        "timeout_ms": cs.timeout_ms,
        "execution_mode": if cs.volcano { "Volcano" } else { "Standard" },
        "lockstep_feeding": cs.lockstep,
        "static_ntriples": cs.static_data.iter().map(nt_line).collect::<Vec<_>>(),
        "feed": cs.feed.iter().map(|(s, t, ts)| format!("{} @{}: {}", stream_name(*s), ts, nt_line(t))).collect::<Vec<_>>(),
    })
}

struct Vocab {
    shared: bool,
    /// half of the subjects occur in every stream (used when blocks share two variables, so
    /// that rows agreeing on one shared variable and disagreeing on the other exist)
    common: bool,
}
impl Vocab {
    fn subj(&self, stream: usize, j: usize) -> String {
        format!("http://k/{}{}", ["a", "b", "c", "d"][stream % 4], j)
    }
    fn stat(&self, j: usize) -> String {
        format!("http://k/s{}", j)
    }
    fn pred(&self, stream: usize, k: usize) -> String {
        if self.shared {
            format!("http://k/p{}", k)
        } else {
            format!("http://k/p{}_{}", stream, k)
        }
    }
    fn class(&self, stream: usize, k: usize) -> String {
        if self.shared {
            format!("http://k/C{}", k)
        } else {
            format!("http://k/C{}_{}", stream, k)
        }
    }
    fn val(&self, k: usize) -> String {
        format!("http://k/v{}", k)
    }
}

#[derive(Clone, Copy, PartialEq, Eq)]
enum Size {
    Tiny,
    Normal,
}

fn gen_block(r: &mut Rng, vo: &Vocab, w: usize, stream: usize, size: Size, join_var: bool, join2: bool, n_pred: usize, n_val: usize, n_subj: usize) -> Vec<TP> {
    let x = format!("x{}", w);
    let y = format!("y{}", w);
    let z = format!("z{}", w);
    let n = if size == Size::Tiny { 1 } else { 1 + r.weighted(&[45, 40, 15]) };
    let mut pats: Vec<TP> = vec![];
    let mut used_join = false;
    for i in 0..n {
        let subj = if i == 0 {
            if r.chance(1, 20) {
                c(&vo.subj(stream, r.below(n_subj)))
            } else {
                v(&x)
            }
        } else {
            match r.weighted(&[70, 22, 8]) {
                0 => v(&x),
                1 => v(&y),
                _ => v(&format!("u{}", w)),
            }
        };
        let k = r.below(n_pred);
        let want_join = join_var && !used_join && (i + 1 == n || r.coin());
        let p: TP = if want_join {
            used_join = true;
            // join2: the blocks share BOTH the subject ?k and the object ?j of this pattern
            (if join2 { v("k") } else { subj }, c(&vo.pred(stream, k)), v("j"))
        } else {
            match r.weighted(&[35, 22, 10, 18, 6, 9]) {
                0 => (subj, c(&vo.pred(stream, k)), v(if i == 0 { &y } else { &z })),
                1 => (subj, c(RDF_TYPE), c(&vo.class(stream, r.below(2)))),
                2 => (subj, c(RDF_TYPE), v(&format!("c{}", w))),
                3 => (subj, c(&vo.pred(stream, k)), c(&vo.val(r.below(n_val)))),
                4 => (subj, v(&format!("q{}", w)), v(if i == 0 { &y } else { &z })),
                _ => (subj, c(&vo.pred(stream, k)), v(&y)),
            }
        };
        if !pats.contains(&p) {
            pats.push(p);
        }
    }
    pats
}

/// a triple that matches pattern `p` for stream `stream` (variables filled from the vocabulary)
fn item_for_pattern(r: &mut Rng, vo: &Vocab, p: &TP, stream: usize, n_subj: usize, n_pred: usize, n_val: usize, n_stat: usize) -> LT {
    let s = match &p.0 {
        T::C(k) if k.starts_with(&vo.subj(stream, 0)[..vo.subj(stream, 0).len() - 1]) => k.clone(),
        // now and then a subject that occurs in every stream (the same triple may reach several streams)
        _ if r.chance(1, if vo.common { 2 } else { 14 }) => format!("http://k/z{}", r.below(2)),
        _ => vo.subj(stream, r.below(n_subj)),
    };
    let pr = match &p.1 {
        T::C(k) => k.clone(),
        T::V(_) => {
            if r.chance(1, 3) {
                RDF_TYPE.to_string()
            } else {
                vo.pred(stream, r.below(n_pred))
            }
        }
    };
    let o = match &p.2 {
        T::C(k) => k.clone(),
        T::V(_) => {
            if pr == RDF_TYPE {
                vo.class(stream, r.below(2))
            } else {
                match r.weighted(&[60, 25, 15]) {
                    0 => vo.val(r.below(n_val)),
                    1 => vo.subj(stream, r.below(n_subj)),
                    _ => vo.stat(r.below(n_stat.max(1))),
                }
            }
        }
    };
    (s, pr, o)
}

fn gen_case(r: &mut Rng, size: Size, thorough: bool) -> Case {
    let shared_vocab = !r.chance(1, 6);
    let join_var = r.chance(2, 5);
    let join2 = join_var && r.chance(1, 3);
    let vo = Vocab { shared: shared_vocab, common: join2 };
    let tiny = size == Size::Tiny;
    let with_static = if tiny { r.chance(1, 3) } else { r.chance(1, 2) };
    let n_wins = if tiny {
        2
    } else if with_static && r.chance(1, 10) {
        1
    } else {
        2 + r.weighted(&[65, 35])
    };
    let n_pred = if tiny { 1 } else { r.range(1, 3) };
    let n_val = if tiny { 2 } else { r.range(2, 4) };
    let n_subj = if tiny { 2 } else { r.range(2, 6) };
    let n_stat = if tiny { 2 } else { r.range(2, 4) };
    let same_stream = !tiny && n_wins >= 2 && r.chance(1, 12);

    let mut wins = vec![];
    for w in 0..n_wins {
        let stream = if same_stream { w.saturating_sub(1) } else { w };
        let width = if tiny { r.range(1, 3) } else { r.range(1, 8) };
        let slide = if r.chance(1, 10) { width + 1 } else { r.range(1, width) };
        let block = gen_block(r, &vo, w, stream, size, join_var, join2, n_pred, n_val, n_subj);
        let any_stream = !tiny && w >= 1 && !same_stream && r.chance(1, 14);
        wins.push(Win { stream, any_stream, width, slide, non_empty: r.chance(1, 6), iri_style: if r.chance(1, 4) { 1 } else { 0 }, block });
    }
    // the spelling of a stream IRI belongs to the stream: windows on one stream use the same one
    for w in 1..wins.len() {
        if let Some(first) = (0..w).find(|&u| wins[u].stream == wins[w].stream) {
            wins[w].iri_style = wins[first].iri_style;
        }
    }
    let n_streams = wins.iter().map(|w| w.stream).max().unwrap() + 1;

    // static part: patterns over the same vocabulary, data with static-specific subjects
    let mut static_pats: Vec<TP> = vec![];
    let mut static_data: BTreeSet<LT> = BTreeSet::new();
    if with_static {
        let sv = Vocab { shared: true, common: join2 };
        let svo = if shared_vocab { &vo } else { &sv };
        let w0 = r.below(n_wins);
        let xw = match &wins[w0].block[0].0 {
            T::V(x) => x.clone(),
            _ => format!("x{}", w0),
        };
        let n_sp = if tiny { 1 } else { r.range(1, 2) };
        for i in 0..n_sp {
            let k = r.below(n_pred);
            let p: TP = match (i, r.weighted(&[40, 25, 20, 15])) {
                (0, 0) => (v(&xw), c(LOC), v("r")),
                (0, 1) => (v("sx"), c(&svo.pred(0, k)), if join_var { v("j") } else { v("sy") }),
                (0, 2) => (v("sx"), c(RDF_TYPE), c(&svo.class(0, r.below(2)))),
                (0, _) => (v("sx"), c(&svo.pred(0, k)), v("sy")),
                (_, 0) | (_, 1) => {
                    let first_obj = match &static_pats[0].2 {
                        T::V(o) => o.clone(),
                        _ => "sx".to_string(),
                    };
                    (v(&first_obj), c(&svo.pred(0, k)), v("sz"))
                }
                _ => (v("sx"), c(&svo.pred(0, k)), v("sz")),
            };
            if !static_pats.contains(&p) {
                static_pats.push(p);
            }
        }
        let n_sd = if tiny { r.range(1, 3) } else { r.range(2, 10) };
        for _ in 0..n_sd {
            let t: LT = match r.weighted(&[30, 30, 20, 20]) {
                // static entity described with the vocabulary of the streams
                0 => (vo.stat(r.below(n_stat)), svo.pred(0, r.below(n_pred)), vo.val(r.below(n_val))),
                1 => (vo.stat(r.below(n_stat)), RDF_TYPE.to_string(), svo.class(0, r.below(2))),
                // location of a stream subject
                2 => {
                    let st = r.below(n_streams);
                    (vo.subj(st, r.below(n_subj)), LOC.to_string(), vo.stat(r.below(n_stat)))
                }
                _ => {
                    // something matching a window block pattern, with a static subject
                    let w = r.below(n_wins);
                    let p = r.pick(&wins[w].block).clone();
                    let mut t = item_for_pattern(r, &vo, &p, wins[w].stream, n_subj, n_pred, n_val, n_stat);
                    t.0 = vo.stat(r.below(n_stat));
                    t
                }
            };
            static_data.insert(t);
        }
        // make the static patterns satisfiable most of the time
        for p in static_pats.clone() {
            if r.chance(3, 4) {
                let mut t = item_for_pattern(r, svo, &p, 0, n_subj, n_pred, n_val, n_stat);
                if p.1 == c(LOC) {
                    let st = wins[w0].stream;
                    t = (vo.subj(st, r.below(n_subj)), LOC.to_string(), vo.stat(r.below(n_stat)));
                } else {
                    t.0 = vo.stat(r.below(n_stat));
                }
                static_data.insert(t);
            }
        }
    }

    let mode = if r.chance(1, 2) { Mode::Multi } else { Mode::Single };
    let policy = match r.weighted(&[42, 42, 8, 8]) {
        0 => Policy::Wait,
        1 => Policy::Steal,
        2 => Policy::TimeoutSteal,
        _ => Policy::TimeoutDrop,
    };

    // streams
    let max_items = if tiny {
        5
    } else if thorough {
        80
    } else {
        40
    };
    let min_items = if tiny { 2 } else { 6 };
    let global_clock = r.chance(1, 2);
    let mut per_stream: Vec<Vec<(LT, usize)>> = vec![];
    let all_pats: Vec<(usize, TP)> = wins.iter().flat_map(|w| w.block.iter().map(move |p| (w.stream, p.clone()))).collect();
    for s in 0..n_streams {
        let n = r.range(min_items, max_items);
        let widths: Vec<usize> = wins.iter().filter(|w| w.listens(s)).map(|w| w.width).collect();
        let wmax = widths.iter().copied().max().unwrap_or(3);
        let mut t = r.range(0, 2);
        let mut items = vec![];
        for _ in 0..n {
            let gap = match r.weighted(&[18, 50, 17, 8, 7]) {
                0 => 0,
                1 => 1,
                2 => 2,
                3 => 3,
                _ => wmax + r.range(0, 2),
            };
            t += gap;
            let lt = if r.chance(3, 4) {
                // matches a pattern of some window (any stream's block when the vocabulary is shared)
                let cands: Vec<&(usize, TP)> = all_pats.iter().filter(|(ps, _)| shared_vocab || *ps == s).collect();
                let (ps, p) = (*r.pick(&cands)).clone();
                let _ = ps;
                let pp = if shared_vocab { p } else { p };
                item_for_pattern(r, &vo, &pp, s, n_subj, n_pred, n_val, n_stat)
            } else if r.chance(1, 4) && !static_pats.is_empty() {
                // a stream item that matches a static pattern (stream-specific subject)
                let p = r.pick(&static_pats).clone();
                let sv = Vocab { shared: true, common: join2 };
                let mut it = item_for_pattern(r, if shared_vocab { &vo } else { &sv }, &p, s, n_subj, n_pred, n_val, n_stat);
                it.0 = vo.subj(s, r.below(n_subj));
                it
            } else {
                let pr = if r.chance(1, 4) { RDF_TYPE.to_string() } else { vo.pred(s, r.below(n_pred)) };
                let o = if pr == RDF_TYPE { vo.class(s, r.below(2)) } else { vo.val(r.below(n_val)) };
                (vo.subj(s, r.below(n_subj)), pr, o)
            };
            items.push((lt, t));
        }
        per_stream.push(items);
    }
    // interleave
    let mut feed: Vec<(usize, LT, usize)> = vec![];
    let burst = r.chance(1, 7);
    let mut idx = vec![0usize; n_streams];
    let mut clock = r.range(0, 2);
    loop {
        let remaining: Vec<usize> = (0..n_streams).map(|s| per_stream[s].len() - idx[s]).collect();
        if remaining.iter().all(|&x| x == 0) {
            break;
        }
        let s = if burst { (0..n_streams).find(|&s| remaining[s] > 0).unwrap() } else { r.weighted(&remaining) };
        let (lt, ts) = per_stream[s][idx[s]].clone();
        idx[s] += 1;
        let ts = if global_clock {
            clock += r.weighted(&[30, 50, 12, 8]);
            clock
        } else {
            ts
        };
        feed.push((s, lt, ts));
    }

    let mut cs = Case {
        wins,
        static_pats,
        static_data: static_data.into_iter().collect(),
        static_first: r.coin(),
        policy,
        policy_in_query: r.chance(1, 3),
        timeout_ms: *r.pick(&[1u64, 3, 10, 40]),
        mode,
        stream_op: r.weighted(&[70, 18, 12]) as u8,
        volcano: !r.chance(1, 4),
        shared_vocab,
        lockstep: r.chance(1, 3),
        naming: if r.chance(2, 5) { r.range(1, 2) as u8 } else { 0 },
        prefixed: r.chance(2, 5),
        feed,
    };
    limit_size(&mut cs, if thorough { 400_000 } else { 120_000 });
    cs
}

/// Upper estimate of the number of rows the engine will have to produce (it re-joins the
/// accumulated per-window results at every emission); used only to keep cases affordable.
fn estimate_rows(cs: &Case) -> f64 {
    let all: BTreeSet<LT> = cs.feed.iter().map(|f| f.1.clone()).collect();
    let mut prod = 1f64;
    let mut firings_total = 0f64;
    for w in &cs.wins {
        let r_w = bgp(&w.block, &all).len().max(1) as f64;
        let n_w = cs.feed.iter().filter(|f| w.listens(f.0)).count() as f64;
        firings_total += n_w;
        let acc = match (cs.mode, cs.policy) {
            (Mode::Single, Policy::Steal) => n_w,
            (Mode::Single, _) => (n_w / 3.0).max(1.0),
            _ => 1.0,
        };
        prod *= r_w * acc;
    }
    if !cs.static_pats.is_empty() {
        let sd: BTreeSet<LT> = cs.static_data.iter().cloned().collect();
        prod *= bgp(&cs.static_pats, &sd).len().max(1) as f64;
    }
    prod * firings_total.max(1.0)
}

fn limit_size(cs: &mut Case, cap: usize) {
    let mut guard_n = 0;
    while estimate_rows(cs) > cap as f64 && cs.feed.len() > 6 && guard_n < 40 {
        let keep = cs.feed.len() * 3 / 4;
        cs.feed.truncate(keep);
        guard_n += 1;
    }
}

// ---------------------------------------------------------------------------------------
// running the engine

const SITES: [&str; 5] = ["s2r.content_sent", "worker.before_process", "worker.after_process", "coordinator.received", "coordinator.drained"];

struct Sched {
    n: [AtomicU64; 5],
    log: Mutex<Vec<(u8, u64)>>,
    seed: u64,
    /// 0 = no perturbation, 1 = light, 2 = heavy, 3 = one slow thread class
    style: u8,
}

fn thread_hash() -> u64 {
    hash_str(&format!("{:?}", std::thread::current().id()))
}

fn make_hook(st: Arc<Sched>) -> Arc<dyn Fn(&'static str) + Send + Sync> {
    Arc::new(move |site: &'static str| {
        let i = SITES.iter().position(|s| *s == site).unwrap_or(0);
        let cnt = st.n[i].fetch_add(1, Ordering::SeqCst);
        let th = thread_hash();
        st.log.lock().unwrap().push((i as u8, th));
        if st.style == 0 {
            return;
        }
        let h = mix(st.seed ^ ((i as u64) << 40) ^ cnt.wrapping_mul(0x9E37_79B9));
        let slow_site = (mix(st.seed) % 5) as usize;
        let (p_sleep, max_us) = match st.style {
            1 => (15, 600),
            2 => (45, 2000),
            _ => {
                if i == slow_site {
                    (90, 2000)
                } else {
                    (5, 300)
                }
            }
        };
        let x = h % 100;
        if x < p_sleep {
            std::thread::sleep(Duration::from_micros((h >> 8) % max_us));
        } else if x < p_sleep + 25 {
            std::thread::yield_now();
        }
    })
}

#[derive(Default)]
struct Sink {
    /// distinct rows with the per-window report counts at their first emission
    rows: HashMap<Vec<(String, String)>, Vec<usize>>,
    order: Vec<Vec<(String, String)>>,
    calls: u64,
}

struct RunOut {
    /// distinct rows in order of first emission, with the counts of contents every probe had reported
    rows: Vec<(Row, Vec<usize>)>,
    consumer_calls: u64,
    /// per window: the contents its probe reported, in order
    contents: Vec<Vec<BTreeSet<LT>>>,
    hook_counts: [u64; 5],
    event_order_hash: u64,
    threads_seen: usize,
    flush_reports: u64,
    error: Option<RunErr>,
}

enum RunErr {
    Build(String),
    Panic { api: &'static str, msg: String },
    Watchdog(String),
    Monitor(String),
    WorkerDied { before: u64, after: u64 },
}

const WATCHDOG: Duration = Duration::from_secs(120);

fn wait_until(mut cond: impl FnMut() -> bool) -> bool {
    let start = Instant::now();
    let mut spins = 0u32;
    while !cond() {
        if start.elapsed() > WATCHDOG {
            return false;
        }
        spins += 1;
        if spins < 50 {
            std::thread::yield_now();
        } else {
            std::thread::sleep(Duration::from_micros(200));
        }
    }
    true
}

fn run_engine(cs: &Case, sched_seed: u64, style: u8) -> RunOut {
    use_naming(cs);
    let nw = cs.wins.len();
    let mut out = RunOut { rows: vec![], consumer_calls: 0, contents: vec![vec![]; nw], hook_counts: [0; 5], event_order_hash: 0, threads_seen: 0, flush_reports: 0, error: None };
    let counts: Arc<Vec<AtomicUsize>> = Arc::new((0..nw).map(|_| AtomicUsize::new(0)).collect());
    let sink: Arc<Mutex<Sink>> = Arc::new(Mutex::new(Sink::default()));
    // the consumer closure owns a clone of `token`; when the engine and its coordinator thread
    // are gone the closure is dropped and the strong count returns to 1
    let token: Arc<()> = Arc::new(());
    let consumer = {
        let sink = sink.clone();
        let counts = counts.clone();
        let token = token.clone();
        ResultConsumer {
            function: Arc::new(move |r: Vec<(String, String)>| {
                let _keep = &token;
                let snap: Vec<usize> = counts.iter().map(|c| c.load(Ordering::SeqCst)).collect();
                let mut s = sink.lock().unwrap();
                s.calls += 1;
                if !s.rows.contains_key(&r) {
                    s.order.push(r.clone());
                    s.rows.insert(r, snap);
                }
            }),
        }
    };
    let sched = Arc::new(Sched { n: Default::default(), log: Mutex::new(vec![]), seed: sched_seed, style });
    if cs.mode == Mode::Multi {
        verif_hooks::install(make_hook(sched.clone()));
    } else {
        verif_hooks::clear();
    }
    let query = query_text(cs);
    let policy = match cs.policy {
        Policy::Wait => SyncPolicy::Wait,
        Policy::Steal => SyncPolicy::Steal,
        Policy::TimeoutSteal => SyncPolicy::Timeout { duration: Duration::from_millis(cs.timeout_ms), fallback: Fallback::Steal },
        Policy::TimeoutDrop => SyncPolicy::Timeout { duration: Duration::from_millis(cs.timeout_ms), fallback: Fallback::Drop },
    };
    let exec = if cs.volcano { QueryExecutionMode::Volcano } else { QueryExecutionMode::Standard };
    let op_mode = if cs.mode == Mode::Multi { OperationMode::MultiThread } else { OperationMode::SingleThread };
    let built = guard(|| {
        let r2r = Box::new(SimpleR2R::with_execution_mode(exec));
        let mut b: RSPBuilder<Triple, Vec<(String, String)>> = RSPBuilder::new().add_rsp_ql_query(&query).add_consumer(consumer).add_r2r(r2r).set_operation_mode(op_mode).set_query_execution_mode(exec);
        if !cs.policy_in_query {
            b = b.set_sync_policy(policy.clone());
        }
        b.build()
    });
    let mut engine: RSPEngine<Triple, Vec<(String, String)>> = match built {
        Err(e) => {
            out.error = Some(RunErr::Panic { api: "RSPBuilder::build", msg: e });
            verif_hooks::clear();
            return out;
        }
        Ok(Err(e)) => {
            out.error = Some(RunErr::Build(e));
            verif_hooks::clear();
            return out;
        }
        Ok(Ok(e)) => e,
    };
    if !cs.static_data.is_empty() {
        // every other case loads the static data with two calls (the second one meets a
        // populated static store with cached statistics)
        let cut = if cs.static_data.len() >= 2 && cs.feed.len() % 2 == 1 { cs.static_data.len() / 2 } else { cs.static_data.len() };
        for part in [&cs.static_data[..cut], &cs.static_data[cut..]] {
            if part.is_empty() {
                continue;
            }
            let text: String = part.iter().map(|t| nt_line(t) + "\n").collect();
            if let Err(e) = guard(|| engine.add_static_ntriples(&text)) {
                out.error = Some(RunErr::Panic { api: "add_static_ntriples", msg: e });
            }
        }
    }

    // probes: same parameters as the engine windows, callback consumer (no hook events)
    let lex: Arc<Mutex<HashMap<Triple, LT>>> = Arc::new(Mutex::new(HashMap::new()));
    let probe_contents: Vec<Arc<Mutex<Vec<BTreeSet<LT>>>>> = (0..nw).map(|_| Arc::new(Mutex::new(vec![]))).collect();
    let mut probes: Vec<WindowRunner<Triple>> = vec![];
    for (i, w) in cs.wins.iter().enumerate() {
        let strat = if w.non_empty { ReportStrategy::NonEmptyContent } else { ReportStrategy::OnWindowClose };
        let spec = WindowSpec { width: w.width, slide: w.slide, report_strategies: vec![strat], tick: Tick::TimeDriven };
        let mut p: WindowRunner<Triple> = WindowRunner::new(spec, format!(":w{}", i));
        let pc = probe_contents[i].clone();
        let lex = lex.clone();
        let counts = counts.clone();
        p.register_callback(Box::new(move |content: ContentContainer<Triple>| {
            let l = lex.lock().unwrap();
            let set: BTreeSet<LT> = content.iter().filter_map(|t| l.get(t).cloned()).collect();
            // the content is recorded before the count is published
            pc.lock().unwrap().push(set);
            counts[i].fetch_add(1, Ordering::SeqCst);
        }));
        probes.push(p);
    }

    let total_reports = |counts: &Arc<Vec<AtomicUsize>>| -> u64 { counts.iter().map(|c| c.load(Ordering::SeqCst) as u64).sum() };

    if out.error.is_none() {
        for (step, (s, lt, ts)) in cs.feed.iter().enumerate() {
            let line = nt_line(lt);
            let parsed = guard(|| engine.parse_data(&line));
            let item = match parsed {
                Err(e) => {
                    out.error = Some(RunErr::Panic { api: "parse_data", msg: e });
                    break;
                }
                Ok(v) if v.len() != 1 => {
                    out.error = Some(RunErr::Monitor(format!("parse_data returned {} triples for one N-Triples line {}", v.len(), line)));
                    break;
                }
                Ok(mut v) => v.pop().unwrap(),
            };
            {
                let mut l = lex.lock().unwrap();
                if let Some(prev) = l.get(&item) {
                    if prev != lt {
                        out.error = Some(RunErr::Monitor(format!("two different lexical triples got the same encoded triple: {:?} / {:?}", prev, lt)));
                        break;
                    }
                }
                l.insert(item.clone(), lt.clone());
            }
            // probe first, engine second
            let mut name = String::new();
            for (i, w) in cs.wins.iter().enumerate() {
                if w.listens(*s) {
                    probes[i].add_to_window(item.clone(), *ts);
                }
                if w.stream == *s && !w.any_stream && name.is_empty() {
                    name = stream_for_feed(w, step as u64);
                }
            }
            if name.is_empty() {
                name = stream_name(*s);
            }
            if let Err(e) = guard(|| engine.add_to_stream(&name, item.clone(), *ts)) {
                out.error = Some(RunErr::Panic { api: "add_to_stream", msg: e });
                break;
            }
            if cs.mode == Mode::Multi && cs.lockstep {
                // logical quiescence of the workers: every content sent so far has been processed
                let want = total_reports(&counts);
                let ok = wait_until(|| sched.n[2].load(Ordering::SeqCst) >= want);
                if !ok {
                    out.error = Some(RunErr::Watchdog(format!("workers processed {} of {} sent contents", sched.n[2].load(Ordering::SeqCst), want)));
                    break;
                }
            }
        }
    }
    let before_flush = total_reports(&counts);
    if cs.mode == Mode::Multi && out.error.is_none() {
        let sent = sched.n[0].load(Ordering::SeqCst);
        if sent != before_flush {
            out.error = Some(RunErr::Monitor(format!("probe windows reported {} contents but the engine windows sent {}", before_flush, sent)));
        }
    }
    // end of stream: flush (reports the merged active windows), stop, drop
    for p in probes.iter_mut() {
        p.flush();
        p.stop();
    }
    let after_flush = total_reports(&counts);
    out.flush_reports = after_flush - before_flush;
    let stopped = guard(move || {
        engine.stop();
        drop(engine);
    });
    if let Err(e) = stopped {
        if out.error.is_none() {
            out.error = Some(RunErr::Panic { api: "stop", msg: e });
        }
    }
    if cs.mode == Mode::Multi {
        // the coordinator leaves its loop when every sender (engine + workers) is gone and the
        // channel is drained; then the consumer closure is dropped
        let ok = wait_until(|| Arc::strong_count(&token) == 1);
        if !ok && out.error.is_none() {
            out.error = Some(RunErr::Watchdog(format!("engine threads still hold the consumer after stop+drop; hook counts {:?}", sched.n.iter().map(|a| a.load(Ordering::SeqCst)).collect::<Vec<_>>())));
        }
        let before = sched.n[1].load(Ordering::SeqCst);
        let after = sched.n[2].load(Ordering::SeqCst);
        if out.error.is_none() && (before != after || after != after_flush) {
            if before != after {
                out.error = Some(RunErr::WorkerDied { before, after });
            } else {
                out.error = Some(RunErr::Monitor(format!("workers processed {} contents, probes reported {}", after, after_flush)));
            }
        }
    }
    verif_hooks::clear();
    for i in 0..5 {
        out.hook_counts[i] = sched.n[i].load(Ordering::SeqCst);
    }
    {
        let log = sched.log.lock().unwrap();
        let mut ids: HashMap<u64, u64> = HashMap::new();
        let mut h = 0xC0FFEEu64;
        for (site, th) in log.iter() {
            let n = ids.len() as u64;
            let t = *ids.entry(*th).or_insert(n);
            h = mix(h ^ ((*site as u64) << 8) ^ t);
        }
        out.event_order_hash = h;
        out.threads_seen = ids.len();
    }
    for i in 0..nw {
        out.contents[i] = probe_contents[i].lock().unwrap().clone();
    }
    let s = sink.lock().unwrap();
    out.consumer_calls = s.calls;
    for r in &s.order {
        let row: Row = r.iter().cloned().collect();
        out.rows.push((row, s.rows[r].clone()));
    }
    out
}

// ---------------------------------------------------------------------------------------
// the oracle

#[derive(Default, Clone)]
struct Stats {
    rows_distinct: u64,
    block_checks: u64,
    static_checks: u64,
    rows_fully_valid: u64,
    rows_using_stale_content: u64,
    leak_observable: bool,
}

struct Finding {
    sig: Value,
    detail: Value,
}

fn strip(t: &str) -> String {
    // the engine returns terms as stored: IRIs without angle brackets; accept both forms
    let t = t.trim();
    if t.starts_with('<') && t.ends_with('>') {
        t[1..t.len() - 1].to_string()
    } else {
        t.to_string()
    }
}

fn check(cs: &Case, run: &RunOut) -> (Vec<Finding>, Stats) {
    use_naming(cs);
    let mut st = Stats::default();
    let mut findings: Vec<Finding> = vec![];
    let mut seen: HashSet<String> = HashSet::new();
    let nw = cs.wins.len();
    let block_vars: Vec<BTreeSet<String>> = cs.wins.iter().map(|w| pat_vars(&w.block)).collect();
    let static_vars = pat_vars(&cs.static_pats);
    let mut all_vars: BTreeSet<String> = static_vars.clone();
    for b in &block_vars {
        all_vars.extend(b.iter().cloned());
    }
    let static_set: BTreeSet<LT> = cs.static_data.iter().cloned().collect();
    let mut sent_to: BTreeMap<LT, BTreeSet<usize>> = BTreeMap::new();
    for (s, lt, _) in &cs.feed {
        sent_to.entry(lt.clone()).or_default().insert(*s);
    }
    // leak observability (for the non-triviality rule)
    {
        let everything: BTreeSet<LT> = sent_to.keys().cloned().collect();
        for w in &cs.wins {
            let foreign: BTreeSet<LT> = sent_to.iter().filter(|(_, ss)| !w.owns(Some(*ss))).map(|(t, _)| t.clone()).collect();
            if !bgp(&w.block, &foreign).is_empty() || !bgp(&w.block, &static_set).is_empty() {
                st.leak_observable = true;
            }
        }
        if !cs.static_pats.is_empty() && !bgp(&cs.static_pats, &everything).is_empty() {
            st.leak_observable = true;
        }
    }
    // which variables of a block also occur elsewhere (other block / static part)
    let shared_of = |w: Option<usize>| -> BTreeSet<String> {
        let mine = match w {
            Some(i) => &block_vars[i],
            None => &static_vars,
        };
        let mut others: BTreeSet<String> = BTreeSet::new();
        for (j, b) in block_vars.iter().enumerate() {
            if Some(j) != w {
                others.extend(b.iter().cloned());
            }
        }
        if w.is_some() {
            others.extend(static_vars.iter().cloned());
        }
        mine.intersection(&others).cloned().collect()
    };
    // cache: (window, restricted row) -> index of the first own content containing mu(B)
    let mut first_idx: Vec<HashMap<Vec<String>, (Option<usize>, Vec<LT>)>> = vec![HashMap::new(); nw];
    let mut push = |findings: &mut Vec<Finding>, sig: Value, detail: Value| {
        if seen.insert(sig.to_string()) {
            findings.push(Finding { sig, detail });
        }
    };
    for (raw_row, cnt) in &run.rows {
        st.rows_distinct += 1;
        let row: Row = raw_row.iter().map(|(k, v)| (k.trim_start_matches('?').to_string(), strip(v))).collect();
        let dom: BTreeSet<String> = row.keys().cloned().collect();
        let mut row_ok = true;
        if dom != all_vars {
            row_ok = false;
            let missing: Vec<String> = all_vars.difference(&dom).cloned().collect();
            let extra: Vec<String> = dom.difference(&all_vars).cloned().collect();
            if !missing.is_empty() {
                let whole_blocks: Vec<usize> = (0..nw).filter(|&i| block_vars[i].iter().all(|x| !dom.contains(x) || shared_of(Some(i)).contains(x)) && block_vars[i].iter().any(|x| !dom.contains(x))).collect();
                let static_missing = !static_vars.is_empty() && static_vars.iter().any(|x| !dom.contains(x));
                let what = if !whole_blocks.is_empty() {
                    "a_whole_window_block_is_absent_from_the_row"
                } else if static_missing {
                    "the_static_part_is_absent_from_the_row"
                } else {
                    "some_variables_of_a_block"
                };
                push(&mut findings, json!({"kind": "row_does_not_bind_all_variables", "missing": what}), json!({"row": row, "missing_variables": missing, "blocks_absent": whole_blocks, "all_variables": all_vars}));
            }
            if !extra.is_empty() {
                push(&mut findings, json!({"kind": "row_binds_a_variable_that_is_not_in_the_query"}), json!({"row": row, "extra_variables": extra}));
            }
        }
        let mut stale = false;
        for w in 0..nw {
            // a row that lacks variables is reported as such; its blocks cannot be told apart
            if !all_vars.iter().all(|x| row.contains_key(x)) {
                continue;
            }
            st.block_checks += 1;
            let key: Vec<String> = block_vars[w].iter().map(|x| row[x].clone()).collect();
            let contents = &run.contents[w];
            let entry = first_idx[w].entry(key).or_insert_with(|| {
                let g = instantiate(&cs.wins[w].block, &row).unwrap_or_default();
                let idx = contents.iter().position(|c| g.iter().all(|t| c.contains(t)));
                (idx, g)
            });
            let (idx, ground) = (entry.0, entry.1.clone());
            let so_far = cnt.get(w).copied().unwrap_or(0).min(contents.len());
            match idx {
                Some(i) if i < so_far => {
                    // justified; by the latest content or only by an older one?
                    if so_far > 0 && !ground.iter().all(|t| contents[so_far - 1].contains(t)) {
                        stale = true;
                    }
                }
                _ => {
                    row_ok = false;
                    // establish the cause from where the ground triples do exist
                    let own_stream = cs.wins[w].stream;
                    let restricted: Row = block_vars[w].iter().map(|x| (x.clone(), row[x].clone())).collect();
                    let origin = |t: &LT| -> (bool, Vec<usize>, bool) {
                        let ss = sent_to.get(t).cloned().unwrap_or_default();
                        let own = cs.wins[w].owns(Some(&ss));
                        (own, ss.iter().copied().filter(|s| !cs.wins[w].listens(*s)).collect(), static_set.contains(t))
                    };
                    let origins: Vec<(LT, (bool, Vec<usize>, bool))> = ground.iter().map(|t| (t.clone(), origin(t))).collect();
                    let nowhere: Vec<&LT> = origins.iter().filter(|(_, o)| !o.0 && o.1.is_empty() && !o.2).map(|(t, _)| t).collect();
                    let foreign_only: Vec<&LT> = origins.iter().filter(|(_, o)| !o.0 && !o.1.is_empty()).map(|(t, _)| t).collect();
                    let static_only: Vec<&LT> = origins.iter().filter(|(_, o)| !o.0 && o.1.is_empty() && o.2).map(|(t, _)| t).collect();
                    let origin_json: Vec<Value> = origins
                        .iter()
                        .map(|(t, o)| json!({"triple": nt_line(t), "sent_to_own_stream": o.0, "sent_to_other_streams": o.1.iter().map(|s| stream_name(*s)).collect::<Vec<_>>(), "in_static_data": o.2}))
                        .collect();
                    let base = json!({"window": format!(":w{}", w), "own_stream": if cs.wins[w].any_stream { "?anystream (every stream)".to_string() } else { stream_name(own_stream) }, "block": pats_text(&cs.wins[w].block), "row": row, "row_restricted_to_block": restricted, "ground_instances_of_block": origin_json, "contents_reported_by_this_window_so_far": so_far, "contents_reported_in_total": contents.len()});
                    // is mu(B) contained in (one own content reported so far, or nothing) + what OTHER windows reported?
                    let others_union: BTreeSet<&LT> = (0..nw).filter(|u| *u != w).flat_map(|u| run.contents[u].iter().flat_map(|c| c.iter())).collect();
                    let mut explained_by_other_windows: Option<Vec<LT>> = None;
                    {
                        let empty: BTreeSet<LT> = BTreeSet::new();
                        for cont in std::iter::once(&empty).chain(contents.iter().take(so_far)) {
                            let missing: Vec<LT> = ground.iter().filter(|t| !cont.contains(*t)).cloned().collect();
                            if !missing.is_empty() && missing.iter().all(|t| others_union.contains(t)) && explained_by_other_windows.as_ref().map(|m| missing.len() < m.len()).unwrap_or(true) {
                                explained_by_other_windows = Some(missing);
                            }
                        }
                    }
                    let cause: &str;
                    let mut extra = json!({});
                    // does an own answer exist that differs from the row only on variables shared with other parts?
                    let shared = shared_of(Some(w));
                    let mut own_answer_differing_on_shared: Option<Row> = None;
                    if !shared.is_empty() {
                        'o: for cont in contents.iter().take(so_far) {
                            for a in bgp(&cs.wins[w].block, cont) {
                                let private_equal = block_vars[w].iter().filter(|x| !shared.contains(*x)).all(|x| a.get(x) == row.get(x));
                                let differs_on_shared = shared.iter().any(|x| a.get(x) != row.get(x));
                                if private_equal && differs_on_shared {
                                    own_answer_differing_on_shared = Some(a);
                                    break 'o;
                                }
                            }
                        }
                    }
                    if let Some(missing) = explained_by_other_windows.clone() {
                        // mu(B) = some own content + triples that other windows held: the shared store
                        let truly_foreign: Vec<&LT> = missing.iter().filter(|t| !cs.wins[w].owns(sent_to.get(*t))).collect();
                        if !truly_foreign.is_empty() {
                            cause = "item_only_ever_sent_to_another_stream";
                            extra = json!({"foreign_items": truly_foreign.iter().map(|t| nt_line(t)).collect::<Vec<_>>(), "triples_taken_from_other_windows": missing.iter().map(nt_line).collect::<Vec<_>>(), "also_needs_own_items": missing.len() < ground.len()});
                        } else {
                            cause = "item_only_in_the_content_of_another_window_on_the_same_stream";
                            extra = json!({"triples_taken_from_other_windows": missing.iter().map(nt_line).collect::<Vec<_>>(), "also_needs_own_items": missing.len() < ground.len()});
                        }
                    } else if let Some(a) = own_answer_differing_on_shared {
                        cause = "shared_variable_has_the_value_of_another_block";
                        extra = json!({"own_answer_that_agrees_on_the_private_variables": a, "shared_variables": shared});
                    } else if !nowhere.is_empty() {
                        cause = "ground_triple_exists_nowhere";
                    } else if !static_only.is_empty() {
                        cause = "triple_of_the_static_data";
                        extra = json!({"static_triples": static_only.iter().map(|t| nt_line(t)).collect::<Vec<_>>()});
                    } else if !foreign_only.is_empty() {
                        cause = "item_of_another_stream_that_no_window_reported";
                        extra = json!({"foreign_items": foreign_only.iter().map(|t| nt_line(t)).collect::<Vec<_>>()});
                    } else {
                        // every ground triple was sent to the own stream
                        let union_so_far: BTreeSet<&LT> = contents.iter().take(so_far).flat_map(|c| c.iter()).collect();
                        if idx.is_some() {
                            cause = "content_reported_only_after_the_emission";
                        } else if ground.iter().all(|t| union_so_far.contains(t)) {
                            cause = "items_of_different_contents_of_the_same_window";
                        } else {
                            cause = "own_stream_item_not_in_any_reported_content";
                        }
                    }
                    let mut d = base;
                    d["explanation"] = extra;
                    push(&mut findings, json!({"kind": "window_block_bound_outside_its_own_reported_content", "cause": cause}), d);
                }
            }
        }
        if !cs.static_pats.is_empty() && all_vars.iter().all(|x| row.contains_key(x)) {
            st.static_checks += 1;
            let ground = instantiate(&cs.static_pats, &row).unwrap_or_default();
            if !ground.iter().all(|t| static_set.contains(t)) {
                row_ok = false;
                let bad: Vec<&LT> = ground.iter().filter(|t| !static_set.contains(*t)).collect();
                let in_stream: Vec<&LT> = bad.iter().copied().filter(|t| sent_to.contains_key(*t)).collect();
                let restricted: Row = static_vars.iter().map(|x| (x.clone(), row[x].clone())).collect();
                let cause;
                let mut extra = json!({});
                if in_stream.len() == bad.len() {
                    cause = "stream_item";
                    extra = json!({"stream_items": in_stream.iter().map(|t| json!({"triple": nt_line(t), "sent_to": sent_to[*t].iter().map(|s| stream_name(*s)).collect::<Vec<_>>()})).collect::<Vec<_>>()});
                } else {
                    let shared = shared_of(None);
                    let found = bgp(&cs.static_pats, &static_set).into_iter().find(|a| static_vars.iter().filter(|x| !shared.contains(*x)).all(|x| a.get(x) == row.get(x)) && shared.iter().any(|x| a.get(x) != row.get(x)));
                    if let Some(a) = found {
                        cause = "shared_variable_has_the_value_of_a_window_block";
                        extra = json!({"static_answer_that_agrees_on_the_private_variables": a, "shared_variables": shared});
                    } else {
                        cause = "ground_triple_exists_nowhere";
                    }
                }
                push(
                    &mut findings,
                    json!({"kind": "static_part_bound_outside_the_static_data", "cause": cause}),
                    json!({"static_patterns": pats_text(&cs.static_pats), "row": row, "row_restricted_to_static_part": restricted, "ground_instances_missing_from_static_data": bad.iter().map(|t| nt_line(t)).collect::<Vec<_>>(), "explanation": extra}),
                );
            }
        }
        if row_ok {
            st.rows_fully_valid += 1;
            if stale {
                st.rows_using_stale_content += 1;
            }
        }
    }
    (findings, st)
}

/// run + check; Err = the run itself failed (not a property verdict unless it is a panic)
fn run_and_check(cs: &Case, sched_seed: u64, style: u8) -> (RunOut, Vec<Finding>, Stats) {
    let run = run_engine(cs, sched_seed, style);
    let (mut f, st) = check(cs, &run);
    if let Some(RunErr::Panic { api, msg }) = &run.error {
        f.push(Finding { sig: json!({"kind": "panic", "api": api, "site": panic_site(msg)}), detail: json!({"panic": msg}) });
    }
    if let Some(RunErr::WorkerDied { before, after }) = &run.error {
        f.push(Finding { sig: json!({"kind": "worker_thread_died_while_processing_a_content"}), detail: json!({"contents_taken_by_workers": before, "contents_finished": after}) });
    }
    (run, f, st)
}

// ---------------------------------------------------------------------------------------
// shrinking a witness (single-thread re-runs, bounded)

fn reproduces(cs: &Case, sig: &str, runs: &mut u32) -> bool {
    // single-thread runs are deterministic; a multi-thread candidate gets a few schedules
    let tries = if cs.mode == Mode::Multi { 4 } else { 1 };
    for t in 0..tries {
        *runs += 1;
        let (_, f, _) = run_and_check(cs, 1 + t, (t % 4) as u8);
        if f.iter().any(|x| x.sig.to_string() == sig) {
            return true;
        }
    }
    false
}

fn shrink(cs: &Case, sig: &str, max_runs: u32) -> (Case, u32) {
    let mut runs = 0u32;
    let mut best = cs.clone();
    // prefer a deterministic single-thread witness when the defect shows there too
    if best.mode == Mode::Multi {
        let mut c2 = best.clone();
        c2.mode = Mode::Single;
        if reproduces(&c2, sig, &mut runs) {
            best = c2;
        }
        // otherwise the defect needs threads: keep shrinking the multi-thread case
    }
    // drop the static part
    if !best.static_pats.is_empty() || !best.static_data.is_empty() {
        let mut c2 = best.clone();
        c2.static_pats.clear();
        c2.static_data.clear();
        if reproduces(&c2, sig, &mut runs) {
            best = c2;
        }
    }
    // drop a window (and the items of a stream nobody listens to)
    let mut w = 0;
    while best.wins.len() > 1 && w < best.wins.len() && runs < max_runs {
        let mut c2 = best.clone();
        c2.wins.remove(w);
        let keep: Vec<Win> = c2.wins.clone();
        c2.feed.retain(|f| keep.iter().any(|x| x.listens(f.0)));
        // window names are positional (:w0, :w1, ...): variables keep their names
        if reproduces(&c2, sig, &mut runs) {
            best = c2;
        } else {
            w += 1;
        }
    }
    // single-pattern blocks
    for w in 0..best.wins.len() {
        let mut i = 0;
        while best.wins[w].block.len() > 1 && i < best.wins[w].block.len() && runs < max_runs {
            let mut c2 = best.clone();
            c2.wins[w].block.remove(i);
            if reproduces(&c2, sig, &mut runs) {
                best = c2;
            } else {
                i += 1;
            }
        }
    }
    let mut i = 0;
    while best.static_pats.len() > 1 && i < best.static_pats.len() && runs < max_runs {
        let mut c2 = best.clone();
        c2.static_pats.remove(i);
        if reproduces(&c2, sig, &mut runs) {
            best = c2;
        } else {
            i += 1;
        }
    }
    // plain settings
    for f in 0..4 {
        if runs >= max_runs {
            break;
        }
        let mut c2 = best.clone();
        match f {
            0 => c2.wins.iter_mut().for_each(|w| w.non_empty = false),
            1 => c2.wins.iter_mut().for_each(|w| w.iri_style = 0),
            2 => c2.stream_op = 0,
            _ => c2.policy_in_query = false,
        }
        if reproduces(&c2, sig, &mut runs) {
            best = c2;
        }
    }
    // feed: remove chunks, then single items
    let mut chunk = (best.feed.len() / 2).max(1);
    while chunk >= 1 && runs < max_runs {
        let mut i = 0;
        let mut removed_any = false;
        while i < best.feed.len() && runs < max_runs {
            let mut c2 = best.clone();
            let end = (i + chunk).min(c2.feed.len());
            c2.feed.drain(i..end);
            if !c2.feed.is_empty() && reproduces(&c2, sig, &mut runs) {
                best = c2;
                removed_any = true;
            } else {
                i += chunk;
            }
        }
        if chunk == 1 && !removed_any {
            break;
        }
        chunk = if chunk == 1 { 1 } else { chunk / 2 };
    }
    // static data
    let mut i = 0;
    while i < best.static_data.len() && runs < max_runs {
        let mut c2 = best.clone();
        c2.static_data.remove(i);
        if reproduces(&c2, sig, &mut runs) {
            best = c2;
        } else {
            i += 1;
        }
    }
    // smaller timestamps: compress gaps per stream
    if runs < max_runs {
        let mut c2 = best.clone();
        let mut last: BTreeMap<usize, (usize, usize)> = BTreeMap::new();
        for f in c2.feed.iter_mut() {
            let e = last.entry(f.0).or_insert((f.2, f.2.min(1)));
            let gap = (f.2 - e.0).min(c2.wins.iter().filter(|w| w.listens(f.0)).map(|w| w.width + 1).max().unwrap_or(2));
            let nt = e.1 + gap;
            *e = (f.2, nt);
            f.2 = nt;
        }
        if reproduces(&c2, sig, &mut runs) {
            best = c2;
        }
    }
    (best, runs)
}

// ---------------------------------------------------------------------------------------
// driver

fn record(ctx: &mut Ctx, cs: &Case, run: &RunOut, st: &Stats, tag: &str) {
    let mp = format!("{}.{}", cs.mode.name(), cs.policy.name());
    ctx.add_evals(1);
    ctx.count(&format!("engine_runs.{}", mp), 1);
    ctx.count(&format!("rows_emitted.{}", mp), run.consumer_calls);
    ctx.count(&format!("rows_distinct_checked.{}", mp), st.rows_distinct);
    ctx.count("block_restrictions_checked", st.block_checks);
    ctx.count("static_restrictions_checked", st.static_checks);
    ctx.count("rows_fully_justified", st.rows_fully_valid);
    ctx.count(&format!("rows_not_justified.{}", mp), st.rows_distinct - st.rows_fully_valid);
    ctx.count("rows_justified_only_by_an_older_content_of_a_window", st.rows_using_stale_content);
    ctx.count(&format!("runs.windows_{}", cs.wins.len()), 1);
    ctx.count(&format!("runs.stream_operator.{}", ["RSTREAM", "ISTREAM", "DSTREAM"][cs.stream_op as usize % 3]), 1);
    if !cs.static_pats.is_empty() {
        ctx.count("runs.with_static_patterns", 1);
    }
    if cs.wins.iter().any(|w| pat_vars(&w.block).contains("j")) {
        ctx.count("runs.blocks_joined_on_a_shared_variable", 1);
    }
    if !cs.shared_vocab {
        ctx.count("runs.stream_specific_vocabulary", 1);
    }
    if cs.wins.iter().any(|w| w.any_stream) {
        ctx.count("runs.window_on_a_variable_stream", 1);
    }
    if cs.wins.len() >= 2 && cs.wins[0].stream == cs.wins[1].stream {
        ctx.count("runs.two_windows_on_one_stream", 1);
    }
    if st.leak_observable {
        ctx.count("runs.where_a_leak_would_be_observable", 1);
    }
    let reports: u64 = run.contents.iter().map(|c| c.len() as u64).sum();
    ctx.count("window_contents_reported_by_probes", reports);
    ctx.count("window_contents_reported_by_flush", run.flush_reports);
    ctx.max("max_rows_emitted_in_a_run", run.consumer_calls);
    ctx.max("max_feed_length", cs.feed.len() as u64);
    ctx.max("max_contents_reported_by_one_window", run.contents.iter().map(|c| c.len() as u64).max().unwrap_or(0));
    if cs.mode == Mode::Multi {
        for i in 0..5 {
            ctx.count(&format!("hook_events.{}", SITES[i]), run.hook_counts[i]);
        }
        ctx.max("max_threads_seen_at_hooks_in_a_run", run.threads_seen as u64);
        ctx.count(if cs.lockstep { "runs.multi_thread_lockstep_feeding" } else { "runs.multi_thread_free_running" }, 1);
    }
    let _ = tag;
}

fn handle_run_error(ctx: &mut Ctx, cs: &Case, run: &RunOut) {
    match &run.error {
        None | Some(RunErr::Panic { .. }) | Some(RunErr::WorkerDied { .. }) => {}
        Some(RunErr::Build(e)) => {
            ctx.count("build_errors", 1);
            ctx.inconclusive(&format!("RSPBuilder::build rejected a generated query: {} -- {}", e, query_text(cs).replace('\n', " ")));
        }
        Some(RunErr::Watchdog(e)) => ctx.inconclusive(&format!("watchdog: {}", e)),
        Some(RunErr::Monitor(e)) => ctx.inconclusive(&format!("monitor: {}", e)),
    }
}

fn do_case(ctx: &mut Ctx, k: u64, size: Size, reps_multi: u64, shrunk: &mut HashSet<String>, orders: &mut HashSet<u64>) {
    let mut r = ctx.rng(k);
    let cs = gen_case(&mut r, size, ctx.thorough());
    let cj = case_json(&cs);
    let reps = if cs.mode == Mode::Multi { reps_multi } else { 1 };
    let mut case_orders: HashSet<u64> = HashSet::new();
    let mut any_checked = false;
    let mut observable = false;
    for rep in 0..reps {
        let sched_seed = mix(ctx.seed() ^ mix(k) ^ rep.wrapping_mul(0xA24B_AED4_963E_E407));
        let style = if cs.mode == Mode::Multi { ((sched_seed >> 3) % 4) as u8 } else { 0 };
        let (run, findings, st) = run_and_check(&cs, sched_seed, style);
        record(ctx, &cs, &run, &st, "");
        handle_run_error(ctx, &cs, &run);
        if cs.mode == Mode::Multi {
            ctx.count(&format!("runs.perturbation_style_{}", style), 1);
            case_orders.insert(run.event_order_hash);
            orders.insert(run.event_order_hash);
        }
        if st.block_checks > 0 {
            any_checked = true;
        }
        observable |= st.leak_observable;
        if ctx.wants_sample() && run.consumer_calls > 0 {
            ctx.sample(json!({"case": cj, "rows_emitted": run.consumer_calls, "distinct_rows": run.rows.len(), "first_rows": run.rows.iter().take(3).map(|(r, c)| json!({"row": r, "contents_reported_so_far_per_window": c})).collect::<Vec<_>>(), "contents_reported_per_window": run.contents.iter().map(|c| c.len()).collect::<Vec<_>>(), "hook_counts": run.hook_counts}));
        }
        for f in findings {
            let key = f.sig.to_string();
            let mut detail = f.detail.clone();
            detail["case"] = cj.clone();
            detail["repetition"] = json!(rep);
            detail["schedule_seed"] = json!(sched_seed);
            // smallest witness: once per signature and shard
            if shrunk.insert(key.clone()) && f.sig["kind"] != "panic" {
                let (small, runs) = shrink(&cs, &key, ctx.by_tier(160, 400));
                ctx.add_evals(runs as u64);
                ctx.count("shrink_runs", runs as u64);
                let mut shown = None;
                for t in 0..(if small.mode == Mode::Multi { 8u64 } else { 1 }) {
                    let (srun, sf, _) = run_and_check(&small, 1 + t, (t % 4) as u8);
                    if sf.iter().any(|x| x.sig.to_string() == key) {
                        shown = Some((srun, sf));
                        break;
                    }
                }
                if let Some((srun, sf)) = shown {
                    let x = sf.iter().find(|x| x.sig.to_string() == key).unwrap();
                    detail["shrunk_witness"] = json!({"case": case_json(&small), "finding": x.detail, "rows_emitted": srun.consumer_calls, "contents_reported_per_window": srun.contents.iter().map(|c| c.iter().map(|s| s.iter().map(nt_line).collect::<Vec<_>>()).collect::<Vec<_>>()).collect::<Vec<_>>()});
                }
            }
            ctx.violation(f.sig, detail);
        }
    }
    if cs.mode == Mode::Multi {
        ctx.max("max_distinct_hook_event_orders_for_one_case", case_orders.len() as u64);
        if case_orders.len() > 1 {
            ctx.count("multi_thread_cases_with_more_than_one_event_order", 1);
        }
    }
    if any_checked && observable {
        ctx.nontrivial(hash_str(&cj.to_string()));
    }
}

fn run(ctx: &mut Ctx) {
    let mut shrunk: HashSet<String> = HashSet::new();
    let mut orders: HashSet<u64> = HashSet::new();
    let reps = ctx.by_tier(2, 4);
    ctx.phase("tiny", ctx.by_tier(4_000, 30_000));
    while ctx.within(0.35) {
        let Some(k) = ctx.next_case() else { break };
        do_case(ctx, k, Size::Tiny, reps, &mut shrunk, &mut orders);
    }
    ctx.phase("random", ctx.by_tier(12_000, 200_000));
    while let Some(k) = ctx.next_case() {
        do_case(ctx, k, Size::Normal, reps, &mut shrunk, &mut orders);
    }
    ctx.count("distinct_hook_event_orders", orders.len() as u64);
}

fn main() {
    let mut spec = Spec::new("C11", "exploration", RULE);
    spec.assumptions = &[
        "fragment: WINDOW blocks and the static part are basic graph patterns (the only thing RSP-QL WINDOW blocks / RSPQueryConfig.static_patterns carry); SELECT *; all terms are IRIs (term handling is C13/C01)",
        "the contents a window reported are observed by a probe WindowRunner with identical parameters fed the same (item, ts) sequence before the engine (windows are deterministic functions of their input: C09); in multi-thread mode the number of contents the engine windows sent (hook s2r.content_sent) is compared with the probes",
        "report strategies OnWindowClose and NonEmptyContent, tick TimeDriven (OnContentChange depends on HashMap iteration order inside Report::report)",
        "Timeout policies are wall-clock dependent: rows are checked like any others, nothing is concluded from how many are emitted",
        "soundness only: the property says nothing about rows that are missing",
    ];
    spec.quick_budget_s = 40;
    spec.thorough_budget_s = 600;
    kvcore::run(spec, run);
}
