//! C13 — Loading a document adds exactly its triples, whatever its size or prior content.
//!
//! Event: the lexical snapshot (decode_any over DatasetIndex::all_quads + named-graph catalog)
//! of a SparqlDatabase before and after `parse_ntriples_and_add`, `parse_nquads_and_add`,
//! `parse_turtle`, `parse_n3`, `parse_rdf`, executed inside rayon pools of 1, 2, 4, 16 threads.
//! Oracle: set arithmetic on M-DATASET: after == before ∪ quads the harness writer put into
//! the document. The writers keep, for every line, the triples written on it, so the expected
//! set never goes through any parser.
//! Attribution (never the verdict): restricted re-runs — the document's 1000-line blocks
//! loaded one by one into fresh empty databases, the same triples re-rendered one statement
//! per line, the same document into an empty database / on one thread / truncated.

use kolibrie::sparql_database::SparqlDatabase;
use kvcore::{guard, hash_str, json, panic_site, Ctx, Rng, Spec, Value};
use kvk::ds::{self, Dataset, LQuad, G};
use shared::dataset_index::GraphId;
use std::collections::{BTreeMap, BTreeSet};
use std::sync::OnceLock;

const RULE: &str = "Each case = one document rendered by the harness writers from a generated triple list (N-Triples, N-Quads, Turtle with @prefix/PREFIX ';' ',', N3 with @prefix ';' and multi-line statements, RDF/XML with rdf:Description, literal and rdf:resource properties; sizes 0,1,2, small, and around the loaders' chunk boundaries 999..1001, 1999..2001, 3500 lines resp. 8191..8193, 20000 triples; duplicates inside the document and against the prior content; comment/blank lines, CRLF, prefix declarations at the top only / repeated / per block) x one prior database (empty, one quad, ~500 quads incl. named and empty graphs overlapping the document's terms and triples, dictionary pre-populated with unrelated or with the document's own terms, content loaded before through another loader, clashing prefix map) x rayon pools of 1/2/4/16 threads; then the same document again (idempotence) or a second document in another format (history). Non-trivial = a document with >= 1 triple that was loaded into a non-empty database or dictionary, or spans >= 2 loader chunks, or was loaded on a pool of >= 2 threads; distinct by hash of (format, document text, prior kind, threads).";

// ---------------------------------------------------------------------------------------
// formats

#[derive(Clone, Copy, Debug, PartialEq, Eq, PartialOrd, Ord)]
enum Fmt {
    NTriples,
    NQuads,
    Turtle,
    N3,
    RdfXml,
}
const LINE_FMTS: [Fmt; 4] = [Fmt::NTriples, Fmt::NQuads, Fmt::Turtle, Fmt::N3];
const ALL_FMTS: [Fmt; 5] = [Fmt::NTriples, Fmt::NQuads, Fmt::Turtle, Fmt::N3, Fmt::RdfXml];

impl Fmt {
    fn name(self) -> &'static str {
        match self {
            Fmt::NTriples => "ntriples",
            Fmt::NQuads => "nquads",
            Fmt::Turtle => "turtle",
            Fmt::N3 => "n3",
            Fmt::RdfXml => "rdfxml",
        }
    }
    /// unit in which the loader cuts its input into parallel pieces (0 = sequential loader)
    fn chunk(self) -> usize {
        match self {
            Fmt::NTriples | Fmt::N3 => 1000,
            Fmt::RdfXml => 8192,
            _ => 0,
        }
    }
}

fn load(db: &mut SparqlDatabase, fmt: Fmt, text: &str) {
    match fmt {
        Fmt::NTriples => db.parse_ntriples_and_add(text),
        Fmt::NQuads => db.parse_nquads_and_add(text),
        Fmt::Turtle => db.parse_turtle(text),
        Fmt::N3 => db.parse_n3(text),
        Fmt::RdfXml => {
            // every other document goes through the file-reading twin of the XML loader
            // (which one is a function of the text, so a case loads the same way on replay)
            if hash_str(text) % 2 == 0 {
                db.parse_rdf(text)
            } else {
                let path = std::env::temp_dir().join(format!("kv-c13-{}-{:x}.rdf", std::process::id(), hash_str(text)));
                if std::fs::write(&path, text).is_ok() {
                    let p = path.to_string_lossy().to_string();
                    let r = std::panic::catch_unwind(std::panic::AssertUnwindSafe(|| db.parse_rdf_from_file(&p)));
                    let _ = std::fs::remove_file(&path);
                    if let Err(e) = r {
                        std::panic::resume_unwind(e);
                    }
                } else {
                    db.parse_rdf(text)
                }
            }
        }
    }
}

fn pool(n: usize) -> &'static rayon::ThreadPool {
    static POOLS: OnceLock<BTreeMap<usize, rayon::ThreadPool>> = OnceLock::new();
    let m = POOLS.get_or_init(|| [1usize, 2, 4, 16].iter().map(|&n| (n, rayon::ThreadPoolBuilder::new().num_threads(n).build().expect("pool"))).collect());
    &m[&n]
}
const POOL_SIZES: [usize; 4] = [1, 2, 4, 16];

// ---------------------------------------------------------------------------------------
// vocabulary (M-TERM: IRIs http://…, canonical integers, words; kinds lexically disjoint)

const NS_K: &str = "http://k/";
const NS_X: &str = "http://x.org/v/";
const NS_H: &str = "http://h.org/ns#";
const RDF_TYPE: &str = "http://www.w3.org/1999/02/22-rdf-syntax-ns#type";
const PREFIXES: [(&str, &str); 3] = [("k", NS_K), ("x", NS_X), ("h", NS_H)];

#[derive(Clone, Debug)]
struct TermGen {
    n_ent: usize,
    n_pred: usize,
    n_num: usize,
    n_word: usize,
    /// share (in 1/8) of IRIs taken from the second namespace
    x_share: usize,
    /// IRIs of a namespace ending in '#' (a quarter of the documents of every phase)
    hash_ns: bool,
    /// word literals with one inner space
    spaced: bool,
    /// literals that need their delimiters: leading / trailing blanks, a leading quote, an
    /// IRI-like shape (N-Triples and N-Quads documents only, where escapes are defined)
    hostile: bool,
}

impl TermGen {
    fn for_size(r: &mut Rng, target: usize) -> TermGen {
        TermGen { n_ent: (target / 3).max(3) + r.below(4), n_pred: r.range(2, 7), n_num: r.range(3, 12), n_word: r.range(2, 6), x_share: r.below(4), hash_ns: r.chance(1, 4), spaced: r.chance(1, 3), hostile: false }
    }
    fn ns(&self, r: &mut Rng) -> &'static str {
        if self.hash_ns && r.chance(1, 3) {
            NS_H
        } else if r.below(8) < self.x_share {
            NS_X
        } else {
            NS_K
        }
    }
    fn ent(&self, r: &mut Rng) -> String {
        format!("{}e{}", self.ns(r), r.below(self.n_ent))
    }
    fn pred(&self, r: &mut Rng) -> String {
        if r.chance(1, 10) {
            // rdf:type: `a` in Turtle / N3, the rdf:type element in RDF/XML
            return RDF_TYPE.to_string();
        }
        format!("{}p{}", self.ns(r), r.below(self.n_pred))
    }
    fn object(&self, r: &mut Rng) -> String {
        match r.below(20) {
            0..=10 => self.ent(r),
            11..=15 => format!("{}", r.below(self.n_num)),
            _ => {
                if self.hostile && r.chance(1, 3) {
                    r.pick(&[" lead", "trail ", "\"q\" at the start", "<b>x</b>", "a  b", "<http://not/an/iri>", "end\""]).to_string()
                } else if self.hash_ns && r.chance(1, 4) {
                    // a '#' inside a literal is no comment
                    format!("w{}#x", r.below(self.n_word))
                } else if self.spaced && r.chance(1, 3) {
                    format!("w{} w{}", r.below(self.n_word), r.below(self.n_word))
                } else {
                    ds::word(r.below(self.n_word))
                }
            }
        }
    }
    fn triple(&self, r: &mut Rng) -> (String, String, String) {
        (self.ent(r), self.pred(r), self.object(r))
    }
}

fn pname(iri: &str) -> Option<String> {
    for (p, ns) in PREFIXES {
        if let Some(rest) = iri.strip_prefix(ns) {
            if !rest.is_empty() && rest.chars().all(|c| c.is_ascii_alphanumeric()) {
                return Some(format!("{}:{}", p, rest));
            }
        }
    }
    None
}

// ---------------------------------------------------------------------------------------
// documents

#[derive(Clone, Copy, Debug, PartialEq, Eq)]
enum PrefixMode {
    /// full IRIs only
    None,
    /// declarations in the first lines only
    TopOnly,
    /// declared at the top and declared again (same value) at random places
    Repeated,
    /// declared at the top and again at every line index that is a multiple of 1000
    PerBlock,
}

#[derive(Clone, Copy, Debug, PartialEq, Eq)]
enum Style {
    /// one triple per statement per line
    Flat,
    /// several triples per one-line statement (';' and, Turtle only, ',')
    Grouped,
    /// N3 only: a ';' statement written over 2-3 lines
    MultiLine,
}

#[derive(Clone, Debug)]
struct DocOpts {
    /// lines (line formats) or triples (RDF/XML)
    target: usize,
    prefix_mode: PrefixMode,
    style: Style,
    comments: bool,
    crlf: bool,
    trailing_newline: bool,
    /// probability (in 1/12) that a statement repeats an earlier triple of the document
    dup12: usize,
    /// RDF/XML: everything on few physical lines
    compact: bool,
    /// SPARQL-style PREFIX lines (Turtle only)
    sparql_prefix: bool,
}

impl DocOpts {
    fn random(r: &mut Rng, fmt: Fmt, target: usize) -> DocOpts {
        let prefix_mode = match fmt {
            Fmt::Turtle | Fmt::N3 if target >= 4 => *r.pick(&[PrefixMode::None, PrefixMode::TopOnly, PrefixMode::TopOnly, PrefixMode::Repeated, PrefixMode::PerBlock]),
            _ => PrefixMode::None,
        };
        let style = match fmt {
            Fmt::Turtle => *r.pick(&[Style::Flat, Style::Grouped]),
            Fmt::N3 if prefix_mode != PrefixMode::PerBlock => *r.pick(&[Style::Flat, Style::Flat, Style::Grouped, Style::MultiLine]),
            Fmt::N3 => *r.pick(&[Style::Flat, Style::Grouped]),
            Fmt::RdfXml => *r.pick(&[Style::Flat, Style::Grouped]),
            _ => Style::Flat,
        };
        DocOpts { target, prefix_mode, style, comments: r.chance(1, 3), crlf: r.chance(1, 10), trailing_newline: r.chance(3, 4), dup12: r.below(3), compact: r.chance(1, 4), sparql_prefix: fmt == Fmt::Turtle && r.chance(1, 4) }
    }
    fn to_json(&self) -> Value {
        json!({"target_size": self.target, "prefix_mode": format!("{:?}", self.prefix_mode), "style": format!("{:?}", self.style), "comment_and_blank_lines": self.comments, "crlf": self.crlf, "trailing_newline": self.trailing_newline, "compact_xml": self.compact, "sparql_style_prefix": self.sparql_prefix})
    }
}

#[derive(Clone, Debug)]
struct Stmt {
    first: usize,
    last: usize,
    /// indices into Doc::quads
    triples: Vec<usize>,
}

#[derive(Clone, Debug)]
struct Doc {
    fmt: Fmt,
    /// what the writer wrote, in document order, duplicates kept
    quads: Vec<LQuad>,
    lines: Vec<String>,
    stmts: Vec<Stmt>,
    opts: DocOpts,
}

impl Doc {
    fn text_of(&self, lines: &[String]) -> String {
        let eol = if self.opts.crlf { "\r\n" } else { "\n" };
        let mut s = lines.join(eol);
        if self.opts.trailing_newline && !lines.is_empty() {
            s.push_str(eol);
        }
        s
    }
    fn text(&self) -> String {
        self.text_of(&self.lines)
    }
    fn quad_set(&self) -> BTreeSet<LQuad> {
        self.quads.iter().cloned().collect()
    }
    fn units(&self) -> usize {
        if self.fmt == Fmt::RdfXml {
            self.quads.len()
        } else {
            self.lines.len()
        }
    }
    fn n_chunks(&self) -> usize {
        let c = self.fmt.chunk();
        if c == 0 || self.units() == 0 {
            1
        } else {
            (self.units() + c - 1) / c
        }
    }
    fn size_class(&self) -> String {
        let c = self.fmt.chunk().max(1000);
        let u = self.units();
        if u <= 2 {
            format!("{}", u)
        } else if u % c == 0 {
            format!("exactly_{}_chunks", u / c)
        } else if u % c == 1 && u > c {
            format!("{}_chunks_plus_1", u / c)
        } else if u % c == c - 1 {
            format!("{}_chunks_minus_1", u / c + 1)
        } else if u < c {
            "below_one_chunk".to_string()
        } else {
            format!("inside_chunk_{}", u / c + 1)
        }
    }
    /// triples written by statements whose lines lie in two different 1000-line blocks
    fn straddling(&self) -> BTreeSet<LQuad> {
        self.stmts.iter().filter(|s| s.first / 1000 != s.last / 1000).flat_map(|s| s.triples.iter().map(|&i| self.quads[i].clone())).collect()
    }
    /// the same document with every multi-line statement joined into one line
    fn joined(&self) -> Doc {
        let mut lines = vec![];
        let mut stmts = vec![];
        let mut by_first: BTreeMap<usize, &Stmt> = BTreeMap::new();
        for s in &self.stmts {
            by_first.insert(s.first, s);
        }
        let mut i = 0;
        while i < self.lines.len() {
            if let Some(s) = by_first.get(&i) {
                let l = self.lines[s.first..=s.last].iter().map(|x| x.trim()).collect::<Vec<_>>().join(" ");
                stmts.push(Stmt { first: lines.len(), last: lines.len(), triples: s.triples.clone() });
                lines.push(l);
                i = s.last + 1;
            } else {
                lines.push(self.lines[i].clone());
                i += 1;
            }
        }
        Doc { fmt: self.fmt, quads: self.quads.clone(), lines, stmts, opts: self.opts.clone() }
    }
    fn describe(&self) -> Value {
        let n = self.lines.len();
        let show = |a: usize, b: usize| -> Vec<String> { (a..b.min(n)).map(|i| format!("{}: {}", i, cut(&self.lines[i], 160))).collect() };
        let mut excerpt = show(0, 6);
        if n > 6 {
            let c = self.fmt.chunk();
            if c > 0 && self.fmt != Fmt::RdfXml && n > c {
                excerpt.push("…".into());
                excerpt.extend(show(c - 2, c + 3));
            }
            if n > 12 {
                excerpt.push("…".into());
                excerpt.extend(show(n - 3, n));
            }
        }
        json!({"format": self.fmt.name(), "lines": n, "triples_written": self.quads.len(), "distinct_triples": self.quad_set().len(), "loader_chunks": self.n_chunks(), "options": self.opts.to_json(), "excerpt": excerpt})
    }
}

fn cut(s: &str, n: usize) -> String {
    if s.chars().count() <= n {
        s.to_string()
    } else {
        format!("{}…", s.chars().take(n).collect::<String>())
    }
}

fn lit_nt(t: &str) -> String {
    format!("\"{}\"", t.replace('\\', "\\\\").replace('"', "\\\""))
}

struct LineWriter<'a> {
    r: &'a mut Rng,
    fmt: Fmt,
    tg: &'a TermGen,
    o: &'a DocOpts,
    lines: Vec<String>,
    quads: Vec<LQuad>,
    stmts: Vec<Stmt>,
    uses_prefix: bool,
    n_graphs: usize,
}

impl<'a> LineWriter<'a> {
    fn decls(&mut self) -> usize {
        let mut n = 0;
        for (p, ns) in PREFIXES {
            if ns == NS_H && !self.tg.hash_ns {
                continue;
            }
            if self.o.sparql_prefix && self.r.coin() {
                self.lines.push(format!("PREFIX {}: <{}>", p, ns));
            } else {
                self.lines.push(format!("@prefix {}: <{}> .", p, ns));
            }
            n += 1;
        }
        n
    }
    fn n_decls(&self) -> usize {
        if self.tg.hash_ns {
            3
        } else {
            2
        }
    }
    /// may a statement starting at the current line use prefixed names?
    fn pnames_now(&self) -> bool {
        if !self.uses_prefix {
            return false;
        }
        // N3 prints one stderr line per unresolved name: behind the first block only a
        // handful of statements use prefixed names (enough to witness visibility)
        if self.fmt == Fmt::N3 && self.lines.len() >= 995 && self.o.prefix_mode != PrefixMode::PerBlock {
            return matches!(self.lines.len() % 1000, 0 | 1 | 2 | 7 | 499);
        }
        true
    }
    /// predicate position: rdf:type may be written `a` in Turtle and N3
    fn pred_term(&mut self, t: &str, pn: bool) -> String {
        if t == RDF_TYPE && matches!(self.fmt, Fmt::Turtle | Fmt::N3) && self.r.coin() {
            return "a".to_string();
        }
        self.term(t, pn)
    }
    fn term(&mut self, t: &str, pn: bool) -> String {
        if ds::is_iri(t) {
            if pn && self.r.chance(4, 5) {
                if let Some(p) = pname(t) {
                    return p;
                }
            }
            format!("<{}>", t)
        } else if ds::is_num(t) && matches!(self.fmt, Fmt::Turtle | Fmt::N3) && self.r.coin() {
            t.to_string()
        } else {
            lit_nt(t)
        }
    }
    fn sep(&mut self) -> &'static str {
        match self.r.below(10) {
            0 => "  ",
            1 => "\t",
            _ => " ",
        }
    }
    fn new_triple(&mut self) -> (String, String, String) {
        if !self.quads.is_empty() && self.r.below(12) < self.o.dup12 {
            let q = self.r.pick(&self.quads).clone();
            (q.0, q.1, q.2)
        } else {
            self.tg.triple(self.r)
        }
    }
    fn graph(&mut self) -> G {
        if self.fmt == Fmt::NQuads && self.n_graphs > 0 && self.r.coin() {
            G::Named(ds::graph(self.r.below(self.n_graphs)))
        } else {
            G::Default
        }
    }
    fn statement(&mut self, remaining: usize) {
        let first = self.lines.len();
        let pn = self.pnames_now();
        match self.fmt {
            Fmt::NTriples | Fmt::NQuads => {
                let (s, p, o) = self.new_triple();
                let g = self.graph();
                let mut l = format!("{}{}{}{}{}", self.term(&s, false), self.sep(), self.pred_term(&p, false), self.sep(), self.term(&o, false));
                if let G::Named(n) = &g {
                    l.push_str(self.sep());
                    l.push_str(&format!("<{}>", n));
                }
                l.push_str(if self.r.chance(1, 6) { "." } else { " ." });
                if self.r.chance(1, 20) {
                    l = format!("  {} ", l);
                }
                self.stmts.push(Stmt { first, last: first, triples: vec![self.quads.len()] });
                self.quads.push((s, p, o, g));
                self.lines.push(l);
            }
            Fmt::Turtle | Fmt::N3 => {
                let style = if self.o.style == Style::MultiLine && remaining < 3 { Style::Flat } else { self.o.style };
                let style = if style != Style::Flat && self.r.chance(1, 3) { Style::Flat } else { style };
                let (s, p, o) = self.new_triple();
                let mut idx = vec![self.quads.len()];
                let mut text = format!("{}{}{}{}{}", self.term(&s, pn), self.sep(), self.pred_term(&p, pn), self.sep(), self.term(&o, pn));
                self.quads.push((s.clone(), p.clone(), o, G::Default));
                let mut out_lines: Vec<String> = vec![];
                if style != Style::Flat {
                    let n_pred = if style == Style::MultiLine { self.r.range(2, 3) } else { self.r.range(1, 3) };
                    for j in 0..n_pred {
                        let pj = if j == 0 { p.clone() } else { self.tg.pred(self.r) };
                        if j > 0 {
                            text.push_str(" ;");
                            if style == Style::MultiLine {
                                out_lines.push(std::mem::take(&mut text));
                                text.push_str("    ");
                            } else {
                                text.push(' ');
                            }
                            let oj = self.tg.object(self.r);
                            if style == Style::MultiLine && self.fmt == Fmt::N3 && self.r.chance(1, 3) {
                                // N3 statements may continue on the next physical line anywhere
                                // between two tokens: break between predicate and object, so the
                                // line ends without any punctuation
                                text.push_str(&self.pred_term(&pj, pn));
                                out_lines.push(std::mem::take(&mut text));
                                text.push_str(&format!("        {}", self.term(&oj, pn)));
                            } else {
                                text.push_str(&format!("{} {}", self.pred_term(&pj, pn), self.term(&oj, pn)));
                            }
                            idx.push(self.quads.len());
                            self.quads.push((s.clone(), pj.clone(), oj, G::Default));
                        }
                        if self.fmt == Fmt::Turtle {
                            for _ in 0..self.r.below(3) {
                                let oj = self.tg.object(self.r);
                                text.push_str(&format!(" , {}", self.term(&oj, pn)));
                                idx.push(self.quads.len());
                                self.quads.push((s.clone(), pj.clone(), oj, G::Default));
                            }
                        }
                    }
                }
                // N3: the terminating dot must be its own token; Turtle tolerates "x." after <…> and "…"
                let tight = self.fmt == Fmt::Turtle && self.r.chance(1, 6) && (text.ends_with('>') || text.ends_with('"'));
                text.push_str(if tight { "." } else { " ." });
                out_lines.push(text);
                let last = first + out_lines.len() - 1;
                self.lines.extend(out_lines);
                self.stmts.push(Stmt { first, last, triples: idx });
            }
            Fmt::RdfXml => unreachable!(),
        }
    }
}

fn gen_line_doc(r: &mut Rng, fmt: Fmt, o: &DocOpts, tg: &TermGen) -> Doc {
    let uses_prefix = matches!(fmt, Fmt::Turtle | Fmt::N3) && o.prefix_mode != PrefixMode::None && o.target >= 4;
    let n_graphs = r.range(1, 3);
    let mut w = LineWriter { r, fmt, tg, o, lines: vec![], quads: vec![], stmts: vec![], uses_prefix, n_graphs };
    if uses_prefix {
        w.decls();
    }
    while w.lines.len() < o.target {
        let remaining = o.target - w.lines.len();
        if uses_prefix && o.prefix_mode == PrefixMode::PerBlock && w.lines.len() % 1000 == 0 && remaining > w.n_decls() {
            w.decls();
            continue;
        }
        if o.comments && w.r.chance(1, 14) {
            let l = match w.r.below(3) {
                0 => String::new(),
                1 => "   ".to_string(),
                _ => format!("# comment {}", w.lines.len()),
            };
            w.lines.push(l);
            continue;
        }
        if uses_prefix && o.prefix_mode == PrefixMode::Repeated && remaining > w.n_decls() && w.r.chance(1, 60) {
            w.decls();
            continue;
        }
        w.statement(remaining);
        // N3 only: a comment after the statement's final dot (the other loaders take the
        // last character of a line for the statement end and are documented without comments)
        if fmt == Fmt::N3 && o.comments && w.r.chance(1, 10) {
            let n = w.lines.len();
            if let Some(last) = w.lines.last_mut() {
                if last.trim_end().ends_with('.') {
                    last.push_str(&format!(" # c{} <not-an-iri> \"x", n));
                }
            }
        }
    }
    Doc { fmt, quads: w.quads, lines: w.lines, stmts: w.stmts, opts: o.clone() }
}

fn gen_xml_doc(r: &mut Rng, o: &DocOpts, tg: &TermGen) -> Doc {
    let mut quads: Vec<LQuad> = vec![];
    let mut parts: Vec<String> = vec![];
    parts.push("<?xml version=\"1.0\" encoding=\"UTF-8\"?>".to_string());
    let mut root = String::from("<rdf:RDF xmlns:rdf=\"http://www.w3.org/1999/02/22-rdf-syntax-ns#\"");
    for (p, ns) in PREFIXES {
        if ns == NS_H && !tg.hash_ns {
            continue;
        }
        root.push_str(&format!(" xmlns:{}=\"{}\"", p, ns));
    }
    root.push('>');
    parts.push(root);
    while quads.len() < o.target {
        let remaining = o.target - quads.len();
        let s = tg.ent(r);
        let run = if o.style == Style::Grouped { r.range(1, 4).min(remaining) } else { 1 };
        parts.push(format!("  <rdf:Description rdf:about=\"{}\">", s));
        for _ in 0..run {
            let (p, ob) = if !quads.is_empty() && r.below(12) < o.dup12 {
                // repeat an earlier property of the same or another subject
                let q = r.pick(&quads).clone();
                (q.1, q.2)
            } else {
                (tg.pred(r), tg.object(r))
            };
            let pn = if p == RDF_TYPE { "rdf:type".to_string() } else { pname(&p).expect("predicates are in a declared namespace") };
            if ds::is_iri(&ob) {
                parts.push(format!("    <{} rdf:resource=\"{}\"/>", pn, ob));
            } else {
                parts.push(format!("    <{}>{}</{}>", pn, ob, pn));
            }
            quads.push((s.clone(), p, ob, G::Default));
        }
        parts.push("  </rdf:Description>".to_string());
    }
    parts.push("</rdf:RDF>".to_string());
    let lines = if o.compact { vec![parts.iter().map(|p| p.trim()).collect::<Vec<_>>().join("")] } else { parts };
    Doc { fmt: Fmt::RdfXml, quads, lines, stmts: vec![], opts: o.clone() }
}

fn gen_doc(r: &mut Rng, fmt: Fmt, o: &DocOpts, tg: &TermGen) -> Doc {
    if fmt == Fmt::RdfXml {
        gen_xml_doc(r, o, tg)
    } else {
        gen_line_doc(r, fmt, o, tg)
    }
}

/// Render an explicit triple list (cross-format phase): same triples, every format.
fn render_triples(r: &mut Rng, fmt: Fmt, triples: &[(String, String, String)], o: &DocOpts) -> Doc {
    let has_h = triples.iter().any(|t| [&t.0, &t.1, &t.2].iter().any(|x| x.starts_with(NS_H)));
    if fmt == Fmt::RdfXml {
        let h_decl = if has_h { format!(" xmlns:h=\"{}\"", NS_H) } else { String::new() };
        let mut parts = vec!["<?xml version=\"1.0\"?>".to_string(), format!("<rdf:RDF xmlns:rdf=\"http://www.w3.org/1999/02/22-rdf-syntax-ns#\" xmlns:k=\"{}\" xmlns:x=\"{}\"{}>", NS_K, NS_X, h_decl)];
        let mut i = 0;
        while i < triples.len() {
            let s = &triples[i].0;
            parts.push(format!("<rdf:Description rdf:about=\"{}\">", s));
            let mut j = i;
            while j < triples.len() && &triples[j].0 == s && (j == i || o.style == Style::Grouped) {
                let pn = if triples[j].1 == RDF_TYPE { "rdf:type".to_string() } else { pname(&triples[j].1).expect("declared namespace") };
                if ds::is_iri(&triples[j].2) {
                    parts.push(format!("<{} rdf:resource=\"{}\"/>", pn, triples[j].2));
                } else {
                    parts.push(format!("<{}>{}</{}>", pn, triples[j].2, pn));
                }
                j += 1;
            }
            parts.push("</rdf:Description>".to_string());
            i = j;
        }
        parts.push("</rdf:RDF>".to_string());
        return Doc { fmt, quads: triples.iter().map(|t| (t.0.clone(), t.1.clone(), t.2.clone(), G::Default)).collect(), lines: parts, stmts: vec![], opts: o.clone() };
    }
    let uses_prefix = matches!(fmt, Fmt::Turtle | Fmt::N3) && o.prefix_mode != PrefixMode::None;
    let mut lines = vec![];
    let mut stmts = vec![];
    let mut quads = vec![];
    let header = |lines: &mut Vec<String>| {
        lines.push(format!("@prefix k: <{}> .", NS_K));
        lines.push(format!("@prefix x: <{}> .", NS_X));
        if has_h {
            lines.push(format!("@prefix h: <{}> .", NS_H));
        }
    };
    if uses_prefix {
        header(&mut lines);
    }
    for (s, p, ob) in triples {
        if uses_prefix && o.prefix_mode == PrefixMode::PerBlock && lines.len() % 1000 == 0 {
            header(&mut lines);
        }
        let pn = uses_prefix && (fmt != Fmt::N3 || o.prefix_mode == PrefixMode::PerBlock || lines.len() < 995 || matches!(lines.len() % 1000, 0 | 1 | 2 | 7 | 499));
        let t = |x: &str, r: &mut Rng| -> String {
            if ds::is_iri(x) {
                if pn && r.chance(4, 5) {
                    if let Some(q) = pname(x) {
                        return q;
                    }
                }
                format!("<{}>", x)
            } else if ds::is_num(x) && matches!(fmt, Fmt::Turtle | Fmt::N3) && r.coin() {
                x.to_string()
            } else {
                lit_nt(x)
            }
        };
        let pt = if p == RDF_TYPE && matches!(fmt, Fmt::Turtle | Fmt::N3) && r.coin() { "a".to_string() } else { t(p, r) };
        let l = format!("{} {} {} .", t(s, r), pt, t(ob, r));
        stmts.push(Stmt { first: lines.len(), last: lines.len(), triples: vec![quads.len()] });
        quads.push((s.clone(), p.clone(), ob.clone(), G::Default));
        lines.push(l);
    }
    Doc { fmt, quads, lines, stmts, opts: o.clone() }
}

// ---------------------------------------------------------------------------------------
// prior database contents

#[derive(Clone, Copy, Debug, PartialEq, Eq)]
enum PriorKind {
    Empty,
    OneQuad,
    Populated,
    DictUnrelated,
    /// the dictionary holds exactly one unrelated term, no quads
    DictOneTerm,
    DictOverlap,
    LoadedBefore(Fmt),
    PrefixClash,
}

impl PriorKind {
    fn name(self) -> String {
        match self {
            PriorKind::Empty => "empty".into(),
            PriorKind::OneQuad => "one_quad".into(),
            PriorKind::Populated => "populated_500_with_named_graphs".into(),
            PriorKind::DictUnrelated => "dictionary_prepopulated_unrelated_terms".into(),
            PriorKind::DictOneTerm => "dictionary_holding_one_unrelated_term".into(),
            PriorKind::DictOverlap => "dictionary_prepopulated_document_terms".into(),
            PriorKind::LoadedBefore(f) => format!("loaded_before_through_{}", f.name()),
            PriorKind::PrefixClash => "populated_and_clashing_prefix_map".into(),
        }
    }
    fn random(r: &mut Rng) -> PriorKind {
        match r.below(16) {
            0..=2 => PriorKind::Empty,
            3 => PriorKind::OneQuad,
            4..=7 => PriorKind::Populated,
            8 => PriorKind::DictUnrelated,
            9 => {
                if r.coin() {
                    PriorKind::DictUnrelated
                } else {
                    PriorKind::DictOneTerm
                }
            }
            10..=11 => PriorKind::DictOverlap,
            12..=14 => PriorKind::LoadedBefore(*r.pick(&[Fmt::NTriples, Fmt::NQuads, Fmt::Turtle, Fmt::RdfXml])),
            _ => PriorKind::PrefixClash,
        }
    }
}

fn populate(db: &mut SparqlDatabase, r: &mut Rng, doc: &Doc, n: usize) {
    let v = ds::Vocab { n_ent: 40, n_pred: 6, n_graph: 3, n_num: 10, n_word: 4 };
    let d = ds::gen_dataset(r, &v, n);
    let mut quads: Vec<LQuad> = d.quads.iter().cloned().collect();
    // some of the document's own triples are already there: in the default graph (duplicates
    // against the prior content) and in a named graph (same triple, other graph)
    if !doc.quads.is_empty() {
        for _ in 0..r.range(1, 12) {
            let q = r.pick(&doc.quads).clone();
            let g = if r.coin() { q.3.clone() } else { G::Named(ds::graph(r.below(3))) };
            quads.push((q.0, q.1, q.2, g));
        }
    }
    r.shuffle(&mut quads);
    ds::add_direct(db, &quads);
    for g in &d.graphs {
        let id = db.dictionary.write().unwrap().encode(g);
        db.dataset_index.create_graph(GraphId::Named(id));
    }
}

fn build_prior(kind: PriorKind, seed: u64, doc: &Doc) -> SparqlDatabase {
    let mut r = Rng::new(seed);
    let mut db = SparqlDatabase::new();
    match kind {
        PriorKind::Empty => {}
        PriorKind::OneQuad => {
            let q = if !doc.quads.is_empty() && r.coin() { r.pick(&doc.quads).clone() } else { (ds::ent(1), ds::pred(0), ds::ent(2), G::Default) };
            ds::add_direct(&mut db, &[q]);
        }
        PriorKind::Populated => populate(&mut db, &mut r, doc, 500),
        PriorKind::DictUnrelated => {
            let n = r.range(1, 400);
            let mut d = db.dictionary.write().unwrap();
            for i in 0..n {
                d.encode(&format!("http://other/u{}", i));
            }
        }
        PriorKind::DictOneTerm => {
            db.dictionary.write().unwrap().encode("http://other/u0");
        }
        PriorKind::DictOverlap => {
            let mut terms: Vec<String> = doc.quads.iter().flat_map(|q| [q.0.clone(), q.1.clone(), q.2.clone()]).collect::<BTreeSet<_>>().into_iter().collect();
            r.shuffle(&mut terms);
            let keep = r.range(terms.len() / 2, terms.len());
            let mut d = db.dictionary.write().unwrap();
            for (i, t) in terms.iter().take(keep).enumerate() {
                if i % 3 == 0 {
                    d.encode(&format!("http://other/u{}", i));
                }
                d.encode(t);
            }
        }
        PriorKind::LoadedBefore(f) => {
            let target = *r.pick(&[5usize, 40, 150, 300, 1100]);
            let tg = TermGen { n_ent: 30, n_pred: 5, n_num: 8, n_word: 4, x_share: 2, hash_ns: false, spaced: false, hostile: false };
            let o = DocOpts::random(&mut r, f, target);
            let d0 = gen_doc(&mut r, f, &o, &tg);
            load(&mut db, f, &d0.text());
        }
        PriorKind::PrefixClash => {
            populate(&mut db, &mut r, doc, 60);
            db.prefixes.insert("k".into(), "http://clash.example/k/".into());
            db.prefixes.insert("x".into(), "http://clash.example/x/".into());
            db.prefixes.insert("rdf".into(), "http://clash.example/rdf/".into());
        }
    }
    db
}

// ---------------------------------------------------------------------------------------
// observation

type RawQ = (u32, u32, u32, Option<u32>);

fn raw_quads(db: &SparqlDatabase) -> BTreeSet<RawQ> {
    db.dataset_index
        .all_quads()
        .into_iter()
        .map(|q| {
            (
                q.subject,
                q.predicate,
                q.object,
                match q.graph {
                    GraphId::Default => None,
                    GraphId::Named(g) => Some(g),
                },
            )
        })
        .collect()
}

struct Outcome {
    before: Dataset,
    after: Dataset,
    raw_before: BTreeSet<RawQ>,
    raw_after: BTreeSet<RawQ>,
    /// size of the dictionary before the load
    dict_before: u32,
    /// stored quads that decode to a lexical quad another stored quad also decodes to
    collapsed_after: usize,
}

/// ds::snapshot, except that two stored quads decoding to the same lexical quad are counted
/// instead of refused (the caller decides what that means).
fn snap(db: &SparqlDatabase) -> Result<(Dataset, usize), String> {
    let mut d = Dataset::default();
    for g in db.dataset_index.named_graphs() {
        if let GraphId::Named(id) = g {
            d.graphs.insert(db.decode_any(id).ok_or_else(|| format!("graph id {} undecodable", id))?);
        }
    }
    let all = db.dataset_index.all_quads();
    let n = all.len();
    for q in all {
        let dec = |id: u32| db.decode_any(id).ok_or_else(|| format!("term id {} undecodable", id));
        let g = match q.graph {
            GraphId::Default => G::Default,
            GraphId::Named(id) => G::Named(dec(id)?),
        };
        d.quads.insert((dec(q.subject)?, dec(q.predicate)?, dec(q.object)?, g));
    }
    let collapsed = n - d.quads.len();
    Ok((d, collapsed))
}

enum Fail {
    Panic(String),
    Snapshot(&'static str, String),
}

fn run_load(build: &dyn Fn() -> SparqlDatabase, fmt: Fmt, text: &str, threads: usize) -> Result<Outcome, Fail> {
    let mut db = build();
    let before = ds::snapshot(&db).map_err(|e| Fail::Snapshot("before", e))?;
    let raw_before = raw_quads(&db);
    let dict_before = db.dictionary.read().unwrap().next_id;
    let res = pool(threads).install(|| {
        guard(move || {
            load(&mut db, fmt, text);
            db
        })
    });
    let db = match res {
        Ok(db) => db,
        Err(e) => return Err(Fail::Panic(e)),
    };
    let (after, collapsed_after) = snap(&db).map_err(|e| Fail::Snapshot("after", e))?;
    let raw_after = raw_quads(&db);
    Ok(Outcome { before, after, raw_before, raw_after, dict_before, collapsed_after })
}

fn expected_after(before: &Dataset, doc: &Doc) -> Dataset {
    let mut e = before.clone();
    for q in &doc.quads {
        e.insert(q.clone());
    }
    e
}

fn fmt_quad(q: &LQuad) -> String {
    format!("{} | {} | {} @{}", q.0, q.1, q.2, q.3.name().unwrap_or("DEFAULT"))
}

fn sample_quads<'a>(it: impl Iterator<Item = &'a LQuad>) -> Vec<String> {
    it.take(4).map(fmt_quad).collect()
}

// ---------------------------------------------------------------------------------------
// attribution by restricted re-runs (used only to name the cause in the signature)

fn unquote(t: &str) -> String {
    if t.len() >= 2 && t.starts_with('"') && t.ends_with('"') {
        t[1..t.len() - 1].to_string()
    } else {
        t.to_string()
    }
}

fn resolve_pname(t: &str) -> String {
    for (p, ns) in PREFIXES {
        if let Some(rest) = t.strip_prefix(p) {
            if let Some(local) = rest.strip_prefix(':') {
                return format!("{}{}", ns, local);
            }
        }
    }
    t.to_string()
}

fn map_terms(s: &BTreeSet<LQuad>, f: &dyn Fn(&str) -> String) -> BTreeSet<LQuad> {
    s.iter().map(|q| (f(&q.0), f(&q.1), f(&q.2), q.3.clone())).collect()
}

/// Load every `block`-line piece of the document alone into a fresh empty database on one
/// thread; returns per piece the lexical triples and the raw id triples.
fn isolated_blocks(fmt: Fmt, doc: &Doc, block: usize) -> Result<Vec<(BTreeSet<LQuad>, BTreeSet<RawQ>)>, String> {
    let mut out = vec![];
    for piece in doc.lines.chunks(block.max(1)) {
        let text = doc.text_of(piece);
        match run_load(&SparqlDatabase::new, fmt, &text, 1) {
            Ok(o) => out.push((o.after.quads, o.raw_after)),
            Err(Fail::Panic(e)) => return Err(e),
            Err(Fail::Snapshot(_, e)) => return Err(e),
        }
    }
    Ok(out)
}

struct Check<'a> {
    fmt: Fmt,
    doc: &'a Doc,
    build: &'a dyn Fn() -> SparqlDatabase,
    prior: String,
    threads: usize,
    step: &'static str,
}

impl<'a> Check<'a> {
    fn witness(&self, extra: Value) -> Value {
        json!({"document": self.doc.describe(), "prior": self.prior, "threads": self.threads, "step": self.step, "observed": extra})
    }

    fn does_load_fail(&self, build: &dyn Fn() -> SparqlDatabase, doc: &Doc, threads: usize) -> bool {
        match run_load(build, self.fmt, &doc.text(), threads) {
            Ok(o) => o.after != expected_after(&o.before, doc),
            Err(_) => true,
        }
    }

    /// smallest circumstance under which the same document is still loaded wrongly
    fn depends_on(&self) -> &'static str {
        // a small piece of the document, empty database, one thread
        let mut small = self.doc.clone();
        if self.fmt != Fmt::RdfXml && small.lines.len() > 40 {
            let keep: Vec<Stmt> = small.stmts.iter().filter(|s| s.last < 40).cloned().collect();
            let n_lines = keep.iter().map(|s| s.last + 1).max().unwrap_or(0).max(small.lines.len().min(6));
            small.lines.truncate(n_lines);
            let idx: BTreeSet<usize> = keep.iter().flat_map(|s| s.triples.iter().copied()).collect();
            small.quads = small.quads.iter().enumerate().filter(|(i, _)| idx.contains(i)).map(|(_, q)| q.clone()).collect();
            small.stmts = vec![];
            if self.does_load_fail(&SparqlDatabase::new, &small, 1) {
                return "nothing";
            }
        } else if self.does_load_fail(&SparqlDatabase::new, self.doc, 1) {
            return if self.doc.n_chunks() > 1 || self.doc.units() > 200 { "document_size_or_content" } else { "nothing" };
        }
        if self.does_load_fail(&SparqlDatabase::new, self.doc, 1) {
            return "document_size";
        }
        if self.does_load_fail(self.build, self.doc, 1) {
            return "prior_database_content";
        }
        if self.does_load_fail(self.build, self.doc, self.threads) {
            return "thread_count";
        }
        "not_reproducible_on_rerun"
    }

    /// Compare one load against the oracle; emits violations; returns (held, causes named).
    fn verify(&self, ctx: &mut Ctx, o: &Outcome) -> (bool, Vec<&'static str>) {
        let f = self.fmt.name();
        let exp = expected_after(&o.before, self.doc);
        if o.after == exp && o.collapsed_after == 0 {
            return (true, vec![]);
        }
        ctx.count(&format!("loads_wrong.{}", f), 1);
        let mut causes: Vec<&'static str> = vec![];
        // 1. what was there before must still be there
        let lost: Vec<&LQuad> = o.before.quads.difference(&o.after.quads).collect();
        let lost_graphs: Vec<&String> = o.before.graphs.difference(&o.after.graphs).collect();
        if !lost.is_empty() || !lost_graphs.is_empty() {
            causes.push("prior_quads_lost");
            ctx.violation(
                json!({"kind": "prior_quads_lost_or_changed_by_load", "format": f}),
                self.witness(json!({"prior_quads": o.before.quads.len(), "lost": lost.len(), "lost_sample": sample_quads(lost.iter().copied()), "lost_graphs": lost_graphs})),
            );
        }
        if o.after.graphs != exp.graphs && lost_graphs.is_empty() {
            causes.push("catalog_wrong");
            ctx.violation(
                json!({"kind": "named_graph_catalog_wrong_after_load", "format": f}),
                self.witness(json!({"catalog_missing": exp.graphs.difference(&o.after.graphs).collect::<Vec<_>>(), "catalog_unexpected": o.after.graphs.difference(&exp.graphs).collect::<Vec<_>>()})),
            );
        }
        let missing: BTreeSet<LQuad> = exp.quads.difference(&o.after.quads).filter(|q| !o.before.quads.contains(*q)).cloned().collect();
        let extra: BTreeSet<LQuad> = o.after.quads.difference(&exp.quads).cloned().collect();
        let observed = json!({"document_triples_missing": missing.len(), "missing_sample": sample_quads(missing.iter()), "unexpected_quads": extra.len(), "unexpected_sample": sample_quads(extra.iter()), "quads_before": o.before.quads.len(), "quads_after": o.after.quads.len(), "quads_expected": exp.quads.len(), "stored_quads_decoding_to_an_already_seen_lexical_quad": o.collapsed_after});
        if self.fmt == Fmt::N3 {
            causes.extend(self.attribute_n3(ctx, o, observed));
            return (false, causes);
        }
        if o.collapsed_after > 0 {
            causes.push("ids_not_injective");
            ctx.violation(json!({"kind": "distinct_stored_quads_decode_to_the_same_lexical_quad", "format": f}), self.witness(observed.clone()));
        }
        if !missing.is_empty() || !extra.is_empty() {
            let kind = match (missing.is_empty(), extra.is_empty()) {
                (false, true) => "document_triples_missing",
                (true, false) => "unexpected_quads_added",
                _ => "document_triples_missing_and_unexpected_quads_added",
            };
            let dep = self.depends_on();
            causes.push(kind);
            ctx.violation(json!({"kind": kind, "format": f, "depends_on": dep}), self.witness(observed));
        }
        (false, causes)
    }

    /// parse_n3: name which of the established mechanisms explain the difference.
    fn attribute_n3(&self, ctx: &mut Ctx, o: &Outcome, observed: Value) -> Vec<&'static str> {
        let doc = self.doc;
        let mut causes: Vec<&'static str> = vec![];
        let blocks = match isolated_blocks(Fmt::N3, doc, 1000) {
            Ok(b) => b,
            Err(e) => {
                ctx.violation(json!({"kind": "document_triples_wrong", "format": "n3", "cause": "unexplained_isolated_block_load_failed"}), self.witness(json!({"observed": observed, "error": e})));
                return vec!["unexplained"];
            }
        };
        let mut explained = false;
        let u: BTreeSet<LQuad> = blocks.iter().flat_map(|b| b.0.iter().cloned()).collect();
        // (a) the whole load against the sum of its parts
        let sum_of_parts: BTreeSet<LQuad> = o.before.quads.union(&u).cloned().collect();
        if o.after.quads != sum_of_parts || o.collapsed_after > 0 {
            let raw_parts: BTreeSet<RawQ> = blocks.iter().flat_map(|b| b.1.iter().copied()).collect();
            let predicted: BTreeSet<RawQ> = o.raw_before.union(&raw_parts).copied().collect();
            let trigger = match (o.dict_before == 0, doc.n_chunks() > 1) {
                (true, true) => "second_block_of_the_document",
                (false, false) => "non_empty_dictionary",
                (false, true) => "non_empty_dictionary_and_second_block",
                (true, false) => "none",
            };
            if predicted == o.raw_after {
                // every block alone loads to U_c, but the index of the target database received
                // exactly the id triples of the blocks' private dictionaries
                ctx.count(&format!("n3.cause_established.block_private_ids.trigger_{}", trigger), 1);
                causes.push("block_private_ids");
                ctx.violation(
                    json!({"kind": "document_triples_wrong", "format": "n3", "cause": "ids_of_block_private_dictionaries_inserted_into_shared_index"}),
                    self.witness(json!({"observed": observed, "trigger": trigger, "established_by": "each 1000-line block loaded alone into an empty database gives its triples; the id triples found in the target index equal the union of the id triples of those private loads, decoded through the target dictionary", "id_triples_added": o.raw_after.difference(&o.raw_before).count()})),
                );
            } else {
                causes.push("unexplained");
                ctx.violation(
                    json!({"kind": "document_triples_wrong", "format": "n3", "cause": "unexplained_whole_load_differs_from_sum_of_isolated_block_loads"}),
                    self.witness(json!({"observed": observed, "trigger": trigger, "note": "the 1000-line blocks loaded alone do not mirror what the loader did, so they are not used to name further causes for this load"})),
                );
                // the isolated blocks are not representative of this load: stop here
                return causes;
            }
            explained = true;
        }
        // (b) the parts against the document (the parts are representative: either the whole
        // load equals their sum, or the index holds exactly their private id triples)
        let e = doc.quad_set();
        if u == e {
            if !explained {
                causes.push("unexplained");
                ctx.violation(json!({"kind": "document_triples_wrong", "format": "n3", "cause": "unexplained"}), self.witness(observed));
            }
            return causes;
        }
        let u1 = map_terms(&u, &unquote);
        if u1 != u {
            let kept: Vec<&LQuad> = u.iter().filter(|q| !e.contains(*q) && e.contains(&(unquote(&q.0), unquote(&q.1), unquote(&q.2), q.3.clone()))).collect();
            if !kept.is_empty() {
                ctx.count("n3.cause_established.literal_quotes_kept", 1);
                causes.push("literal_quotes");
                ctx.violation(
                    json!({"kind": "document_triples_wrong", "format": "n3", "cause": "literal_stored_with_its_quotes"}),
                    self.witness(json!({"stored_sample": sample_quads(kept.iter().copied()), "triples_affected": kept.len(), "established_by": "blocks loaded alone into an empty database: removing the surrounding quotes from the stored term gives the document's triple"})),
                );
            }
        }
        let u2 = map_terms(&u1, &resolve_pname);
        if u2 != u1 {
            // which blocks left names unresolved, and where was the prefix declared
            let mut ok = true;
            let mut n_unresolved = 0usize;
            let mut sample = vec![];
            for (c, b) in blocks.iter().enumerate() {
                let lines = &doc.lines[c * 1000..((c + 1) * 1000).min(doc.lines.len())];
                // names written in this block before any declaration of their prefix inside the block
                let mut declared: BTreeSet<String> = BTreeSet::new();
                let mut undeclared_uses: BTreeSet<String> = BTreeSet::new();
                for l in lines {
                    let l = l.trim();
                    if let Some(rest) = l.strip_prefix("@prefix ") {
                        declared.insert(rest.split(':').next().unwrap_or("").trim().to_string());
                        continue;
                    }
                    for tok in l.split_whitespace() {
                        if resolve_pname(tok) != tok && !declared.contains(tok.split(':').next().unwrap_or("")) {
                            undeclared_uses.insert(tok.to_string());
                        }
                    }
                }
                for q in &b.0 {
                    for t in [&q.0, &q.1, &q.2] {
                        let t1 = unquote(t);
                        if resolve_pname(&t1) != t1 {
                            n_unresolved += 1;
                            let p = t1.split(':').next().unwrap_or("").to_string();
                            let declared_earlier = doc.lines[..c * 1000].iter().any(|l| l.trim_start().starts_with(&format!("@prefix {}:", p)));
                            if !undeclared_uses.contains(&t1) || !declared_earlier {
                                ok = false;
                            }
                            if sample.len() < 4 {
                                sample.push(format!("block {}: {}", c, t1));
                            }
                        }
                    }
                }
            }
            let cause = if ok { "prefix_declared_in_earlier_block_unknown_in_later_block" } else { "unexplained_prefixed_name_left_unresolved" };
            if ok {
                ctx.count("n3.cause_established.prefix_not_visible_in_later_block", 1);
                causes.push("prefix_visibility");
            } else {
                causes.push("unexplained");
            }
            ctx.violation(
                json!({"kind": "document_triples_wrong", "format": "n3", "cause": cause}),
                self.witness(json!({"unresolved_terms": n_unresolved, "sample": sample, "established_by": "blocks loaded alone: every name left unresolved is declared by an @prefix line of an earlier 1000-line block and is used in its own block before any declaration inside that block"})),
            );
        }
        if u2 != e {
            let miss: BTreeSet<LQuad> = e.difference(&u2).cloned().collect();
            let extra: BTreeSet<LQuad> = u2.difference(&e).cloned().collect();
            let straddle = doc.straddling();
            let mut cause = "unexplained_residual_after_quotes_and_prefixes";
            if !straddle.is_empty() && !miss.is_empty() && miss.is_subset(&straddle) {
                // the same triples, every statement on one line
                let j = doc.joined();
                if let Ok(bj) = isolated_blocks(Fmt::N3, &j, 1000) {
                    let uj: BTreeSet<LQuad> = bj.iter().flat_map(|b| b.0.iter().cloned()).collect();
                    if map_terms(&map_terms(&uj, &unquote), &resolve_pname) == e {
                        cause = "statement_spanning_two_blocks_is_cut";
                        ctx.count("n3.cause_established.statement_cut_at_block_boundary", 1);
                        causes.push("statement_cut");
                    }
                }
            }
            ctx.violation(
                json!({"kind": "document_triples_wrong", "format": "n3", "cause": cause}),
                self.witness(json!({"after_removing_quotes_and_resolving_names": true, "missing": miss.len(), "missing_sample": sample_quads(miss.iter()), "unexpected": extra.len(), "unexpected_sample": sample_quads(extra.iter()), "statements_spanning_two_blocks": doc.stmts.iter().filter(|s| s.first / 1000 != s.last / 1000).count(), "established_by": "all missing triples belong to statements written across a 1000-line boundary; the same triples with each statement on one line load completely"})),
            );
            if cause.starts_with("unexplained") {
                causes.push("unexplained");
            }
        }
        causes
    }
}

/// verify + the counters every load contributes to
fn checked(ctx: &mut Ctx, c: &Check, o: &Outcome) -> bool {
    let (ok, mut causes) = c.verify(ctx, o);
    let f = c.fmt.name();
    if ok {
        ctx.count(&format!("loads_correct.{}", f), 1);
    }
    if c.fmt == Fmt::N3 {
        causes.sort();
        causes.dedup();
        let verdict = if ok { "correct".to_string() } else { format!("wrong:{}", causes.join("+")) };
        let has_lit = c.doc.quads.iter().any(|q| !ds::is_iri(&q.2));
        ctx.count(&format!("n3_delimit.dictionary_{}.{}.{}.{}", if o.dict_before == 0 { "empty" } else { "nonempty" }, if c.doc.n_chunks() > 1 { "multi_block" } else { "single_block" }, if has_lit { "with_literals" } else { "iris_only" }, verdict), 1);
    }
    ok
}

fn report_fail(ctx: &mut Ctx, c: &Check, e: Fail) {
    match e {
        Fail::Panic(msg) => {
            // a panic on a worker thread loses its site: ask again on one thread
            let mut site = panic_site(&msg);
            let mut m = msg.clone();
            if site.is_empty() {
                if let Err(Fail::Panic(m1)) = run_load(c.build, c.fmt, &c.doc.text(), 1) {
                    site = panic_site(&m1);
                    m = m1;
                }
            }
            ctx.violation(json!({"kind": "panic", "format": c.fmt.name(), "site": site}), c.witness(json!({"panic": m})));
        }
        Fail::Snapshot(when, e) => {
            if when == "before" {
                ctx.inconclusive(&format!("prior database not decodable: {}", e));
            } else {
                ctx.violation(json!({"kind": "store_not_decodable_after_load", "format": c.fmt.name()}), c.witness(json!({"error": e})));
            }
        }
    }
}

// ---------------------------------------------------------------------------------------
// one complete case: document x prior x pools, then idempotence / history

struct Plan {
    fmt: Fmt,
    doc: Doc,
    prior: PriorKind,
    prior_seed: u64,
    pools: Vec<usize>,
}

fn size_pick(r: &mut Rng, fmt: Fmt, thorough: bool) -> usize {
    if fmt == Fmt::RdfXml {
        return match r.below(40) {
            0 => 0,
            1 => 1,
            2 => 2,
            3 if thorough => *r.pick(&[8191usize, 8192, 8193, 16384, 16385, 20000]),
            3 => *r.pick(&[8191usize, 8192, 8193]),
            4..=6 => r.range(200, 1500),
            _ => r.range(3, 120),
        };
    }
    match r.below(40) {
        0 => 0,
        1 => 1,
        2 => 2,
        3..=5 => *r.pick(&[999usize, 1000, 1001]),
        6 => *r.pick(&[1999usize, 2000, 2001]),
        7 if thorough => *r.pick(&[2999usize, 3000, 3001, 3500, 5000, 10001]),
        7 => r.range(1002, 1100),
        8..=10 => r.range(995, 1010),
        11..=14 => r.range(100, 900),
        _ => r.range(3, 90),
    }
}

fn run_plan(ctx: &mut Ctx, r: &mut Rng, p: &Plan, follow_up: bool) {
    let fmt = p.fmt;
    let f = fmt.name();
    let doc = &p.doc;
    let text = doc.text();
    let prior_name = p.prior.name();
    let build0 = || build_prior(p.prior, p.prior_seed, doc);
    ctx.count(&format!("documents.{}", f), 1);
    ctx.count(&format!("documents.{}.size_{}", f, doc.size_class()), 1);
    ctx.count(&format!("prior.{}", prior_name), 1);
    ctx.note("prefix_modes", &format!("{}:{:?}", f, doc.opts.prefix_mode));
    ctx.note("styles", &format!("{}:{:?}", f, doc.opts.style));
    ctx.max(&format!("max_document_units.{}", f), doc.units() as u64);
    ctx.max(&format!("max_loader_chunks.{}", f), doc.n_chunks() as u64);
    if doc.n_chunks() > 1 {
        ctx.count(&format!("documents_spanning_several_chunks.{}", f), 1);
    }
    if doc.quad_set().len() < doc.quads.len() {
        ctx.count("documents_with_internal_duplicates", 1);
    }
    if doc.stmts.iter().any(|s| s.first / 1000 != s.last / 1000) {
        ctx.count("documents_with_statement_across_block_boundary", 1);
    }
    let mut outs: Vec<(usize, Dataset)> = vec![];
    let mut first_ok: Option<bool> = None;
    for &t in &p.pools {
        let c = Check { fmt, doc, build: &build0, prior: prior_name.clone(), threads: t, step: "load" };
        ctx.add_evals(1);
        ctx.count(&format!("loads.threads_{}", t), 1);
        match run_load(&build0, fmt, &text, t) {
            Err(e) => {
                report_fail(ctx, &c, e);
                first_ok.get_or_insert(false);
            }
            Ok(o) => {
                if !doc.quads.is_empty() && (p.prior != PriorKind::Empty || doc.n_chunks() > 1 || t > 1) {
                    ctx.nontrivial(hash_str(&format!("{}|{}|{}|{}", f, prior_name, t, hash_str(&text))));
                }
                let dup_vs_prior = doc.quads.iter().filter(|q| o.before.quads.contains(*q)).count();
                if dup_vs_prior > 0 {
                    ctx.count("loads_with_document_triples_already_present", 1);
                }
                let ok = checked(ctx, &c, &o);
                first_ok.get_or_insert(ok);
                if ctx.wants_sample() && ok && !doc.quads.is_empty() && p.prior != PriorKind::Empty {
                    ctx.sample(json!({"document": doc.describe(), "prior": prior_name, "threads": t, "quads_before": o.before.quads.len(), "quads_after": o.after.quads.len(), "document_triples_already_present": dup_vs_prior}));
                }
                outs.push((t, o.after));
            }
        }
    }
    for w in outs.windows(2) {
        ctx.count("thread_count_pairs_compared", 1);
        if w[0].1 != w[1].1 {
            let a: Vec<&LQuad> = w[0].1.quads.difference(&w[1].1.quads).collect();
            let b: Vec<&LQuad> = w[1].1.quads.difference(&w[0].1.quads).collect();
            ctx.violation(
                json!({"kind": "result_differs_between_thread_counts", "format": f}),
                json!({"document": doc.describe(), "prior": prior_name, "threads_a": w[0].0, "threads_b": w[1].0, "only_a": sample_quads(a.iter().copied()), "only_b": sample_quads(b.iter().copied())}),
            );
        }
    }
    if !follow_up || first_ok != Some(true) {
        return;
    }
    // second load on top of the first one
    let t0 = p.pools[0];
    let build1 = || {
        let mut db = build0();
        pool(t0).install(|| load(&mut db, fmt, &text));
        db
    };
    let t = *r.pick(&POOL_SIZES);
    if r.coin() {
        // the same document again
        let c = Check { fmt, doc, build: &build1, prior: format!("{} + the same document", prior_name), threads: t, step: "same_document_again" };
        ctx.add_evals(1);
        ctx.count(&format!("idempotence_loads.{}", f), 1);
        match run_load(&build1, fmt, &text, t) {
            Err(e) => report_fail(ctx, &c, e),
            Ok(o) => {
                if checked(ctx, &c, &o) {
                    ctx.count("idempotence_held", 1);
                }
            }
        }
    } else {
        let f2 = *r.pick(&ALL_FMTS);
        let target = r.range(1, 60);
        // overlapping vocabulary: same generator parameters as the first document
        let tg = TermGen { n_ent: (doc.units() / 3).max(3), n_pred: 4, n_num: 6, n_word: 3, x_share: 2, hash_ns: false, spaced: false, hostile: false };
        let o2 = DocOpts::random(r, f2, target);
        let d2 = gen_doc(r, f2, &o2, &tg);
        let c = Check { fmt: f2, doc: &d2, build: &build1, prior: format!("{} + a {} document of {} units", prior_name, f, doc.units()), threads: t, step: "second_document_other_format" };
        ctx.add_evals(1);
        ctx.count(&format!("history_second_loads.{}_then_{}", f, f2.name()), 1);
        match run_load(&build1, f2, &d2.text(), t) {
            Err(e) => report_fail(ctx, &c, e),
            Ok(o) => {
                if checked(ctx, &c, &o) {
                    ctx.count("history_second_load_held", 1);
                }
            }
        }
    }
}

// ---------------------------------------------------------------------------------------
// N-Triples API variants that expose the parsed chunks

fn check_ntriples_api(ctx: &mut Ctx, doc: &Doc, threads: usize) {
    let text = doc.text();
    let want: Vec<(String, String, String)> = doc.quads.iter().map(|q| (q.0.clone(), q.1.clone(), q.2.clone())).collect();
    ctx.add_evals(2);
    let res = pool(threads).install(|| {
        guard(|| {
            let mut db = SparqlDatabase::new();
            db.dictionary.write().unwrap().encode("http://other/u0");
            let parts = db.parse_ntriples(&text);
            let enc = db.parse_and_encode_ntriples(&text);
            let dec: Vec<Option<(String, String, String)>> = enc.iter().map(|t| Some((db.decode_any(t.subject)?, db.decode_any(t.predicate)?, db.decode_any(t.object)?))).collect();
            let stored = db.dataset_index.all_quads().len();
            (parts, dec, stored)
        })
    });
    match res {
        Err(e) => ctx.violation(json!({"kind": "panic", "format": "ntriples", "api": "parse_ntriples", "site": panic_site(&e)}), json!({"document": doc.describe(), "panic": e})),
        Ok((parts, dec, stored)) => {
            ctx.count("ntriples_api.parse_ntriples_calls", 1);
            let sizes: Vec<usize> = parts.iter().map(|p| p.len()).collect();
            let flat: Vec<(String, String, String)> = parts.into_iter().flatten().collect();
            if flat != want {
                let at = flat.iter().zip(want.iter()).position(|(a, b)| a != b).unwrap_or(flat.len().min(want.len()));
                ctx.violation(
                    json!({"kind": "parsed_sequence_differs_from_document", "api": "parse_ntriples"}),
                    json!({"document": doc.describe(), "threads": threads, "returned": flat.len(), "written": want.len(), "first_difference_at_statement": at, "returned_there": format!("{:?}", flat.get(at)), "written_there": format!("{:?}", want.get(at)), "chunk_sizes": sizes}),
                );
            }
            let dec2: Vec<(String, String, String)> = dec.iter().cloned().flatten().collect();
            if dec2.len() != dec.len() || dec2 != want {
                ctx.violation(json!({"kind": "parsed_sequence_differs_from_document", "api": "parse_and_encode_ntriples"}), json!({"document": doc.describe(), "threads": threads, "returned": dec.len(), "decodable": dec2.len(), "written": want.len()}));
            }
            if stored != 0 {
                ctx.violation(json!({"kind": "parse_only_api_modified_the_store", "api": "parse_and_encode_ntriples"}), json!({"document": doc.describe(), "quads_in_store": stored}));
            }
        }
    }
}

// ---------------------------------------------------------------------------------------

fn run(ctx: &mut Ctx) {
    let thorough = ctx.thorough();
    witnesses(ctx);

    // ---- phase 1: the designed matrix of sizes around the chunk boundaries
    let line_sizes: Vec<usize> = if thorough { vec![0, 1, 2, 999, 1000, 1001, 1999, 2000, 2001, 3500, 2999, 3000, 3001, 5000, 10001] } else { vec![0, 1, 2, 999, 1000, 1001, 1999, 2000, 2001, 3500] };
    let xml_sizes: Vec<usize> = if thorough { vec![0, 1, 2, 8191, 8192, 8193, 16384, 16385, 20000, 40000] } else { vec![1, 8191, 8192, 8193, 20000] };
    let mut combos: Vec<(Fmt, usize)> = vec![];
    for &s in &line_sizes {
        for f in LINE_FMTS {
            // the sequential loaders get the boundary sizes once, the chunked ones always
            if f.chunk() == 0 && s > 1001 && !thorough && s != 2000 {
                continue;
            }
            combos.push((f, s));
        }
    }
    for &s in &xml_sizes {
        combos.push((Fmt::RdfXml, s));
    }
    let priors = [PriorKind::Empty, PriorKind::Populated, PriorKind::DictOverlap];
    let n_prior = ctx.by_tier(2usize, 3usize);
    let reps = ctx.by_tier(3u64, 12u64);
    ctx.phase("matrix", combos.len() as u64 * n_prior as u64 * reps);
    while let Some(k) = ctx.next_case() {
        let mut r = ctx.rng(k);
        // interleave so that the heavy documents are spread over the shards
        let idx = (k as usize) % (combos.len() * n_prior);
        let (fmt, size) = combos[idx / n_prior];
        let prior = priors[idx % n_prior];
        let mut tg = TermGen::for_size(&mut r, size);
        tg.hostile = matches!(fmt, Fmt::NTriples | Fmt::NQuads) && r.chance(1, 3);
        let mut o = DocOpts::random(&mut r, fmt, size);
        if size >= 999 && matches!(fmt, Fmt::Turtle | Fmt::N3) && o.prefix_mode == PrefixMode::None && r.coin() {
            o.prefix_mode = PrefixMode::TopOnly;
        }
        let doc = gen_doc(&mut r, fmt, &o, &tg);
        let other = POOL_SIZES[1 + (k as usize / 3) % 3];
        let pools = if doc.units() <= 2001 { vec![1, other] } else { vec![if r.coin() { 1 } else { other }] };
        let plan = Plan { fmt, doc, prior, prior_seed: r.next_u64(), pools };
        let follow = plan.doc.units() <= 2001;
        run_plan(ctx, &mut r, &plan, follow);
        if fmt == Fmt::NTriples {
            check_ntriples_api(ctx, &plan.doc, other);
        }
    }

    // ---- phase 2: random documents x random priors x pools
    ctx.phase("random", ctx.by_tier(4_500, 400_000));
    while let Some(k) = ctx.next_case() {
        if !ctx.within(0.8) {
            break;
        }
        let mut r = ctx.rng(k);
        let fmt = *r.pick(&[Fmt::NTriples, Fmt::NTriples, Fmt::NQuads, Fmt::Turtle, Fmt::Turtle, Fmt::N3, Fmt::N3, Fmt::RdfXml]);
        let size = size_pick(&mut r, fmt, thorough);
        let mut tg = TermGen::for_size(&mut r, size);
        tg.hostile = matches!(fmt, Fmt::NTriples | Fmt::NQuads) && r.chance(1, 3);
        let o = DocOpts::random(&mut r, fmt, size);
        let doc = gen_doc(&mut r, fmt, &o, &tg);
        let prior = PriorKind::random(&mut r);
        let pools: Vec<usize> = if doc.units() <= 120 {
            POOL_SIZES.to_vec()
        } else {
            let mut p = POOL_SIZES.to_vec();
            r.shuffle(&mut p);
            p.truncate(2);
            p
        };
        let plan = Plan { fmt, doc, prior, prior_seed: r.next_u64(), pools };
        run_plan(ctx, &mut r, &plan, true);
        if fmt == Fmt::NTriples && r.chance(1, 3) {
            check_ntriples_api(ctx, &plan.doc, *r.pick(&POOL_SIZES));
        }
    }

    // ---- phase 3: the same triples in every format
    ctx.phase("formats", ctx.by_tier(1_400, 80_000));
    while let Some(k) = ctx.next_case() {
        let mut r = ctx.rng(k);
        let n = match r.below(20) {
            0 => 0,
            1 => 1,
            2 => r.range(998, 1003),
            3 if thorough => r.range(1990, 2100),
            _ => r.range(2, 150),
        };
        let tg = TermGen::for_size(&mut r, n);
        let mut triples: Vec<(String, String, String)> = vec![];
        let mut subj = tg.ent(&mut r);
        for _ in 0..n {
            if r.chance(1, 3) {
                subj = tg.ent(&mut r);
            }
            if !triples.is_empty() && r.chance(1, 15) {
                let t = r.pick(&triples).clone();
                triples.push(t);
            } else {
                triples.push((subj.clone(), tg.pred(&mut r), tg.object(&mut r)));
            }
        }
        let prior = PriorKind::random(&mut r);
        let prior_seed = r.next_u64();
        let t = *r.pick(&POOL_SIZES);
        let mut results: Vec<(Fmt, bool, Dataset)> = vec![];
        for fmt in ALL_FMTS {
            let mut o = DocOpts::random(&mut r, fmt, n);
            o.comments = false;
            if o.style == Style::MultiLine {
                o.style = Style::Flat;
            }
            let doc = render_triples(&mut r, fmt, &triples, &o);
            // the prior is built from the N-Triples rendering for every format, so that all
            // formats start from the same database
            let nt = render_triples(&mut Rng::new(1), Fmt::NTriples, &triples, &o);
            let build = || build_prior(prior, prior_seed, &nt);
            let c = Check { fmt, doc: &doc, build: &build, prior: prior.name(), threads: t, step: "load" };
            ctx.add_evals(1);
            ctx.count(&format!("documents.{}", fmt.name()), 1);
            match run_load(&build, fmt, &doc.text(), t) {
                Err(e) => report_fail(ctx, &c, e),
                Ok(o) => {
                    let ok = checked(ctx, &c, &o);
                    if !triples.is_empty() && (prior != PriorKind::Empty || t > 1) {
                        ctx.nontrivial(hash_str(&format!("{}|{}|{}|{}", fmt.name(), prior.name(), t, hash_str(&doc.text()))));
                    }
                    results.push((fmt, ok, o.after));
                }
            }
        }
        for i in 0..results.len() {
            for j in i + 1..results.len() {
                if results[i].2 == results[j].2 {
                    ctx.count("format_pairs_loaded_identically", 1);
                } else {
                    ctx.count("format_pairs_loaded_differently", 1);
                    // at least one of the two differs from the oracle and has been reported with
                    // its own signature; two loads that both passed cannot differ
                    if results[i].1 && results[j].1 {
                        ctx.violation(json!({"kind": "formats_load_differently_although_both_match_the_oracle"}), json!({"a": results[i].0.name(), "b": results[j].0.name()}));
                    }
                }
            }
        }
        if ctx.wants_sample() && n > 0 {
            ctx.sample(json!({"triples": n, "prior": prior.name(), "threads": t, "formats_correct": results.iter().map(|x| format!("{}:{}", x.0.name(), x.1)).collect::<Vec<_>>(), "first_triples": triples.iter().take(3).map(|t| format!("{} {} {}", t.0, t.1, t.2)).collect::<Vec<_>>()}));
        }
    }

    // ---- phase 4: one term feature at a time, small documents, empty database, one thread
    ctx.phase("terms", ctx.by_tier(600, 20_000));
    while let Some(k) = ctx.next_case() {
        let mut r = ctx.rng(k);
        let feature = ["plain", "iri_with_fragment", "literal_with_inner_space"][(k % 3) as usize];
        let fmt = ALL_FMTS[((k / 3) % 5) as usize];
        let n = r.range(3, 40);
        let mut tg = TermGen::for_size(&mut r, n);
        tg.spaced = feature == "literal_with_inner_space";
        tg.hash_ns = feature == "iri_with_fragment";
        let mut o = DocOpts::random(&mut r, fmt, n);
        o.comments = false;
        if o.style == Style::MultiLine {
            o.style = Style::Grouped;
        }
        let doc = gen_doc(&mut r, fmt, &o, &tg);
        let has_feature = match feature {
            "iri_with_fragment" => doc.quads.iter().any(|q| [&q.0, &q.1, &q.2].iter().any(|t| t.starts_with(NS_H))),
            "literal_with_inner_space" => doc.quads.iter().any(|q| q.2.contains(' ')),
            _ => true,
        };
        // the same generator without the feature (base line for the attribution)
        let mut tg0 = tg.clone();
        tg0.spaced = false;
        tg0.hash_ns = false;
        let mut r0 = ctx.rng(k);
        let _ = (r0.range(3, 40), TermGen::for_size(&mut r0, n), DocOpts::random(&mut r0, fmt, n));
        let d0 = gen_doc(&mut r0, fmt, &o, &tg0);
        feature_check(ctx, fmt, &doc, &d0, feature, has_feature);
    }
}

/// One term feature in a small document, empty database, one thread. A failure is attributed
/// to the feature when the base document (same shape without the feature) loads correctly.
fn feature_check(ctx: &mut Ctx, fmt: Fmt, doc: &Doc, base: &Doc, feature: &'static str, has_feature: bool) {
    ctx.add_evals(1);
    ctx.count(&format!("term_feature_documents.{}.{}", feature, fmt.name()), 1);
    let build = SparqlDatabase::new;
    let c = Check { fmt, doc, build: &build, prior: "empty".into(), threads: 1, step: "load" };
    // literal quoting of N3 is reported by its own cause; look only at what the feature adds
    let norm = |d: &Dataset| -> BTreeSet<LQuad> { if fmt == Fmt::N3 { map_terms(&d.quads, &unquote) } else { d.quads.clone() } };
    match run_load(&build, fmt, &doc.text(), 1) {
        Err(e) => report_fail(ctx, &c, e),
        Ok(out) => {
            let exp = expected_after(&out.before, doc);
            if out.after == exp {
                ctx.count(&format!("term_feature_held.{}", feature), 1);
                if has_feature {
                    ctx.nontrivial(hash_str(&format!("terms|{}|{}", fmt.name(), hash_str(&doc.text()))));
                }
            } else if feature == "plain" || !has_feature || norm(&out.after) == exp.quads {
                checked(ctx, &c, &out);
            } else {
                let base_ok = matches!(run_load(&build, fmt, &base.text(), 1), Ok(b) if norm(&b.after) == expected_after(&b.before, base).quads);
                if base_ok {
                    let got = norm(&out.after);
                    let miss: Vec<&LQuad> = exp.quads.difference(&got).collect();
                    let extra: Vec<&LQuad> = got.difference(&exp.quads).collect();
                    ctx.count(&format!("term_feature_broken.{}.{}", feature, fmt.name()), 1);
                    ctx.violation(
                        json!({"kind": "term_not_loaded_as_written", "format": fmt.name(), "feature": feature}),
                        c.witness(json!({"missing": miss.len(), "missing_sample": sample_quads(miss.iter().copied()), "unexpected": extra.len(), "unexpected_sample": sample_quads(extra.iter().copied()), "established_by": "the same document without the feature loads correctly through this loader"})),
                    );
                } else {
                    checked(ctx, &c, &out);
                }
            }
        }
    }
}

// ---------------------------------------------------------------------------------------
// hand-written minimal documents (one per mechanism that the random phases found broken, and
// their counterparts for the other loaders): stable, small replay files

fn hand_doc(fmt: Fmt, lines: Vec<String>, triples: &[(&str, &str, &str)], stmts: Vec<(usize, usize, Vec<usize>)>) -> Doc {
    let o = DocOpts { target: lines.len(), prefix_mode: PrefixMode::None, style: Style::Flat, comments: false, crlf: false, trailing_newline: true, dup12: 0, compact: false, sparql_prefix: false };
    Doc { fmt, quads: triples.iter().map(|t| (t.0.to_string(), t.1.to_string(), t.2.to_string(), G::Default)).collect(), lines, stmts: stmts.into_iter().map(|(first, last, triples)| Stmt { first, last, triples }).collect(), opts: o }
}

fn filler(n: usize) -> Vec<String> {
    (0..n).map(|i| format!("# filler {}", i)).collect()
}

fn witnesses(ctx: &mut Ctx) {
    let a = ("http://k/a", "http://k/b", "http://k/c");
    let d = ("http://k/d", "http://k/e", "http://k/f");
    let nt = |t: &(&str, &str, &str)| format!("<{}> <{}> <{}> .", t.0, t.1, t.2);
    ctx.phase("witnesses", 2 * 6 + 3);
    while let Some(k) = ctx.next_case() {
        // every witness for N3 (k even) and for N-Triples resp. Turtle (k odd)
        let n3 = k % 2 == 0;
        let line_fmt = if n3 { Fmt::N3 } else { Fmt::NTriples };
        let pre_fmt = if n3 { Fmt::N3 } else { Fmt::Turtle };
        let mut r = ctx.rng(k);
        if k >= 12 {
            // an IRI with a fragment, the remaining three loaders
            let t = ("http://h.org/ns#a", "http://k/b", "http://k/c");
            let fmt = [Fmt::NQuads, Fmt::Turtle, Fmt::RdfXml][(k - 12) as usize];
            let o = DocOpts { target: 1, prefix_mode: PrefixMode::None, style: Style::Flat, comments: false, crlf: false, trailing_newline: true, dup12: 0, compact: false, sparql_prefix: false };
            let doc = render_triples(&mut r, fmt, &[(t.0.to_string(), t.1.to_string(), t.2.to_string())], &o);
            let base = render_triples(&mut r, fmt, &[(a.0.to_string(), a.1.to_string(), a.2.to_string())], &o);
            ctx.note("witnesses", &format!("{}:iri_with_fragment", fmt.name()));
            feature_check(ctx, fmt, &doc, &base, "iri_with_fragment", true);
            continue;
        }
        let (name, doc, prior): (&str, Doc, PriorKind) = match k / 2 {
            0 => ("one_triple_into_a_dictionary_holding_one_unrelated_term", hand_doc(line_fmt, vec![nt(&a)], &[a], vec![(0, 0, vec![0])]), PriorKind::DictOneTerm),
            1 => {
                let mut l = vec![nt(&a)];
                l.extend(filler(999));
                l.push(nt(&d));
                ("second_triple_on_line_1000_empty_database", hand_doc(line_fmt, l, &[a, d], vec![(0, 0, vec![0]), (1000, 1000, vec![1])]), PriorKind::Empty)
            }
            2 => ("one_literal_object_empty_database", hand_doc(line_fmt, vec!["<http://k/a> <http://k/b> \"x\" .".to_string()], &[("http://k/a", "http://k/b", "x")], vec![(0, 0, vec![0])]), PriorKind::Empty),
            3 => {
                let mut l = vec!["@prefix k: <http://k/> .".to_string()];
                l.extend(filler(999));
                l.push("k:a k:b k:c .".to_string());
                ("prefix_declared_on_line_0_used_on_line_1000", hand_doc(pre_fmt, l, &[a], vec![(1000, 1000, vec![0])]), PriorKind::Empty)
            }
            4 => {
                let mut l = filler(999);
                l.push("<http://k/a> <http://k/b> <http://k/c> ;".to_string());
                l.push("    <http://k/e> <http://k/f> .".to_string());
                if !n3 {
                    continue; // only N3 has multi-line statements in its subset
                }
                ("statement_on_lines_999_and_1000", hand_doc(Fmt::N3, l, &[a, ("http://k/a", "http://k/e", "http://k/f")], vec![(999, 1000, vec![0, 1])]), PriorKind::Empty)
            }
            _ => {
                let t = ("http://h.org/ns#a", "http://k/b", "http://k/c");
                let doc = hand_doc(line_fmt, vec![nt(&t)], &[t], vec![(0, 0, vec![0])]);
                let base = hand_doc(line_fmt, vec![nt(&a)], &[a], vec![(0, 0, vec![0])]);
                ctx.note("witnesses", &format!("{}:iri_with_fragment", line_fmt.name()));
                feature_check(ctx, line_fmt, &doc, &base, "iri_with_fragment", true);
                continue;
            }
        };
        ctx.note("witnesses", &format!("{}:{}", doc.fmt.name(), name));
        let plan = Plan { fmt: doc.fmt, doc, prior, prior_seed: 7, pools: vec![1] };
        run_plan(ctx, &mut r, &plan, false);
    }
}

fn main() {
    let mut spec = Spec::new("C13", "exploration", RULE);
    spec.assumptions = &[
        "M-TERM vocabulary: IRIs http://k/…, http://x.org/v/… (and http://h.org/ns#… in the terms phase), canonical integers, words w<n> optionally with one inner space; no blank nodes, no escapes, language tags or datatypes (escaping is C14's subject; blank nodes make the Turtle/N3 loaders print one stderr line per term)",
        "line-oriented subset: one statement per line (N3 additionally ';' statements over 2-3 lines), the final dot of an N3 statement is its own token, Turtle ',' and ';' lists on one line, prefix names k/x/h, RDF/XML with rdf:Description/rdf:about, property elements with text or rdf:resource, predicates in a declared namespace",
        "the expected triples are what the harness writer recorded while writing each line; no parser is involved in the oracle",
        "prior contents are never produced by parse_n3 (its dictionary damage would be blamed on the next loader); a second load after parse_n3 is only made when the first one was verified",
        "attribution re-runs (1000-line blocks loaded alone, statements re-rendered on one line, empty database, one thread) only choose the cause named in the signature, never the verdict",
        "parse_rdf uses its own crossbeam workers (one per CPU); the rayon pool size only affects its inner par_iter",
    ];
    spec.quick_budget_s = 40;
    spec.thorough_budget_s = 600;
    kvcore::run(spec, run);
}
