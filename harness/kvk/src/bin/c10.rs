//! C10 — Each firing of a continuous query sees exactly the current window, nothing older.
//!
//! Events: every call of the `ResultConsumer` of an `RSPEngine` built through `RSPBuilder`
//! (single window, RSTREAM / ISTREAM / DSTREAM, single-thread and multi-thread mode), put
//! into one totally ordered log together with the feeding calls of the main thread and the
//! `kolibrie::verif_hooks` yield points of the worker thread, so that the rows can be cut
//! into firings without looking at wall-clock time.
//!
//! Oracle (independent of the engine):
//!   * a PROBE window (`WindowRunner` with the same width / slide / report strategy, fed the
//!     same lexical items at the same timestamps, `flush()` where the engine is stopped)
//!     gives the content of every firing — the property is relative to what the window
//!     itself reports (C09 is about the window);
//!   * relation of firing i = naive nested-loop evaluation of the window BGP over
//!     content_i ∪ least fixpoint of the rules over content_i (`kvcore::mdatalog`, own term
//!     interner, no engine dictionary);
//!   * R2S relative to the previous firing's row set; rows inside one firing are a bag,
//!     firings are ordered.
//! Multi-thread runs are repeated under perturbed schedules (seeded sleeps / yields at the
//! hook sites and logical gates that force lockstep or a backlog of queued contents);
//! quiescence is logical (the worker has dropped its clone of the consumer = it has drained
//! the channel and left), a watchdog expiry is "inconclusive".
//!
//! Attribution: a failing run is compared with alternative store models (what the firing
//! would show if derived triples were evicted after loading, if raw content or derived
//! triples were not evicted …) and with restricted re-runs (no rules, RSTREAM, single-thread)
//! so that the signature names the established cause.

use kolibrie::rsp::s2r::{ContentContainer, ReportStrategy, Tick};
use kolibrie::rsp::window_runner::{WindowRunner, WindowSpec};
use kolibrie::rsp_engine::{OperationMode, QueryExecutionMode, RSPBuilder, RSPEngine, ResultConsumer, SimpleR2R};
use kolibrie::verif_hooks;
use kvcore::mdatalog::{least_model, Fact};
use kvcore::{guard, hash_str, json, panic_site, Ctx, Rng, Spec, Value};
use shared::rule::Rule;
use shared::terms::Term;
use shared::triple::Triple;
use std::collections::{BTreeMap, BTreeSet, HashSet};
use std::sync::atomic::{AtomicBool, AtomicUsize, Ordering};
use std::sync::{Arc, Condvar, Mutex};
use std::thread::{self, ThreadId};
use std::time::{Duration, Instant};

const RULE: &str = "one case = one input (window width 1-8 / slide 1-4 or none / report strategy, window BGP of 1-3 patterns, 0-3 rules given as N3 or as SPARQL RULE strings, in-order stream of 8-60 items over a small triple pool in which rule conclusions also arrive as raw items, fed through add or add_to_stream (with items sent to another stream in between), parse_data interleaved with feeding or done before, optional stop(), Volcano / Standard execution mode) driven through RSTREAM, ISTREAM and DSTREAM engines in single-thread mode and in multi-thread mode under perturbed schedules (7 / 170 schedules per operator: free, seeded sleeps and yields, lockstep gate, backlog gate, hold-all gate); phases overlap_exhaustive* enumerate ALL streams of a fixed length over a 3-triple pool and gaps {0,1,2} for each (rule set, width, slide, report strategy) block; phase scripted replays hand-written scenarios (DESIGN witness, the repository's ISTREAM/DSTREAM/reasoning tests). Non-trivial = an input whose probe reported at least two firings, with a triple present in two consecutive firings and a triple evicted between two firings, and for which the oracle emits at least one row; distinct by hash of the input.";

const RDF_TYPE: &str = "http://www.w3.org/1999/02/22-rdf-syntax-ns#type";
const NS: &str = "http://k/";
const WATCHDOG: Duration = Duration::from_secs(60);
const GATE_PATIENCE: Duration = Duration::from_secs(3);

// ---------------------------------------------------------------------------------------
// input description

type LT = (String, String, String);
type Row = BTreeMap<String, String>;

#[derive(Clone, Debug, PartialEq, Eq, Hash, PartialOrd, Ord)]
enum PT {
    V(String),
    C(String),
}
type Pat = (PT, PT, PT);

fn v(n: &str) -> PT {
    PT::V(n.to_string())
}
fn c(n: &str) -> PT {
    PT::C(n.to_string())
}
fn ent(i: usize) -> String {
    format!("{}e{}", NS, i)
}
fn cls(i: usize) -> String {
    format!("{}C{}", NS, i)
}
fn prop(i: usize) -> String {
    format!("{}p{}", NS, i)
}
fn lit(i: usize) -> String {
    format!("\"w{}\"", i)
}
fn is_lit(t: &str) -> bool {
    t.starts_with('"')
}
/// spelling of a constant in N-Triples, N3 rules and the query text
fn term_text(t: &str) -> String {
    if is_lit(t) {
        t.to_string()
    } else {
        format!("<{}>", t)
    }
}

#[derive(Clone, Debug)]
struct RuleSpec {
    kind: &'static str,
    prem: Vec<Pat>,
    concl: Vec<Pat>,
}

#[derive(Clone, Copy, Debug, PartialEq, Eq)]
enum Rep {
    /// no REPORT clause (the builder's default = ON_WINDOW_CLOSE)
    Default,
    Close,
    NonEmpty,
}

#[derive(Clone, Copy, Debug, PartialEq, Eq, PartialOrd, Ord)]
enum Op {
    R,
    I,
    D,
}
impl Op {
    fn name(self) -> &'static str {
        match self {
            Op::R => "RSTREAM",
            Op::I => "ISTREAM",
            Op::D => "DSTREAM",
        }
    }
}
const OPS: [Op; 3] = [Op::R, Op::I, Op::D];

#[derive(Clone, Debug)]
struct Input {
    width: usize,
    /// None = no STEP clause (slide = width)
    slide: Option<usize>,
    rep: Rep,
    /// width/slide written as ISO durations PT<n>S
    iso: bool,
    /// window declared ON :s1 and fed through add_to_stream, else ON ?stream and fed through add
    named_stream: bool,
    /// rdf:type written as `a` in the window block
    a_keyword: bool,
    /// `PREFIX k: <http://k/>` declared and vocabulary IRIs written as prefixed names in the
    /// query (and inside SPARQL RULE texts)
    prefixed: bool,
    patterns: Vec<Pat>,
    rules: Vec<RuleSpec>,
    items: Vec<(usize, LT)>,
    /// parallel to `items`: sent to ANOTHER stream (":s2") — only with named_stream; such an item
    /// must never be seen by the window (the probe does not get it)
    foreign: Vec<bool>,
    /// spelling of the stream name in add_to_stream
    feed_name: &'static str,
    /// rules given as SPARQL RULE strings (add_sparql_rules) instead of N3 (add_rules)
    sparql_rules: bool,
    /// QueryExecutionMode::Standard instead of Volcano (builder and SimpleR2R)
    standard_exec: bool,
    use_stop: bool,
    /// parse_data for all items before feeding (else interleaved with feeding, as the tests do)
    preparse: bool,
}

impl Input {
    fn slide_eff(&self) -> usize {
        self.slide.unwrap_or(self.width)
    }
    fn term(&self, cst: &str) -> String {
        if self.prefixed {
            if let Some(local) = cst.strip_prefix(NS) {
                if !local.is_empty() && local.chars().all(|ch| ch.is_ascii_alphanumeric()) {
                    return format!("k:{}", local);
                }
            }
        }
        term_text(cst)
    }
    fn pat_text(&self, p: &Pat) -> String {
        let t = |x: &PT, pred: bool| match x {
            PT::V(n) => format!("?{}", n),
            PT::C(cst) => {
                if pred && self.a_keyword && cst == RDF_TYPE {
                    "a".to_string()
                } else {
                    self.term(cst)
                }
            }
        };
        format!("{} {} {}", t(&p.0, false), t(&p.1, true), t(&p.2, false))
    }
    fn query_text(&self, op: Op) -> String {
        let d = |n: usize| if self.iso { format!("PT{}S", n) } else { n.to_string() };
        let mut spec = format!("RANGE {}", d(self.width));
        if let Some(s) = self.slide {
            spec.push_str(&format!(" STEP {}", d(s)));
        }
        match self.rep {
            Rep::Default => {}
            Rep::Close => spec.push_str(" REPORT ON_WINDOW_CLOSE"),
            Rep::NonEmpty => spec.push_str(" REPORT NON_EMPTY_CONTENT"),
        }
        let pats: Vec<String> = self.patterns.iter().map(|p| self.pat_text(p)).collect();
        format!(
            "{}REGISTER {} <http://k/out> AS\nSELECT *\nFROM NAMED WINDOW :w ON {} [{}]\nWHERE {{ WINDOW :w {{ {} . }} }}",
            if self.prefixed { "PREFIX k: <http://k/>\n" } else { "" },
            op.name(),
            if self.named_stream { ":s1" } else { "?stream" },
            spec,
            pats.join(" . ")
        )
    }
    fn rules_text(&self) -> String {
        // NOTE: no trailing " ." after a rule: SimpleR2R::load_rules stops at the first text
        // it cannot parse as a rule, and a lone dot is such a text.
        let t = |x: &PT| match x {
            PT::V(n) => format!("?{}", n),
            PT::C(cst) => term_text(cst),
        };
        let blk = |ps: &[Pat]| ps.iter().map(|p| format!("{} {} {}", t(&p.0), t(&p.1), t(&p.2))).collect::<Vec<_>>().join(" . ");
        self.rules.iter().map(|r| format!("{{ {} }} => {{ {} }}", blk(&r.prem), blk(&r.concl))).collect::<Vec<_>>().join("\n")
    }
    fn is_foreign(&self, j: usize) -> bool {
        self.named_stream && self.foreign.get(j).copied().unwrap_or(false)
    }
    fn remove_item(&mut self, j: usize) {
        self.items.remove(j);
        if j < self.foreign.len() {
            self.foreign.remove(j);
        }
    }
    fn sparql_rule_texts(&self) -> Vec<String> {
        let t = |x: &PT| match x {
            PT::V(n) => format!("?{}", n),
            PT::C(cst) => self.term(cst),
        };
        let blk = |ps: &[Pat]| ps.iter().map(|p| format!("{} {} {} .", t(&p.0), t(&p.1), t(&p.2))).collect::<Vec<_>>().join(" ");
        self.rules.iter().enumerate().map(|(i, r)| format!("{}RULE :R{} :-\nCONSTRUCT {{ {} }}\nWHERE {{ {} }} .", if self.prefixed { "PREFIX k: <http://k/>\n" } else { "" }, i, blk(&r.concl), blk(&r.prem))).collect()
    }
    fn to_json(&self) -> Value {
        json!({
            "query_rstream": self.query_text(Op::R),
            "rules": if self.sparql_rules { json!(self.sparql_rule_texts()) } else { json!(self.rules_text()) },
            "rules_route": if self.rules.is_empty() { "none" } else if self.sparql_rules { "add_sparql_rules" } else { "add_rules (N3)" },
            "rule_kinds": self.rules.iter().map(|r| r.kind).collect::<Vec<_>>(),
            "items": self.items.iter().enumerate().map(|(j, (ts, t))| format!("@{} {} {} {}{}", ts, short(&t.0), short(&t.1), short(&t.2), if self.is_foreign(j) { "  -> sent to stream :s2" } else { "" })).collect::<Vec<_>>(),
            "feed": if self.named_stream { format!("add_to_stream(\"{}\")", self.feed_name) } else { "add".to_string() },
            "query_execution_mode": if self.standard_exec { "Standard" } else { "Volcano" },
            "stop_called": self.use_stop,
            "parse_data_before_feeding": self.preparse,
        })
    }
}

fn short(t: &str) -> String {
    if t == RDF_TYPE {
        "a".to_string()
    } else {
        t.strip_prefix(NS).unwrap_or(t).to_string()
    }
}
fn short_row(r: &Row) -> String {
    r.iter().map(|(k, val)| format!("{}={}", k, short(val))).collect::<Vec<_>>().join(",")
}
fn short_rows(rs: &[Row]) -> Vec<String> {
    rs.iter().map(short_row).collect()
}
fn short_set(s: &BTreeSet<LT>) -> Vec<String> {
    s.iter().map(|t| format!("{} {} {}", short(&t.0), short(&t.1), short(&t.2))).collect()
}

// ---------------------------------------------------------------------------------------
// oracle

/// own term interner: the reference model never sees the engine's dictionary
#[derive(Default)]
struct Interner {
    map: BTreeMap<String, u32>,
    rev: Vec<String>,
}
impl Interner {
    fn id(&mut self, s: &str) -> u32 {
        if let Some(&i) = self.map.get(s) {
            return i;
        }
        let i = self.rev.len() as u32;
        self.map.insert(s.to_string(), i);
        self.rev.push(s.to_string());
        i
    }
}

struct Oracle {
    int: Interner,
    rules: Vec<Rule>,
    patterns: Vec<Pat>,
}

impl Oracle {
    fn new(input: &Input) -> Oracle {
        let mut int = Interner::default();
        let mut rules = vec![];
        for r in &input.rules {
            let mut conv = |p: &Pat| {
                let mut t = |x: &PT| match x {
                    PT::V(n) => Term::Variable(n.clone()),
                    PT::C(cst) => Term::Constant(int.id(cst)),
                };
                (t(&p.0), t(&p.1), t(&p.2))
            };
            rules.push(Rule { premise: r.prem.iter().map(&mut conv).collect(), negative_premise: vec![], filters: vec![], conclusion: r.concl.iter().map(&mut conv).collect() });
        }
        Oracle { int, rules, patterns: input.patterns.clone() }
    }
    /// content ∪ least fixpoint of the rules over content
    fn closure(&mut self, content: &BTreeSet<LT>) -> BTreeSet<LT> {
        if self.rules.is_empty() {
            return content.clone();
        }
        let facts: BTreeSet<Fact> = content.iter().map(|t| (self.int.id(&t.0), self.int.id(&t.1), self.int.id(&t.2))).collect();
        let rev = self.int.rev.clone();
        let m = least_model(&self.rules, &facts, &|id| rev.get(id as usize).cloned());
        m.facts.iter().map(|f| (rev[f.0 as usize].clone(), rev[f.1 as usize].clone(), rev[f.2 as usize].clone())).collect()
    }
    /// nested-loop BGP evaluation, all variables projected
    fn eval(&self, data: &BTreeSet<LT>) -> Vec<Row> {
        let mut cur: Vec<Row> = vec![Row::new()];
        for p in &self.patterns {
            let mut next = vec![];
            for row in &cur {
                for t in data {
                    let mut r2 = row.clone();
                    let mut ok = true;
                    for (pt, val) in [(&p.0, &t.0), (&p.1, &t.1), (&p.2, &t.2)] {
                        match pt {
                            PT::C(cst) => ok &= cst == val,
                            PT::V(n) => match r2.get(n) {
                                Some(b) => ok &= b == val,
                                None => {
                                    r2.insert(n.clone(), val.clone());
                                }
                            },
                        }
                        if !ok {
                            break;
                        }
                    }
                    if ok {
                        next.push(r2);
                    }
                }
            }
            cur = next;
        }
        // literals are reported without their quotes (untyped store, M-TERM): compare the bare lexical form
        let mut cur: Vec<Row> = cur.into_iter().map(|r| r.into_iter().map(|(k, val)| (k, norm(&val))).collect()).collect();
        cur.sort();
        cur
    }
    fn relation(&mut self, content: &BTreeSet<LT>) -> Vec<Row> {
        let d = self.closure(content);
        self.eval(&d)
    }
}

/// R2S relative to the previous firing's row SET; output bags sorted
fn r2s(op: Op, relations: &[Vec<Row>]) -> Vec<Vec<Row>> {
    let mut out = vec![];
    let mut prev: BTreeSet<Row> = BTreeSet::new();
    for rel in relations {
        let cur: BTreeSet<Row> = rel.iter().cloned().collect();
        let mut e: Vec<Row> = match op {
            Op::R => rel.clone(),
            Op::I => rel.iter().filter(|r| !prev.contains(*r)).cloned().collect(),
            Op::D => prev.iter().filter(|r| !cur.contains(*r)).cloned().collect(),
        };
        e.sort();
        out.push(e);
        prev = cur;
    }
    out
}

/// Alternative store models used only to NAME the cause of a deviation.
#[derive(Clone, Copy, PartialEq, Eq, Debug)]
enum DerivedEviction {
    BeforeLoad,
    AfterLoad,
    Never,
}
struct StoreModel {
    name: &'static str,
    evict_raw: bool,
    derived: DerivedEviction,
}
const ALT_MODELS: [StoreModel; 4] = [
    StoreModel { name: "raw_triple_equal_to_previously_derived_triple_evicted_by_materialize", evict_raw: true, derived: DerivedEviction::AfterLoad },
    StoreModel { name: "previous_window_content_not_evicted", evict_raw: false, derived: DerivedEviction::BeforeLoad },
    StoreModel { name: "previous_derived_triples_not_evicted", evict_raw: true, derived: DerivedEviction::Never },
    StoreModel { name: "previous_window_content_not_evicted+derived_evicted_after_load", evict_raw: false, derived: DerivedEviction::AfterLoad },
];
const REFERENCE_STORE: StoreModel = StoreModel { name: "reference", evict_raw: true, derived: DerivedEviction::BeforeLoad };

fn simulate(m: &StoreModel, or: &mut Oracle, contents: &[BTreeSet<LT>]) -> Vec<Vec<Row>> {
    let mut store: BTreeSet<LT> = BTreeSet::new();
    let mut prev_raw: BTreeSet<LT> = BTreeSet::new();
    let mut prev_derived: BTreeSet<LT> = BTreeSet::new();
    let mut out = vec![];
    for content in contents {
        if m.evict_raw {
            for t in &prev_raw {
                store.remove(t);
            }
        }
        prev_raw = content.clone();
        if m.derived == DerivedEviction::BeforeLoad {
            for t in &prev_derived {
                store.remove(t);
            }
        }
        store.extend(content.iter().cloned());
        if m.derived == DerivedEviction::AfterLoad {
            for t in &prev_derived {
                store.remove(t);
            }
        }
        let closed = or.closure(&store);
        prev_derived = if m.derived == DerivedEviction::Never { BTreeSet::new() } else { closed.difference(&store).cloned().collect() };
        store = closed;
        out.push(or.eval(&store));
    }
    out
}

// ---------------------------------------------------------------------------------------
// probe window

struct Firing {
    /// index of the feeding call that triggered it (items.len() = the flush of stop())
    call: usize,
    content: BTreeSet<LT>,
}

fn probe(input: &Input) -> Result<Vec<Firing>, String> {
    let strat = match input.rep {
        Rep::NonEmpty => ReportStrategy::NonEmptyContent,
        _ => ReportStrategy::OnWindowClose,
    };
    let spec = WindowSpec { width: input.width, slide: input.slide_eff(), report_strategies: vec![strat], tick: Tick::TimeDriven };
    let sink: Arc<Mutex<Vec<Firing>>> = Arc::new(Mutex::new(vec![]));
    let cur = Arc::new(AtomicUsize::new(0));
    let (s2, c2) = (sink.clone(), cur.clone());
    let items = input.items.clone();
    let foreign: Vec<bool> = (0..items.len()).map(|j| input.is_foreign(j)).collect();
    let use_stop = input.use_stop;
    guard(move || {
        let mut w: WindowRunner<LT> = WindowRunner::new(spec, "probe".to_string());
        w.register_callback(Box::new(move |cc: ContentContainer<LT>| {
            s2.lock().unwrap().push(Firing { call: c2.load(Ordering::SeqCst), content: cc.iter().cloned().collect() });
        }));
        for (j, (ts, t)) in items.iter().enumerate() {
            if foreign[j] {
                continue;
            }
            cur.store(j, Ordering::SeqCst);
            w.add_to_window(t.clone(), *ts);
        }
        if use_stop {
            cur.store(items.len(), Ordering::SeqCst);
            w.flush();
            w.stop();
        }
    })?;
    let mut g = sink.lock().unwrap();
    Ok(std::mem::take(&mut *g))
}

// ---------------------------------------------------------------------------------------
// schedules and the shared event log

#[derive(Clone, Debug, PartialEq)]
enum Sched {
    /// hooks only record
    Free,
    /// seeded sleeps (0-2 ms) / yields at the hook sites, chance in percent per thread
    Sleepy { p_main: usize, p_worker: usize },
    /// the main thread waits after a send (chance in percent) until the worker has processed
    /// everything sent so far
    Lockstep { p: usize },
    /// before each content the worker lets the main thread get 1..=ahead feeding calls ahead
    Backlog { ahead: usize },
    /// the worker is held at its first content until the feed is over (before or after the
    /// engine was dropped): every content is queued, then processed in one burst
    HoldAll { release_after_drop: bool },
}
impl Sched {
    fn kind(&self) -> &'static str {
        match self {
            Sched::Free => "free",
            Sched::Sleepy { .. } => "sleepy",
            Sched::Lockstep { .. } => "lockstep",
            Sched::Backlog { .. } => "backlog",
            Sched::HoldAll { release_after_drop: false } => "hold_all_until_fed",
            Sched::HoldAll { release_after_drop: true } => "hold_all_until_engine_dropped",
        }
    }
}

fn gen_sched(r: &mut Rng, i: usize) -> Sched {
    // the first schedules of an input are the structurally different ones
    match i {
        0 => Sched::Free,
        1 => Sched::HoldAll { release_after_drop: false },
        2 => Sched::Lockstep { p: 100 },
        3 => Sched::HoldAll { release_after_drop: true },
        _ => match r.weighted(&[2, 5, 3, 5, 1]) {
            0 => Sched::Free,
            1 => Sched::Sleepy { p_main: *r.pick(&[0, 10, 30, 60]), p_worker: *r.pick(&[0, 10, 30, 60]) },
            2 => Sched::Lockstep { p: *r.pick(&[30, 50, 80]) },
            3 => Sched::Backlog { ahead: r.range(1, 6) },
            _ => Sched::HoldAll { release_after_drop: r.coin() },
        },
    }
}

#[derive(Clone, Debug)]
enum Ev {
    Add(usize),
    Stop,
    Hook(&'static str, u8),
    Row(Vec<(String, String)>),
}

struct State {
    log: Vec<Ev>,
    sent: u64,
    before: u64,
    after: u64,
    coordinator: u64,
    main_adds: u64,
    feeding_done: bool,
    consumer_dropped: bool,
    max_backlog: u64,
    gates_abandoned: u64,
    threads: Vec<ThreadId>,
    rng_main: Rng,
    rng_worker: Rng,
    worker_target: Option<u64>,
}

struct Shared {
    st: Mutex<State>,
    cv: Condvar,
    sched: Sched,
    timed_out: AtomicBool,
}

impl Shared {
    fn new(sched: Sched, seed: u64) -> Arc<Shared> {
        Arc::new(Shared {
            st: Mutex::new(State {
                log: vec![],
                sent: 0,
                before: 0,
                after: 0,
                coordinator: 0,
                main_adds: 0,
                feeding_done: false,
                consumer_dropped: false,
                max_backlog: 0,
                gates_abandoned: 0,
                threads: vec![thread::current().id()],
                rng_main: Rng::derive(seed, "sched-main", 0),
                rng_worker: Rng::derive(seed, "sched-worker", 0),
                worker_target: None,
            }),
            cv: Condvar::new(),
            sched,
            timed_out: AtomicBool::new(false),
        })
    }
    fn update(&self, f: impl FnOnce(&mut State)) {
        let mut g = self.st.lock().unwrap();
        f(&mut g);
        drop(g);
        self.cv.notify_all();
    }
    /// logical wait; false = watchdog expired (the run is inconclusive)
    fn wait_until(&self, pred: impl Fn(&State) -> bool) -> bool {
        let deadline = Instant::now() + WATCHDOG;
        let mut g = self.st.lock().unwrap();
        loop {
            if pred(&g) {
                return true;
            }
            if self.timed_out.load(Ordering::SeqCst) {
                return false;
            }
            let now = Instant::now();
            if now >= deadline {
                self.timed_out.store(true, Ordering::SeqCst);
                drop(g);
                self.cv.notify_all();
                return false;
            }
            g = self.cv.wait_timeout(g, deadline - now).unwrap().0;
        }
    }
    /// schedule gate: like wait_until but gives up after GATE_PATIENCE without any verdict
    fn gate(&self, pred: impl Fn(&State) -> bool) -> bool {
        let deadline = Instant::now() + GATE_PATIENCE;
        let mut g = self.st.lock().unwrap();
        if g.gates_abandoned > 0 {
            return true; // one abandoned gate switches the gates of this run off
        }
        loop {
            if pred(&g) {
                return true;
            }
            let now = Instant::now();
            if now >= deadline || self.timed_out.load(Ordering::SeqCst) {
                return false;
            }
            g = self.cv.wait_timeout(g, deadline - now).unwrap().0;
        }
    }
    /// the callback installed into kolibrie::verif_hooks
    fn hook(&self, site: &'static str) {
        let me = thread::current().id();
        let mut nap: Option<Duration> = None;
        let mut do_yield = false;
        let mut gate: Option<u8> = None; // 1 = main waits for worker, 2 = worker waits for main progress, 3 = worker waits for end of feed
        {
            let mut g = self.st.lock().unwrap();
            let role = match g.threads.iter().position(|t| *t == me) {
                Some(i) => i as u8,
                None => {
                    g.threads.push(me);
                    (g.threads.len() - 1) as u8
                }
            };
            g.log.push(Ev::Hook(site, role));
            match site {
                "s2r.content_sent" => g.sent += 1,
                "worker.before_process" => {
                    g.before += 1;
                    let backlog = g.sent.saturating_sub(g.after);
                    if backlog > g.max_backlog {
                        g.max_backlog = backlog;
                    }
                }
                "worker.after_process" => g.after += 1,
                _ => g.coordinator += 1,
            }
            let is_main = role == 0;
            match &self.sched {
                Sched::Free => {}
                Sched::Sleepy { p_main, p_worker } => {
                    let p = if is_main { *p_main } else { *p_worker };
                    let rng = if is_main { &mut g.rng_main } else { &mut g.rng_worker };
                    if rng.chance(p, 100) {
                        nap = Some(Duration::from_micros(100 * rng.range(0, 20) as u64));
                    } else if rng.chance(1, 3) {
                        do_yield = true;
                    }
                }
                Sched::Lockstep { p } => {
                    if is_main && site == "s2r.content_sent" && g.rng_main.chance(*p, 100) {
                        gate = Some(1);
                    }
                }
                Sched::Backlog { ahead } => {
                    if !is_main && site == "worker.before_process" {
                        let k = g.rng_worker.range(1, *ahead) as u64;
                        g.worker_target = Some(g.main_adds + k);
                        gate = Some(2);
                    }
                }
                Sched::HoldAll { .. } => {
                    if !is_main && site == "worker.before_process" && g.before == 1 {
                        gate = Some(3);
                    }
                }
            }
        }
        self.cv.notify_all();
        if let Some(d) = nap {
            thread::sleep(d);
        }
        if do_yield {
            thread::yield_now();
        }
        // gates only shape the schedule: one that is not released (e.g. a worker that drops
        // contents never reaches "everything processed") is abandoned and counted, the verdict
        // comes from the end-of-run quiescence and the comparison
        let released = match gate {
            Some(1) => self.gate(|s| s.after >= s.sent),
            Some(2) => self.gate(|s| s.feeding_done || s.main_adds >= s.worker_target.unwrap_or(0)),
            Some(3) => self.gate(|s| s.feeding_done),
            _ => true,
        };
        if !released {
            self.update(|s| s.gates_abandoned += 1);
        }
    }
}

/// dropped when the last clone of the consumer closure is dropped, i.e. when the engine is
/// gone AND the worker thread has left its loop (after draining its channel) or died
struct DropSignal(Arc<Shared>);
impl Drop for DropSignal {
    fn drop(&mut self) {
        if let Ok(mut g) = self.0.st.lock() {
            g.consumer_dropped = true;
        }
        self.0.cv.notify_all();
    }
}

// ---------------------------------------------------------------------------------------
// one engine run

#[derive(Clone, Copy, PartialEq, Eq, Debug)]
enum Mode {
    Single,
    Multi,
}

#[derive(Default, Debug)]
struct Obs {
    /// emitted bag per probe firing (sorted)
    firings: Vec<Vec<Row>>,
    /// structural deviations: rows outside a firing, number of processed contents …
    structure: Vec<String>,
    panic: Option<String>,
    build_error: Option<String>,
    timed_out: bool,
    interleaving: u64,
    hook_counts: [u64; 4],
    max_backlog: u64,
    gates_abandoned: u64,
    worker_threads: usize,
}

fn norm(val: &str) -> String {
    if let Some(x) = val.strip_prefix('<').and_then(|x| x.strip_suffix('>')) {
        return x.to_string();
    }
    if let Some(x) = val.strip_prefix('"').and_then(|x| x.strip_suffix('"')) {
        return x.to_string();
    }
    val.to_string()
}
fn to_row(r: &[(String, String)]) -> Row {
    r.iter().map(|(k, val)| (k.trim_start_matches('?').to_string(), norm(val))).collect()
}

fn nt_line(t: &LT) -> String {
    format!("{} {} {} .", term_text(&t.0), term_text(&t.1), term_text(&t.2))
}

/// RSPBuilder prints its plans with println!: when a case is replayed in the foreground (no
/// worker process whose stdout is discarded) fd 1 is pointed at /dev/null while the engine runs.
static MUTE_ENGINE_STDOUT: AtomicBool = AtomicBool::new(false);
extern "C" {
    fn dup(fd: i32) -> i32;
    fn dup2(from: i32, to: i32) -> i32;
    fn close(fd: i32) -> i32;
    fn open(path: *const u8, flags: i32, ...) -> i32;
}
struct StdoutMute(i32);
impl StdoutMute {
    fn new() -> StdoutMute {
        if !MUTE_ENGINE_STDOUT.load(Ordering::SeqCst) {
            return StdoutMute(-1);
        }
        use std::io::Write;
        let _ = std::io::stdout().flush();
        // SAFETY: plain POSIX descriptor calls on descriptors owned by this function
        unsafe {
            let saved = dup(1);
            let null = open(b"/dev/null\0".as_ptr(), 1 /* O_WRONLY */);
            if saved >= 0 && null >= 0 {
                dup2(null, 1);
            }
            if null >= 0 {
                close(null);
            }
            StdoutMute(saved)
        }
    }
}
impl Drop for StdoutMute {
    fn drop(&mut self) {
        if self.0 >= 0 {
            use std::io::Write;
            let _ = std::io::stdout().flush();
            // SAFETY: restores the descriptor saved in new()
            unsafe {
                dup2(self.0, 1);
                close(self.0);
            }
        }
    }
}

fn run_engine(input: &Input, op: Op, mode: Mode, sched: Sched, sched_seed: u64, firings: &[Firing]) -> Obs {
    let _mute = StdoutMute::new();
    let sh = Shared::new(if mode == Mode::Single { Sched::Free } else { sched.clone() }, sched_seed);
    let hook_sh = sh.clone();
    verif_hooks::install(Arc::new(move |site| hook_sh.hook(site)));
    let query = input.query_text(op);
    let rules = input.rules_text();
    let sh2 = sh.clone();
    let input2 = input.clone();
    let release_after_drop = matches!(sched, Sched::HoldAll { release_after_drop: true });
    let res = guard(move || -> Result<(), String> {
        let sh = sh2;
        let input = input2;
        let sig = DropSignal(sh.clone());
        let csh = sh.clone();
        let exec = if input.standard_exec { QueryExecutionMode::Standard } else { QueryExecutionMode::Volcano };
        let consumer = ResultConsumer {
            function: Arc::new(move |r: Vec<(String, String)>| {
                let _keep = &sig;
                csh.update(|s| s.log.push(Ev::Row(r)));
            }),
        };
        let mut b: RSPBuilder<Triple, Vec<(String, String)>> = RSPBuilder::new()
            .add_rsp_ql_query(&query)
            .add_consumer(consumer)
            .add_r2r(Box::new(SimpleR2R::with_execution_mode(exec)))
            .set_query_execution_mode(exec)
            .set_operation_mode(if mode == Mode::Single { OperationMode::SingleThread } else { OperationMode::MultiThread });
        if !input.rules.is_empty() {
            if input.sparql_rules {
                b = b.add_sparql_rules(input.sparql_rule_texts());
            } else {
                b = b.add_rules(&rules);
            }
        }
        let mut engine: RSPEngine<Triple, Vec<(String, String)>> = b.build()?;
        let pre: Vec<Vec<Triple>> = if input.preparse { input.items.iter().map(|(_, t)| engine.parse_data(&nt_line(t))).collect() } else { vec![] };
        for (j, (ts, t)) in input.items.iter().enumerate() {
            sh.update(|s| {
                s.log.push(Ev::Add(j));
                s.main_adds += 1;
            });
            let ts_items = if input.preparse { pre[j].clone() } else { engine.parse_data(&nt_line(t)) };
            if ts_items.len() != 1 {
                return Err(format!("parse_data returned {} triples for one N-Triples line", ts_items.len()));
            }
            for tr in ts_items {
                if input.is_foreign(j) {
                    engine.add_to_stream(":s2", tr, *ts);
                } else if input.named_stream {
                    engine.add_to_stream(input.feed_name, tr, *ts);
                } else {
                    engine.add(tr, *ts);
                }
            }
        }
        if input.use_stop {
            sh.update(|s| s.log.push(Ev::Stop));
            engine.stop();
        }
        if !release_after_drop {
            sh.update(|s| s.feeding_done = true);
        }
        drop(engine);
        sh.update(|s| s.feeding_done = true);
        Ok(())
    });
    sh.update(|s| s.feeding_done = true);
    let mut obs = Obs::default();
    match res {
        Err(p) => obs.panic = Some(p),
        Ok(Err(e)) => obs.build_error = Some(e),
        Ok(Ok(())) => {}
    }
    // logical quiescence: every clone of the consumer is gone
    if !sh.wait_until(|s| s.consumer_dropped) {
        obs.timed_out = true;
    }
    verif_hooks::clear();
    let g = sh.st.lock().unwrap();
    obs.hook_counts = [g.sent, g.before, g.after, g.coordinator];
    obs.max_backlog = g.max_backlog;
    obs.gates_abandoned = g.gates_abandoned;
    obs.worker_threads = g.threads.len() - 1;
    let mut h = String::new();
    for e in &g.log {
        if let Ev::Hook(site, role) = e {
            h.push_str(&format!("{}{};", &site[..1], role));
        }
    }
    obs.interleaving = hash_str(&h);
    // cut the log into firings
    let n = firings.len();
    obs.firings = vec![vec![]; n];
    match mode {
        Mode::Single => {
            let by_call: BTreeMap<usize, usize> = firings.iter().enumerate().map(|(i, f)| (f.call, i)).collect();
            let mut call: Option<usize> = None;
            let mut stray = 0usize;
            for e in &g.log {
                match e {
                    Ev::Add(j) => call = Some(*j),
                    Ev::Stop => call = Some(input.items.len()),
                    Ev::Row(r) => match call.and_then(|cidx| by_call.get(&cidx)) {
                        Some(&i) => obs.firings[i].push(to_row(r)),
                        None => stray += 1,
                    },
                    Ev::Hook(..) => {}
                }
            }
            if stray > 0 {
                obs.structure.push(format!("rows_emitted_by_a_feeding_call_for_which_the_window_reported_nothing:{}", stray));
            }
            if g.before + g.after + g.sent > 0 {
                obs.structure.push("worker_hooks_fired_in_single_thread_mode".to_string());
            }
        }
        Mode::Multi => {
            let mut cur: Option<usize> = None;
            let mut k = 0usize;
            let mut stray = 0usize;
            for e in &g.log {
                match e {
                    Ev::Hook("worker.before_process", _) => {
                        cur = Some(k);
                        k += 1;
                    }
                    Ev::Hook("worker.after_process", _) => cur = None,
                    Ev::Row(r) => match cur {
                        Some(i) if i < n => obs.firings[i].push(to_row(r)),
                        _ => stray += 1,
                    },
                    _ => {}
                }
            }
            if stray > 0 {
                obs.structure.push(format!("rows_emitted_outside_the_processing_of_a_reported_content:{}", stray));
            }
            if obs.panic.is_none() && !obs.timed_out {
                if g.before != g.after {
                    obs.structure.push(format!("worker_left_while_processing_a_content:started={},finished={}", g.before, g.after));
                } else if g.after as usize != n {
                    obs.structure.push(format!("contents_processed_differs_from_contents_reported:processed={},reported={}", g.after, n));
                }
            }
        }
    }
    for f in obs.firings.iter_mut() {
        f.sort();
    }
    obs
}

fn first_diff(expected: &[Vec<Row>], got: &[Vec<Row>]) -> Option<(usize, Vec<Row>, Vec<Row>)> {
    for i in 0..expected.len().max(got.len()) {
        let e = expected.get(i).cloned().unwrap_or_default();
        let g = got.get(i).cloned().unwrap_or_default();
        if e != g {
            let mut missing = vec![];
            let mut extra = vec![];
            let mut gm = g.clone();
            for r in &e {
                if let Some(p) = gm.iter().position(|x| x == r) {
                    gm.remove(p);
                } else {
                    missing.push(r.clone());
                }
            }
            extra.extend(gm);
            return Some((i, missing, extra));
        }
    }
    None
}
fn direction(missing: &[Row], extra: &[Row]) -> &'static str {
    match (missing.is_empty(), extra.is_empty()) {
        (false, true) => "rows_missing",
        (true, false) => "rows_not_in_the_reference_emitted",
        _ => "rows_missing_and_foreign_rows",
    }
}

// ---------------------------------------------------------------------------------------
// checking one input

struct Expect {
    contents: Vec<BTreeSet<LT>>,
    relations: Vec<Vec<Row>>,
    emitted: BTreeMap<Op, Vec<Vec<Row>>>,
}

fn expect(input: &Input, firings: &[Firing]) -> Result<Expect, String> {
    let mut or = Oracle::new(input);
    let contents: Vec<BTreeSet<LT>> = firings.iter().map(|f| f.content.clone()).collect();
    let relations: Vec<Vec<Row>> = contents.iter().map(|cnt| or.relation(cnt)).collect();
    // self-check of the reference: the store formulation with correct evictions is the same relation
    if simulate(&REFERENCE_STORE, &mut or, &contents) != relations {
        return Err("oracle self-check failed: store formulation differs from the direct definition".to_string());
    }
    let mut emitted = BTreeMap::new();
    for op in OPS {
        emitted.insert(op, r2s(op, &relations));
    }
    Ok(Expect { contents, relations, emitted })
}

struct Checked {
    /// (signature, detail) pairs, at most one per (op, mode-run)
    violations: Vec<(Value, Value)>,
    inconclusive: Vec<String>,
    engine_runs: u64,
}

#[derive(Clone)]
struct Plan {
    /// schedules per operator
    schedules: usize,
    shrink: bool,
}

fn rows_total(x: &[Vec<Row>]) -> u64 {
    x.iter().map(|f| f.len() as u64).sum()
}

/// signatures whose witness was already minimised in this process (the runtime keeps the first
/// witness per signature only)
static SHRUNK: Mutex<BTreeSet<String>> = Mutex::new(BTreeSet::new());

/// probe + reference + the three single-thread runs of one input
struct SingleRuns {
    firings: Vec<Firing>,
    ex: Expect,
    runs: BTreeMap<Op, (bool, Obs)>,
}

fn agrees(obs: &Obs, expected: &[Vec<Row>]) -> bool {
    obs.panic.is_none() && obs.build_error.is_none() && obs.structure.is_empty() && obs.firings == expected
}

fn single_runs(input: &Input) -> Option<SingleRuns> {
    let firings = probe(input).ok()?;
    let ex = expect(input, &firings).ok()?;
    let mut runs = BTreeMap::new();
    for op in OPS {
        let obs = run_engine(input, op, Mode::Single, Sched::Free, 0, &firings);
        if obs.timed_out {
            return None;
        }
        runs.insert(op, (agrees(&obs, &ex.emitted[&op]), obs));
    }
    Some(SingleRuns { firings, ex, runs })
}

fn diff_detail(op: Op, obs: &Obs, ex: &Expect) -> (Value, &'static str) {
    match first_diff(&ex.emitted[&op], &obs.firings) {
        Some((i, missing, extra)) => (
            json!({
                "operator": op.name(),
                "first_differing_firing": i,
                "window_content_of_that_firing": ex.contents.get(i).map(short_set),
                "previous_window_content": if i > 0 { ex.contents.get(i - 1).map(short_set) } else { None },
                "expected_rows": ex.emitted[&op].get(i).map(|x| short_rows(x)),
                "emitted_rows": obs.firings.get(i).map(|x| short_rows(x)),
                "missing": short_rows(&missing),
                "not_expected": short_rows(&extra),
                "structure": obs.structure,
            }),
            direction(&missing, &extra),
        ),
        None => (json!({"operator": op.name(), "structure": obs.structure}), "none"),
    }
}

/// Name the cause(s) of the single-thread deviations of one input: (signature, detail) list,
/// empty when every operator agrees with the reference. Two stages are judged separately:
///  A. window dataset — the RSTREAM run shows the relation the engine computed at every firing;
///     if it deviates from the reference, the cause is named by the alternative store model(s)
///     that predict the WHOLE observed relation sequence (single-defect models first), else
///     "unexplained" with the direction and a restricted re-run without rules;
///  B. relation-to-stream — an ISTREAM / DSTREAM run that deviates from the reference AND from
///     the operator applied to the relations observed in the RSTREAM run of the same input.
fn attribute_input(input: &Input, sr: &SingleRuns) -> Vec<(Value, Value)> {
    let failing: Vec<Op> = OPS.iter().copied().filter(|op| !sr.runs[op].0).collect();
    if failing.is_empty() {
        return vec![];
    }
    for &op in &failing {
        let obs = &sr.runs[&op].1;
        if let Some(p) = &obs.panic {
            return vec![(json!({"kind": "panic", "mode": "single_thread", "site": panic_site(p)}), json!({"panic": p, "operator": op.name()}))];
        }
        if obs.build_error.is_some() {
            // reported as inconclusive by check_input: the generator left the accepted syntax
            return vec![];
        }
    }
    let names = json!(failing.iter().map(|o| o.name()).collect::<Vec<_>>());
    let mut out = vec![];
    for &op in &failing {
        if first_diff(&sr.ex.emitted[&op], &sr.runs[&op].1.firings).is_none() {
            let (d, _) = diff_detail(op, &sr.runs[&op].1, &sr.ex);
            out.push((json!({"kind": "consumer_called_outside_a_firing", "mode": "single_thread"}), d));
            return out;
        }
    }
    // ---- stage A
    let obs_r = &sr.runs[&Op::R].1;
    if !sr.runs[&Op::R].0 {
        let (mut d, dir) = diff_detail(Op::R, obs_r, &sr.ex);
        d["operators_deviating"] = names.clone();
        let mut or = Oracle::new(input);
        let matching = |or: &mut Oracle, ms: &[&StoreModel]| -> Vec<&'static str> { ms.iter().filter(|m| simulate(m, or, &sr.ex.contents) == obs_r.firings).map(|m| m.name).collect() };
        let mut causes = matching(&mut or, &[&ALT_MODELS[0], &ALT_MODELS[1], &ALT_MODELS[2]]);
        if causes.is_empty() {
            causes = matching(&mut or, &[&ALT_MODELS[3]]);
        }
        if !causes.is_empty() {
            d["explained_by_store_model"] = json!(causes);
            let cause = if causes.len() == 1 { json!(causes[0]) } else { json!(causes) };
            out.push((json!({"kind": "firing_output_differs_from_window_semantics", "stage": "window_dataset", "cause": cause}), d));
        } else {
            let mut only_with_rules = Value::Null;
            if !input.rules.is_empty() {
                let mut plain = input.clone();
                plain.rules.clear();
                if let Ok(f) = probe(&plain) {
                    if let Ok(ex) = expect(&plain, &f) {
                        let o = run_engine(&plain, Op::R, Mode::Single, Sched::Free, 0, &f);
                        only_with_rules = json!(agrees(&o, &ex.emitted[&Op::R]));
                    }
                }
            }
            d["agrees_when_rules_are_removed"] = only_with_rules.clone();
            out.push((json!({"kind": "firing_output_differs_from_window_semantics", "stage": "window_dataset", "cause": "unexplained", "relation": dir, "only_with_rules": only_with_rules}), d));
        }
    }
    // ---- stage B
    for op in [Op::I, Op::D] {
        if sr.runs[&op].0 {
            continue;
        }
        let from_observed = r2s(op, &obs_r.firings);
        if from_observed == sr.runs[&op].1.firings {
            continue; // consistent with the relations the engine computed: stage A says it all
        }
        let (mut d, _) = diff_detail(op, &sr.runs[&op].1, &sr.ex);
        let dir = match first_diff(&from_observed, &sr.runs[&op].1.firings) {
            Some((i, m, e)) => {
                d["relative_to_the_relations_observed_under_RSTREAM"] = json!({"first_differing_firing": i, "missing": short_rows(&m), "not_expected": short_rows(&e)});
                direction(&m, &e)
            }
            None => "none",
        };
        out.push((json!({"kind": "stream_operator_output_wrong", "stage": "relation_to_stream", "operator": op.name(), "direction": dir}), d));
    }
    out
}

/// greedy shrinking of a single-thread witness: remove items / rules / patterns while the
/// same signature is produced
fn shrink(input: &Input, sig: &Value, budget: &mut usize) -> Input {
    let mut best = input.clone();
    let same = |cand: &Input, budget: &mut usize| -> bool {
        if *budget == 0 {
            return false;
        }
        *budget -= 1;
        match single_runs(cand) {
            Some(sr) => attribute_input(cand, &sr).iter().any(|(s, _)| s == sig),
            None => false,
        }
    };
    loop {
        let mut progress = false;
        if best.use_stop {
            let mut cnd = best.clone();
            cnd.use_stop = false;
            if same(&cnd, budget) {
                best = cnd;
                progress = true;
            }
        }
        let mut i = 0;
        while i < best.items.len() {
            let mut cnd = best.clone();
            cnd.remove_item(i);
            if !cnd.items.is_empty() && same(&cnd, budget) {
                best = cnd;
                progress = true;
            } else {
                i += 1;
            }
        }
        let mut i = 0;
        while i < best.rules.len() {
            let mut cnd = best.clone();
            cnd.rules.remove(i);
            if same(&cnd, budget) {
                best = cnd;
                progress = true;
            } else {
                i += 1;
            }
        }
        let mut i = 0;
        while best.patterns.len() > 1 && i < best.patterns.len() {
            let mut cnd = best.clone();
            cnd.patterns.remove(i);
            if same(&cnd, budget) {
                best = cnd;
                progress = true;
            } else {
                i += 1;
            }
        }
        // smaller timestamps: close the gaps, then shift everything down
        let mut i = 1;
        while i < best.items.len() {
            if best.items[i].0 > best.items[i - 1].0 + 1 {
                let mut cnd = best.clone();
                for it in cnd.items[i..].iter_mut() {
                    it.0 -= 1;
                }
                if same(&cnd, budget) {
                    best = cnd;
                    progress = true;
                    continue;
                }
            }
            i += 1;
        }
        if let Some(&(t0, _)) = best.items.first() {
            if t0 > 1 {
                let mut cnd = best.clone();
                for it in cnd.items.iter_mut() {
                    it.0 -= t0 - 1;
                }
                if same(&cnd, budget) {
                    best = cnd;
                    progress = true;
                }
            }
        }
        if !progress || *budget == 0 {
            break;
        }
    }
    best
}

fn check_input(ctx: &mut Ctx, input: &Input, plan: &Plan, sched_rng: &mut Rng, label: &str) -> Checked {
    let mut out = Checked { violations: vec![], inconclusive: vec![], engine_runs: 0 };
    let ij = input.to_json();
    let firings = match probe(input) {
        Ok(f) => f,
        Err(e) => {
            out.violations.push((json!({"kind": "panic", "where": "probe_window", "site": panic_site(&e)}), json!({"input": ij, "panic": e})));
            return out;
        }
    };
    let ex = match expect(input, &firings) {
        Ok(e) => e,
        Err(e) => {
            out.inconclusive.push(e);
            return out;
        }
    };
    // ---- observations about the input itself
    let n = firings.len();
    ctx.count("firings_reported_by_probe", n as u64);
    ctx.max("max_firings_per_input", n as u64);
    ctx.note("report_strategy", match input.rep {
        Rep::Default => "default(ON_WINDOW_CLOSE)",
        Rep::Close => "ON_WINDOW_CLOSE",
        Rep::NonEmpty => "NON_EMPTY_CONTENT",
    });
    ctx.note("window_width", &format!("{:02}", input.width));
    ctx.note("window_slide", &format!("{:02}", input.slide_eff()));
    for r in &input.rules {
        ctx.note("rule_kinds", r.kind);
    }
    ctx.note("rules_per_input", &input.rules.len().to_string());
    if !input.rules.is_empty() {
        ctx.count(if input.sparql_rules { "inputs.rules_through_add_sparql_rules" } else { "inputs.rules_through_add_rules_n3" }, 1);
    }
    ctx.count(if input.standard_exec { "inputs.query_execution_mode_standard" } else { "inputs.query_execution_mode_volcano" }, 1);
    ctx.count(if input.named_stream { "inputs.fed_through_add_to_stream" } else { "inputs.fed_through_add" }, 1);
    ctx.count("items_sent_to_another_stream", (0..input.items.len()).filter(|j| input.is_foreign(*j)).count() as u64);
    ctx.count("inputs", 1);
    ctx.note("patterns_per_window_bgp", &input.patterns.len().to_string());
    let mut overlap = false;
    let mut evicted = false;
    let mut or = Oracle::new(input);
    let mut prev_derived: BTreeSet<LT> = BTreeSet::new();
    for i in 0..n {
        let cl = or.closure(&ex.contents[i]);
        let derived: BTreeSet<LT> = cl.difference(&ex.contents[i]).cloned().collect();
        if !derived.is_empty() {
            ctx.count("firings_with_derived_facts", 1);
        }
        if i > 0 {
            if ex.contents[i].intersection(&ex.contents[i - 1]).next().is_some() {
                overlap = true;
                ctx.count("firings_sharing_items_with_previous_firing", 1);
            }
            if ex.contents[i - 1].difference(&ex.contents[i]).next().is_some() {
                evicted = true;
                ctx.count("firings_after_an_eviction", 1);
            }
            if prev_derived.difference(&cl).next().is_some() {
                ctx.count("firings_where_a_previously_derived_fact_must_disappear", 1);
            }
            if prev_derived.intersection(&ex.contents[i]).next().is_some() {
                ctx.count("firings_where_a_raw_item_equals_a_previously_derived_fact", 1);
            }
        }
        prev_derived = derived;
    }
    if input.use_stop && firings.last().map(|f| f.call) == Some(input.items.len()) {
        ctx.count("firings_from_the_flush_of_stop", 1);
    }
    let rows_any: u64 = OPS.iter().map(|op| rows_total(&ex.emitted[op])).sum();
    if n >= 2 && overlap && evicted && rows_any > 0 {
        ctx.nontrivial(hash_str(&ij.to_string()));
    }
    if ctx.wants_sample() && n >= 2 && rows_any > 0 {
        ctx.sample(json!({"input": ij, "label": label, "firings": n, "expected_rows": {"RSTREAM": rows_total(&ex.emitted[&Op::R]), "ISTREAM": rows_total(&ex.emitted[&Op::I]), "DSTREAM": rows_total(&ex.emitted[&Op::D])}}));
    }

    // ---- single-thread runs
    let mut runs: BTreeMap<Op, (bool, Obs)> = BTreeMap::new();
    for op in OPS {
        let obs = run_engine(input, op, Mode::Single, Sched::Free, 0, &firings);
        out.engine_runs += 1;
        ctx.count(&format!("engine_runs.single_thread.{}", op.name()), 1);
        if obs.timed_out {
            out.inconclusive.push("watchdog expired in a single-thread run".to_string());
            return out;
        }
        ctx.count("firings_compared.single_thread", n as u64);
        ctx.count(&format!("rows_compared.{}", op.name()), rows_total(&ex.emitted[&op]));
        runs.insert(op, (agrees(&obs, &ex.emitted[&op]), obs));
    }
    if let Some(e) = runs.values().find_map(|(_, o)| o.build_error.clone()) {
        out.inconclusive.push(format!("RSPBuilder rejected a generated input ({}): {}", e, ij));
        return out;
    }
    let sr = SingleRuns { firings, ex, runs };
    for (sig, mut detail) in attribute_input(input, &sr) {
        detail["input"] = ij.clone();
        detail["mode"] = json!("single_thread");
        let first_time = SHRUNK.lock().unwrap().insert(sig.to_string());
        if plan.shrink && first_time && sig["kind"] != "panic" {
            let mut budget = 150usize;
            let small = shrink(input, &sig, &mut budget);
            out.engine_runs += 3 * (150 - budget) as u64;
            if let Some(sr2) = single_runs(&small) {
                if let Some((_, d2)) = attribute_input(&small, &sr2).into_iter().find(|(s2, _)| *s2 == sig) {
                    let op = OPS.iter().copied().find(|o| Some(o.name()) == d2["operator"].as_str()).unwrap_or(Op::R);
                    detail["minimised"] = json!({
                        "input": small.to_json(),
                        "window_content_per_firing": sr2.ex.contents.iter().map(short_set).collect::<Vec<_>>(),
                        "operator": op.name(),
                        "expected_per_firing": sr2.ex.emitted[&op].iter().map(|f| short_rows(f)).collect::<Vec<_>>(),
                        "emitted_per_firing": sr2.runs[&op].1.firings.iter().map(|f| short_rows(f)).collect::<Vec<_>>(),
                        "diff": d2,
                    });
                }
            }
        }
        out.violations.push((sig, detail));
    }
    let SingleRuns { firings, ex, runs: single } = sr;

    // ---- multi-thread runs under perturbed schedules
    let mut inter: HashSet<u64> = HashSet::new();
    for op in OPS {
        for si in 0..plan.schedules {
            let sched = gen_sched(sched_rng, si);
            let seed = sched_rng.next_u64();
            let obs = run_engine(input, op, Mode::Multi, sched.clone(), seed, &firings);
            out.engine_runs += 1;
            ctx.count(&format!("engine_runs.multi_thread.{}", op.name()), 1);
            ctx.count(&format!("schedules.{}", sched.kind()), 1);
            if obs.timed_out {
                out.inconclusive.push(format!("watchdog expired in a multi-thread run (schedule {:?})", sched));
                return out;
            }
            ctx.count("hook_events.s2r.content_sent", obs.hook_counts[0]);
            ctx.count("hook_events.worker.before_process", obs.hook_counts[1]);
            ctx.count("hook_events.worker.after_process", obs.hook_counts[2]);
            ctx.count("hook_events.coordinator", obs.hook_counts[3]);
            ctx.max("max_contents_queued_when_worker_starts_one", obs.max_backlog);
            ctx.count("schedule_gates_abandoned", obs.gates_abandoned);
            ctx.max("max_worker_threads_seen_in_a_run", obs.worker_threads as u64);
            ctx.count("firings_compared.multi_thread", n as u64);
            if inter.insert(obs.interleaving) {
                ctx.count("distinct_hook_event_orders_summed_over_inputs", 1);
            }
            let (st_ok, st_obs) = &single[&op];
            let ok = obs.panic.is_none() && obs.build_error.is_none() && obs.structure.is_empty() && obs.firings == ex.emitted[&op];
            if ok {
                continue;
            }
            if !*st_ok && obs.panic.is_none() && obs.structure.is_empty() && obs.firings == st_obs.firings {
                // same deviation as the single-thread run: reported there
                ctx.count("multi_thread_runs_repeating_the_single_thread_deviation", 1);
                continue;
            }
            let what = if let Some(p) = &obs.panic {
                format!("panic@{}", panic_site(p))
            } else if let Some(s) = obs.structure.first() {
                s.split(':').next().unwrap_or("").to_string()
            } else {
                "emitted_rows_differ".to_string()
            };
            let sig = json!({"kind": "multi_thread_output_differs_from_single_thread", "stage": "multi_thread_pipeline", "operator": op.name(), "what": what});
            let d = first_diff(&ex.emitted[&op], &obs.firings);
            let detail = json!({
                "input": ij, "operator": op.name(), "mode": "multi_thread", "schedule": format!("{:?}", sched), "schedule_seed": seed,
                "structure": obs.structure, "panic": obs.panic,
                "hook_counts[sent,before,after,coordinator]": obs.hook_counts, "single_thread_agrees_with_reference": st_ok,
                "first_differing_firing": d.as_ref().map(|x| x.0),
                "expected_rows": d.as_ref().map(|x| short_rows(&ex.emitted[&op][x.0.min(n.saturating_sub(1))])),
                "missing": d.as_ref().map(|x| short_rows(&x.1)), "not_expected": d.as_ref().map(|x| short_rows(&x.2)),
                "expected_per_firing": ex.emitted[&op].iter().map(|f| short_rows(f)).collect::<Vec<_>>(),
                "emitted_per_firing": obs.firings.iter().map(|f| short_rows(f)).collect::<Vec<_>>(),
            });
            out.violations.push((sig, detail));
        }
    }
    ctx.max("max_distinct_hook_event_orders_for_one_input", inter.len() as u64);
    let _ = &ex.relations;
    out
}

fn report(ctx: &mut Ctx, ch: Checked) -> bool {
    ctx.add_evals(ch.engine_runs);
    for (sig, detail) in ch.violations {
        ctx.violation(sig, detail);
    }
    let stop = !ch.inconclusive.is_empty();
    for w in ch.inconclusive {
        ctx.inconclusive(&w);
    }
    stop
}

// ---------------------------------------------------------------------------------------
// generators

fn ty() -> PT {
    c(RDF_TYPE)
}

fn gen_rule(r: &mut Rng, n_cls: usize, n_prop: usize) -> RuleSpec {
    let ci = r.below(n_cls);
    let mut cj = r.below(n_cls);
    if cj == ci {
        cj = (ci + 1) % n_cls;
    }
    let p = r.below(n_prop);
    let q = (p + 1 + r.below(n_prop.max(2) - 1)) % n_prop.max(2);
    match r.weighted(&[6, 3, 3, 3, 2, 3, 3, 2, 1, 2, 1]) {
        // variable predicates: in the conclusion too (a derived fact may then equal a raw item
        // of any predicate), or in the premise only
        9 => RuleSpec { kind: "symmetric_for_any_predicate", prem: vec![(v("x"), v("p"), v("y"))], concl: vec![(v("y"), v("p"), v("x"))] },
        10 => RuleSpec { kind: "any_predicate_to_property", prem: vec![(v("x"), v("p"), v("y"))], concl: vec![(v("x"), c(&prop(q)), v("y"))] },
        0 => RuleSpec { kind: "subclass", prem: vec![(v("x"), ty(), c(&cls(ci)))], concl: vec![(v("x"), ty(), c(&cls(cj)))] },
        1 => RuleSpec { kind: "domain", prem: vec![(v("x"), c(&prop(p)), v("y"))], concl: vec![(v("x"), ty(), c(&cls(ci)))] },
        2 => RuleSpec { kind: "range", prem: vec![(v("x"), c(&prop(p)), v("y"))], concl: vec![(v("y"), ty(), c(&cls(ci)))] },
        3 => RuleSpec { kind: "transitive", prem: vec![(v("x"), c(&prop(p)), v("y")), (v("y"), c(&prop(p)), v("z"))], concl: vec![(v("x"), c(&prop(p)), v("z"))] },
        4 => RuleSpec { kind: "symmetric", prem: vec![(v("x"), c(&prop(p)), v("y"))], concl: vec![(v("y"), c(&prop(p)), v("x"))] },
        5 => RuleSpec { kind: "subproperty", prem: vec![(v("x"), c(&prop(p)), v("y"))], concl: vec![(v("x"), c(&prop(q)), v("y"))] },
        6 => RuleSpec { kind: "class_and_property_join", prem: vec![(v("x"), ty(), c(&cls(ci))), (v("x"), c(&prop(p)), v("y"))], concl: vec![(v("y"), ty(), c(&cls(cj)))] },
        7 => RuleSpec { kind: "two_conclusions", prem: vec![(v("x"), c(&prop(p)), v("y"))], concl: vec![(v("x"), ty(), c(&cls(ci))), (v("y"), ty(), c(&cls(cj)))] },
        _ => RuleSpec { kind: "constant_conclusion", prem: vec![(v("x"), ty(), c(&cls(ci)))], concl: vec![(c(&ent(0)), ty(), c(&cls(cj)))] },
    }
}

fn instantiate(p: &Pat, r: &mut Rng, n_ent: usize) -> LT {
    let mut env: BTreeMap<String, String> = BTreeMap::new();
    let mut g = |x: &PT, r: &mut Rng| match x {
        PT::C(cst) => cst.clone(),
        PT::V(n) => env.entry(n.clone()).or_insert_with(|| if n == "p" { prop(r.below(2)) } else { ent(r.below(n_ent)) }).clone(),
    };
    (g(&p.0, r), g(&p.1, r), g(&p.2, r))
}

fn gen_input(r: &mut Rng, thorough: bool) -> Input {
    let n_ent = r.range(2, 4);
    let n_cls = r.range(2, 4);
    let n_prop = r.range(1, 3);
    let width = r.range(1, 8);
    let slide = if r.chance(1, 8) { None } else { Some(r.range(1, 4)) };
    let n_rules = r.weighted(&[2, 4, 4, 1]);
    let mut rules: Vec<RuleSpec> = (0..n_rules).map(|_| gen_rule(r, n_cls, n_prop)).collect();
    if n_rules >= 2 && r.chance(1, 3) {
        // a chain: derived facts feeding another rule
        rules[0] = RuleSpec { kind: "subclass", prem: vec![(v("x"), ty(), c(&cls(0)))], concl: vec![(v("x"), ty(), c(&cls(1)))] };
        rules[1] = RuleSpec { kind: "subclass_chain", prem: vec![(v("x"), ty(), c(&cls(1)))], concl: vec![(v("x"), ty(), c(&cls(2 % n_cls)))] };
    }
    // triple pool: base triples + instances of rule conclusions (so that a raw item can equal a derived fact)
    let mut pool: Vec<LT> = vec![];
    let n_base = r.range(3, 8);
    for _ in 0..n_base {
        let t = match r.below(10) {
            0..=3 => (ent(r.below(n_ent)), RDF_TYPE.to_string(), cls(r.below(n_cls))),
            4..=8 => (ent(r.below(n_ent)), prop(r.below(n_prop)), ent(r.below(n_ent))),
            _ => (ent(r.below(n_ent)), prop(r.below(n_prop)), lit(r.below(2))),
        };
        pool.push(t);
    }
    for rule in &rules {
        for _ in 0..r.range(1, 3) {
            let p = r.pick(&rule.prem).clone();
            pool.push(instantiate(&p, r, n_ent));
            let h = r.pick(&rule.concl).clone();
            pool.push(instantiate(&h, r, n_ent));
        }
    }
    pool.sort();
    pool.dedup();
    // stream
    let n_items = if thorough { r.range(10, 60) } else { r.range(8, 40) };
    let s_eff = slide.unwrap_or(width);
    let gap_hi = match r.below(4) {
        0 => 1,
        1 => s_eff,
        2 => s_eff + 1,
        _ => width + 2,
    };
    let mut ts = r.range(0, 3);
    let mut items = vec![];
    for _ in 0..n_items {
        let gap = if r.chance(1, 4) { 0 } else { r.range(0, gap_hi) };
        ts += gap;
        items.push((ts, r.pick(&pool).clone()));
    }
    // window BGP
    let head_cls: Vec<String> = rules.iter().flat_map(|x| x.concl.iter()).filter_map(|p| if p.1 == ty() { if let PT::C(k) = &p.2 { Some(k.clone()) } else { None } } else { None }).collect();
    let head_prop: Vec<String> = rules.iter().flat_map(|x| x.concl.iter()).filter_map(|p| if p.1 != ty() { if let PT::C(k) = &p.1 { Some(k.clone()) } else { None } } else { None }).collect();
    let pick_cls = |r: &mut Rng| if !head_cls.is_empty() && r.chance(2, 3) { r.pick(&head_cls).clone() } else { cls(r.below(n_cls)) };
    let pick_prop = |r: &mut Rng| if !head_prop.is_empty() && r.chance(2, 3) { r.pick(&head_prop).clone() } else { prop(r.below(n_prop)) };
    let patterns: Vec<Pat> = match r.weighted(&[5, 5, 2, 2, 2, 4, 3, 2, 2, 1]) {
        0 => vec![(v("s"), ty(), c(&pick_cls(r)))],
        1 => vec![(v("s"), c(&pick_prop(r)), v("o"))],
        2 => vec![(v("s"), ty(), v("c"))],
        3 => vec![(v("s"), v("p"), v("o"))],
        4 => {
            if r.coin() {
                vec![(c(&ent(r.below(n_ent))), c(&pick_prop(r)), v("o"))]
            } else {
                vec![(v("s"), c(&pick_prop(r)), c(&ent(r.below(n_ent))))]
            }
        }
        5 => vec![(v("s"), ty(), c(&pick_cls(r))), (v("s"), c(&pick_prop(r)), v("o"))],
        6 => vec![(v("s"), c(&pick_prop(r)), v("o")), (v("o"), ty(), c(&pick_cls(r)))],
        7 => vec![(v("s"), c(&pick_prop(r)), v("o")), (v("o"), c(&pick_prop(r)), v("z"))],
        8 => vec![(v("s"), ty(), c(&pick_cls(r))), (v("s"), ty(), c(&pick_cls(r)))],
        _ => vec![(v("s"), ty(), c(&pick_cls(r))), (v("s"), c(&pick_prop(r)), v("o")), (v("o"), ty(), v("c"))],
    };
    let named_stream = r.chance(1, 3);
    let p_foreign = if named_stream && r.coin() { 25 } else { 0 };
    let foreign: Vec<bool> = (0..items.len()).map(|_| r.chance(p_foreign, 100)).collect();
    Input {
        width,
        slide,
        rep: *r.pick(&[Rep::Default, Rep::Default, Rep::Close, Rep::NonEmpty, Rep::NonEmpty]),
        iso: r.chance(1, 6),
        named_stream,
        foreign,
        feed_name: if r.coin() { ":s1" } else { "s1" },
        // the SPARQL RULE syntax accepts one CONSTRUCT triple only
        sparql_rules: r.chance(1, 4) && rules.iter().all(|x| x.concl.len() == 1),
        standard_exec: r.chance(1, 4),
        a_keyword: r.coin(),
        prefixed: r.coin(),
        patterns,
        rules,
        items,
        use_stop: r.chance(2, 5),
        preparse: r.chance(1, 3),
    }
}

// ---------------------------------------------------------------------------------------
// phases

fn scripted_inputs() -> Vec<(&'static str, Input)> {
    let base = Input { width: 2, slide: Some(1), rep: Rep::Default, iso: false, named_stream: false, foreign: vec![], feed_name: ":s1", sparql_rules: false, standard_exec: false, a_keyword: true, prefixed: false, patterns: vec![], rules: vec![], items: vec![], use_stop: false, preparse: false };
    let sub = cls(0);
    let sup = cls(1);
    let t = |s: usize, k: &str| (ent(s), RDF_TYPE.to_string(), k.to_string());
    let mut v_ = vec![];
    // DESIGN.md witness: rule Sub => Super, RANGE 2 STEP 1, `x a Sub`@1, `x a Super`@3
    v_.push((
        "design_witness_raw_equals_previously_derived",
        Input {
            patterns: vec![(v("s"), ty(), c(&sup))],
            rules: vec![RuleSpec { kind: "subclass", prem: vec![(v("x"), ty(), c(&sub))], concl: vec![(v("x"), ty(), c(&sup))] }],
            items: vec![(1, t(0, &sub)), (3, t(0, &sup)), (4, t(1, &cls(2))), (5, t(1, &cls(2))), (6, t(1, &cls(2)))],
            ..base.clone()
        },
    ));
    // the repository's rsp_ql_dstream_semantics / rsp_ql_istream_semantics scenario (RANGE 3 STEP 1, A..F at 1..6)
    v_.push((
        "repo_test_rsp_ql_dstream_semantics_scenario",
        Input { width: 3, patterns: vec![(v("s"), ty(), c(&sub))], items: (1..=6).map(|i| (i, t(i, &sub))).collect(), ..base.clone() },
    ));
    // the repository's rsp_ql_reasoning_derives_types scenario (RANGE 10 STEP 1, domain rule, stop())
    v_.push((
        "repo_test_rsp_ql_reasoning_derives_types_scenario",
        Input {
            width: 10,
            patterns: vec![(v("s"), ty(), c(&sup))],
            rules: vec![RuleSpec { kind: "domain", prem: vec![(v("s"), c(&prop(0)), v("v"))], concl: vec![(v("s"), ty(), c(&sup))] }],
            items: vec![(1, (ent(1), prop(0), lit(1))), (2, (ent(2), prop(0), lit(2)))],
            use_stop: true,
            ..base.clone()
        },
    ));
    // derived fact must disappear when its support is evicted, raw copy arriving while support present
    v_.push((
        "support_evicted_while_raw_copy_stays",
        Input {
            width: 3,
            patterns: vec![(v("s"), ty(), v("c"))],
            rules: vec![RuleSpec { kind: "subclass", prem: vec![(v("x"), ty(), c(&sub))], concl: vec![(v("x"), ty(), c(&sup))] }],
            items: vec![(1, t(0, &sub)), (2, t(0, &sup)), (3, t(1, &sub)), (4, t(0, &sup)), (5, t(1, &sub)), (7, t(2, &sub)), (9, t(2, &sup)), (12, t(0, &sub))],
            use_stop: true,
            ..base.clone()
        },
    ));
    // transitive closure over a sliding window
    v_.push((
        "transitive_chain_sliding",
        Input {
            width: 3,
            patterns: vec![(v("s"), c(&prop(0)), v("o"))],
            rules: vec![RuleSpec { kind: "transitive", prem: vec![(v("x"), c(&prop(0)), v("y")), (v("y"), c(&prop(0)), v("z"))], concl: vec![(v("x"), c(&prop(0)), v("z"))] }],
            items: vec![(1, (ent(0), prop(0), ent(1))), (2, (ent(1), prop(0), ent(2))), (3, (ent(2), prop(0), ent(3))), (4, (ent(0), prop(0), ent(2))), (5, (ent(3), prop(0), ent(0))), (6, (ent(0), prop(0), ent(3))), (8, (ent(1), prop(0), ent(2))), (9, (ent(0), prop(0), ent(1)))],
            use_stop: false,
            ..base.clone()
        },
    ));
    v_
}

fn scripted(ctx: &mut Ctx) {
    let ins = scripted_inputs();
    ctx.phase("scripted", ins.len() as u64);
    while let Some(k) = ctx.next_case() {
        let (label, input) = &ins[k as usize];
        let mut sr = ctx.rng_labeled("sched", k);
        let plan = Plan { schedules: ctx.by_tier(8, 40), shrink: true };
        let ch = check_input(ctx, input, &plan, &mut sr, label);
        let clean = ch.violations.is_empty();
        ctx.note("scripted_scenarios", &format!("{}: {}", label, if clean { "engine agrees with the reference in every operator, mode and schedule" } else { "DEVIATION (see violations)" }));
        if *label == "repo_test_rsp_ql_dstream_semantics_scenario" {
            // what the reference says about the scenario of the failing repository test
            if let Ok(f) = probe(input) {
                if let Ok(ex) = expect(input, &f) {
                    ctx.note("scripted_scenarios", &format!("{}: reference DSTREAM emits {} rows over {} firings (the repository test asserts 1 row); window contents {:?}", label, rows_total(&ex.emitted[&Op::D]), f.len(), ex.contents.iter().map(short_set).collect::<Vec<_>>()));
                }
            }
        }
        if report(ctx, ch) {
            return;
        }
    }
}

/// rule set / pool / query variants of the exhaustive phase
fn exhaustive_variant(i: usize) -> (&'static str, Vec<RuleSpec>, Vec<LT>, Vec<Pat>) {
    let (sub, mid, sup) = (cls(0), cls(1), cls(2));
    let t = |s: usize, k: &str| (ent(s), RDF_TYPE.to_string(), k.to_string());
    let sc = |a: &str, b: &str| RuleSpec { kind: "subclass", prem: vec![(v("x"), ty(), c(a))], concl: vec![(v("x"), ty(), c(b))] };
    match i {
        0 => ("subclass", vec![sc(&sub, &sup)], vec![t(0, &sub), t(0, &sup), t(1, &sub)], vec![(v("s"), ty(), c(&sup))]),
        1 => (
            "transitive",
            vec![RuleSpec { kind: "transitive", prem: vec![(v("x"), c(&prop(0)), v("y")), (v("y"), c(&prop(0)), v("z"))], concl: vec![(v("x"), c(&prop(0)), v("z"))] }],
            vec![(ent(0), prop(0), ent(1)), (ent(1), prop(0), ent(2)), (ent(0), prop(0), ent(2))],
            vec![(v("s"), c(&prop(0)), v("o"))],
        ),
        2 => ("subclass_chain", vec![sc(&sub, &mid), sc(&mid, &sup)], vec![t(0, &sub), t(0, &mid), t(0, &sup)], vec![(v("s"), ty(), v("c"))]),
        _ => ("no_rules_join", vec![], vec![t(0, &sub), t(1, &sub), (ent(0), prop(0), ent(1))], vec![(v("s"), ty(), c(&sub)), (v("s"), c(&prop(0)), v("o"))]),
    }
}

/// blocks: (variant 0..4, width 1..=3, slide 1..=2, report strategy) — `subset` keeps the blocks
/// in which items stay in the window across several firings (subclass / subclass chain,
/// width 2..3, slide 1)
fn overlap_exhaustive(ctx: &mut Ctx, name: &str, len: usize, subset: bool, share: f64) {
    let mut blocks: Vec<(usize, usize, usize, Rep)> = vec![];
    for rep in [Rep::Close, Rep::NonEmpty] {
        for slide in 1..=2usize {
            for width in 1..=3usize {
                for variant in 0..4usize {
                    if !subset || ((variant == 0 || variant == 2) && width >= 2 && slide == 1) {
                        blocks.push((variant, width, slide, rep));
                    }
                }
            }
        }
    }
    ctx.phase(name, blocks.len() as u64);
    ctx.note("exhaustive_sub_spaces", &format!("{}: {} blocks ({}) x ALL streams of {} items over a 3-triple pool with gaps in {{0,1,2}} (first item at 1), stop() called, x 3 operators in single-thread mode; every 9th stream also in multi-thread mode under 2 schedules per operator", name, blocks.len(), if subset { "rule variants subclass / subclass_chain x width 2..3 x slide 1 x {ON_WINDOW_CLOSE, NON_EMPTY_CONTENT}" } else { "4 rule/pool/query variants x width 1..3 x slide 1..2 x {ON_WINDOW_CLOSE, NON_EMPTY_CONTENT}" }, len));
    while let Some(k) = ctx.next_case() {
        let (variant, width, slide, rep) = blocks[k as usize];
        let (vname, rules, pool, patterns) = exhaustive_variant(variant);
        let n_streams = 3usize.pow(len as u32) * 3usize.pow(len as u32 - 1);
        let mut sr = ctx.rng_labeled("sched", k);
        let mut done = 0usize;
        for code in 0..n_streams {
            if !ctx.within(share) {
                ctx.count(&format!("{}.blocks_cut_short_by_budget", name), 1);
                break;
            }
            let mut x = code;
            let mut items = vec![];
            let mut ts = 1usize;
            for j in 0..len {
                let it = x % 3;
                x /= 3;
                if j > 0 {
                    ts += x % 3;
                    x /= 3;
                }
                items.push((ts, pool[it].clone()));
            }
            let input = Input { width, slide: Some(slide), rep, iso: false, named_stream: false, foreign: vec![], feed_name: ":s1", sparql_rules: false, standard_exec: false, a_keyword: false, prefixed: false, patterns: patterns.clone(), rules: rules.clone(), items, use_stop: true, preparse: false };
            let plan = Plan { schedules: if code % 9 == 4 { 2 } else { 0 }, shrink: true };
            let ch = check_input(ctx, &input, &plan, &mut sr, vname);
            done += 1;
            if report(ctx, ch) {
                return;
            }
        }
        ctx.count(&format!("{}.streams_enumerated", name), done as u64);
        if done == n_streams {
            ctx.count(&format!("{}.blocks_completed", name), 1);
        }
    }
}

fn random(ctx: &mut Ctx) {
    let total = ctx.by_tier(1_200, 6_000);
    let schedules = ctx.by_tier(7usize, 170usize); // per operator: 3 x 7 = 21 / 3 x 170 = 510 schedules per input
    ctx.phase("random", total);
    while let Some(k) = ctx.next_case() {
        let mut r = ctx.rng(k);
        let input = gen_input(&mut r, ctx.thorough());
        let mut sr = ctx.rng_labeled("sched", k);
        let plan = Plan { schedules, shrink: true };
        let ch = check_input(ctx, &input, &plan, &mut sr, "random");
        if report(ctx, ch) {
            return;
        }
    }
}

fn run(ctx: &mut Ctx) {
    MUTE_ENGINE_STDOUT.store(ctx.replaying() || std::env::var("KV_MUTE_ENGINE").is_ok(), Ordering::SeqCst);
    scripted(ctx);
    if ctx.thorough() {
        overlap_exhaustive(ctx, "overlap_exhaustive", 5, false, 0.45);
    } else {
        overlap_exhaustive(ctx, "overlap_exhaustive", 3, false, 0.35);
        overlap_exhaustive(ctx, "overlap_exhaustive_len4", 4, true, 0.6);
    }
    random(ctx);
}

fn main() {
    let mut spec = Spec::new("C10", "exploration", RULE);
    spec.assumptions = &[
        "the property is relative to the contents reported by a probe WindowRunner with identical width / slide / report strategy fed the same lexical items (window correctness itself is C09); the flush() of stop() counts as one more firing; items sent to another stream through add_to_stream are not given to the probe",
        "window queries are SELECT * over a BGP of 1-3 triple patterns without repeated variables inside one pattern (WINDOW blocks accept triple patterns only; the SELECT list is not applied to single-window results); terms are IRIs plus a few plain literals in object position, compared by their bare lexical form (the engine reports literals without quotes)",
        "rules are positive rules with 1-2 premises and 1-2 conclusions, loaded through RSPBuilder::add_rules as N3 WITHOUT the terminating dot between rules (SimpleR2R::load_rules stops at the first text it cannot parse and a lone '.' is such a text) or, for single-conclusion rules, through add_sparql_rules",
        "report strategies ON_WINDOW_CLOSE (explicit and default) and NON_EMPTY_CONTENT; ON_CONTENT_CHANGE / PERIODIC are not driven (their reports depend on HashMap iteration order resp. on absolute time)",
        "firings are cut out of the event log by the feeding call (single-thread) resp. by the worker.before_process / worker.after_process hook events (multi-thread); rows inside a firing are compared as a bag",
        "quiescence of a multi-thread run = the worker thread has dropped its clone of the consumer closure (it left its loop after draining the channel; flush() has no s2r.content_sent yield point, so sent/processed counters alone cannot see the last content); 60 s watchdog = inconclusive; schedule gates that are not released within 3 s are abandoned and counted, they never decide anything",
        "the relation-to-stream stage is judged against the relations observed in the RSTREAM run of the same input (the engine is deterministic in single-thread mode), so that a window-dataset defect and a stream-operator defect get separate signatures",
    ];
    spec.quick_budget_s = 32;
    spec.thorough_budget_s = 560;
    kvcore::run(spec, run);
}
