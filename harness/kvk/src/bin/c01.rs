//! C01 — SELECT answers equal the SPARQL algebra over the stored dataset.
//!
//! Event: the rows returned by `execute_sparql_query` (and the legacy adapter) for a
//! generated query text on a generated dataset. Oracle: M-SPARQL (nested-loop algebra)
//! over the lexical snapshot of the very same database.

use kolibrie::execute_query::{execute_query_rayon_parallel2_volcano, execute_sparql_query};
use kvcore::{guard, hash_str, json, panic_site, Ctx, Spec, Value};
use kvk::ds::{self, Route, Vocab};
use kvk::msparql::{canon_num, cmp_rows, Ev, EvalError, Row, Sem};
use kvk::qast::*;
use kvk::qgen::{random_style, Gen};
use std::collections::BTreeMap;

const RULE: &str = "Each case = one generated dataset (default + 0-3 named graphs, empty graphs, the same triple in several graphs; 0-40 quads, 1 case in 12 with 150-400 quads) loaded through one of three writers (INSERT DATA, N-Quads loader, direct add_quad) x 4 generated SELECT trees (depth <= 3: BGPs incl. stars, UNION, nested groups, GRAPH iri/var/missing/empty, FILTER anywhere in its group, BIND CONCAT, VALUES/UNDEF, sub-SELECT with DISTINCT/ORDER/LIMIT/GROUP BY+aggregates, top-level DISTINCT/ORDER BY/LIMIT/GROUP BY/FROM/FROM NAMED), printed to text with random style. The oracle answer is computed by M-SPARQL on the lexical snapshot of the same database. Non-trivial = oracle answer non-empty AND the query has >= 2 distinct operator kinds; distinct by hash of (query shape key, dataset hash).";

fn bag_key(r: &Row) -> String {
    r.iter().map(|(k, v)| format!("{}={}", k, v)).collect::<Vec<_>>().join("\u{1}")
}

fn to_multiset(rows: &[Row]) -> BTreeMap<String, usize> {
    let mut m = BTreeMap::new();
    for r in rows {
        *m.entry(bag_key(r)).or_insert(0) += 1;
    }
    m
}

fn sub_multiset(a: &BTreeMap<String, usize>, b: &BTreeMap<String, usize>) -> bool {
    a.iter().all(|(k, n)| b.get(k).copied().unwrap_or(0) >= *n)
}

/// engine rows -> maps; "" = unbound; aggregate columns compared by numeric value
fn engine_rows(rows: &[Vec<String>], cols: &[String], agg_cols: &[String]) -> Result<Vec<Row>, String> {
    let mut out = vec![];
    for r in rows {
        if r.len() != cols.len() {
            return Err(format!("row has {} cells, {} columns expected", r.len(), cols.len()));
        }
        let mut m = Row::new();
        for (c, v) in cols.iter().zip(r.iter()) {
            if v.is_empty() {
                continue;
            }
            if agg_cols.contains(c) {
                match v.parse::<f64>() {
                    Ok(x) => {
                        m.insert(c.clone(), canon_num(x));
                    }
                    Err(_) => {
                        m.insert(c.clone(), v.clone());
                    }
                }
            } else {
                m.insert(c.clone(), v.clone());
            }
        }
        out.push(m);
    }
    Ok(out)
}

struct Verdict {
    ok: bool,
    why: String,
}

/// Is `got` a legal answer sequence for query `q` whose full (pre-LIMIT) answer is `full`?
fn legal(q: &Select, got: &[Row], full: &[Row], sorted_unprojected: &[Row], ctx: &mut Ctx) -> Verdict {
    let g = to_multiset(got);
    let f = to_multiset(full);
    let cols = q.columns();
    if q.order.iter().any(|(k, _)| !cols.contains(k)) {
        return legal_with_hidden_keys(q, got, &g, &f, full.len(), sorted_unprojected, &cols, ctx);
    }
    match q.limit {
        None => {
            if g != f {
                return Verdict { ok: false, why: "solution multiset differs".into() };
            }
        }
        Some(n) => {
            if got.len() != n.min(full.len()) {
                return Verdict { ok: false, why: format!("LIMIT {}: {} rows returned, full answer has {}", n, got.len(), full.len()) };
            }
            if !sub_multiset(&g, &f) {
                return Verdict { ok: false, why: "LIMIT: returned rows are not a sub-multiset of the full answer".into() };
            }
            if !q.order.is_empty() && !got.is_empty() {
                // every omitted row must not sort strictly before the last returned row
                let last = &got[got.len() - 1];
                let mut rest = f.clone();
                for (k, n) in &g {
                    *rest.get_mut(k).unwrap() -= n;
                }
                for r in full {
                    let k = bag_key(r);
                    if rest.get(&k).copied().unwrap_or(0) > 0 {
                        match cmp_rows(r, last, &q.order) {
                            Some(std::cmp::Ordering::Less) => {
                                return Verdict { ok: false, why: "LIMIT after ORDER BY omitted a row that sorts before the last returned row".into() };
                            }
                            None => ctx.count("order_pairs_of_mixed_kind_not_judged", 1),
                            _ => {}
                        }
                    }
                }
            }
        }
    }
    if !q.order.is_empty() {
        for w in got.windows(2) {
            match cmp_rows(&w[0], &w[1], &q.order) {
                Some(std::cmp::Ordering::Greater) => return Verdict { ok: false, why: "rows not sorted by the ORDER BY keys".into() },
                None => ctx.count("order_pairs_of_mixed_kind_not_judged", 1),
                _ => {}
            }
        }
    }
    Verdict { ok: true, why: String::new() }
}

/// ORDER BY with a key that is not projected (never together with DISTINCT or aggregates):
/// the solutions sorted by the keys fall into runs of key-equal solutions; the returned
/// sequence must be, run after run, a permutation of the run's projected rows (the last
/// run may be cut by LIMIT).
#[allow(clippy::too_many_arguments)]
fn legal_with_hidden_keys(q: &Select, got: &[Row], g: &BTreeMap<String, usize>, f: &BTreeMap<String, usize>, full_len: usize, sorted: &[Row], cols: &[String], ctx: &mut Ctx) -> Verdict {
    let want = q.limit.map(|n| n.min(full_len)).unwrap_or(full_len);
    if got.len() != want {
        return Verdict { ok: false, why: format!("{} rows returned, {} expected (full answer has {})", got.len(), want, full_len) };
    }
    if q.limit.is_none() && g != f {
        return Verdict { ok: false, why: "solution multiset differs".into() };
    }
    if !sub_multiset(g, f) {
        return Verdict { ok: false, why: "LIMIT: returned rows are not a sub-multiset of the full answer".into() };
    }
    if sorted.len() != full_len {
        return Verdict { ok: true, why: String::new() }; // (cannot happen without DISTINCT)
    }
    let project = |r: &Row| -> Row { r.iter().filter(|(k, _)| cols.contains(k)).map(|(k, v)| (k.clone(), v.clone())).collect() };
    let mut at = 0usize;
    let mut i = 0usize;
    while i < sorted.len() && at < got.len() {
        let mut j = i + 1;
        while j < sorted.len() {
            match cmp_rows(&sorted[j - 1], &sorted[j], &q.order) {
                Some(std::cmp::Ordering::Equal) => j += 1,
                Some(_) => break,
                None => {
                    ctx.count("order_pairs_of_mixed_kind_not_judged", 1);
                    return Verdict { ok: true, why: String::new() };
                }
            }
        }
        let run: Vec<Row> = sorted[i..j].iter().map(project).collect();
        let take = run.len().min(got.len() - at);
        let part = to_multiset(&got[at..at + take]);
        let runm = to_multiset(&run);
        let fits = if take == run.len() { part == runm } else { sub_multiset(&part, &runm) };
        if !fits {
            return Verdict { ok: false, why: "rows not in the order given by an ORDER BY key that is not projected".into() };
        }
        ctx.count("runs_of_key_equal_solutions_checked_under_a_hidden_order_key", 1);
        at += take;
        i = j;
    }
    Verdict { ok: true, why: String::new() }
}

fn agg_columns(q: &Select) -> Vec<String> {
    match &q.proj {
        Proj::Star => vec![],
        Proj::Items(items) => items.iter().filter_map(|i| if let ProjItem::Agg(_, _, a) = i { Some(a.clone()) } else { None }).collect(),
    }
}

fn sub_agg_columns(g: &[P], out: &mut Vec<String>) {
    for p in g {
        match p {
            P::Sub(s) => {
                out.extend(agg_columns(s));
                sub_agg_columns(&s.group, out);
            }
            P::Group(g) | P::Graph(_, g) => sub_agg_columns(g, out),
            P::Union(bs) => {
                for b in bs {
                    sub_agg_columns(b, out);
                }
            }
            _ => {}
        }
    }
}

/// Outcome of judging one (database, query) pair.
enum Judged {
    Held { full: usize, rows: Vec<Vec<String>> },
    Skipped,
    Violation { sig: Value, detail: Value },
}

const VARIANTS: [(&str, Sem); 5] = [
    ("graph_variable_is_bound_before_the_filters_of_its_graph_block", Sem { error_is_false: false, non_numeric_is_zero: false, bind_unbound_is_empty: false, avg_of_nothing_is_unbound: false, graph_variable_prebound: true }),
    ("negation_of_an_erroring_filter_expression_counts_as_true", Sem { error_is_false: true, non_numeric_is_zero: false, bind_unbound_is_empty: false, avg_of_nothing_is_unbound: false, graph_variable_prebound: false }),
    ("ordering_comparison_on_non_numeric_term_uses_zero", Sem { error_is_false: false, non_numeric_is_zero: true, bind_unbound_is_empty: false, avg_of_nothing_is_unbound: false, graph_variable_prebound: false }),
    ("concat_over_unbound_variable_yields_empty_string", Sem { error_is_false: false, non_numeric_is_zero: false, bind_unbound_is_empty: true, avg_of_nothing_is_unbound: false, graph_variable_prebound: false }),
    ("avg_over_empty_group_is_unbound", Sem { error_is_false: false, non_numeric_is_zero: false, bind_unbound_is_empty: false, avg_of_nothing_is_unbound: true, graph_variable_prebound: false }),
];

fn judge(db: &mut kolibrie::sparql_database::SparqlDatabase, snap: &ds::Dataset, q: &Select, text: &str, legacy: bool, class: &str, ctx: &mut Ctx) -> Judged {
    let ev = Ev::new(snap, q);
    let ans = match ev.eval_select_inner(q, &None) {
        Ok(a) => a,
        Err(EvalError::TooBig) | Err(EvalError::NonNumericAggregate) => return Judged::Skipped,
    };
    let cols = ans.columns.clone();
    let mut aggs = agg_columns(q);
    sub_agg_columns(&q.group, &mut aggs); // sub-select aggregates that surface in the output are numbers too
    let res = guard(|| if legacy { Ok(execute_query_rayon_parallel2_volcano(text, db)) } else { execute_sparql_query(text, db) });
    let rows = match res {
        Err(e) => return Judged::Violation { sig: json!({"kind": "panic", "api": "execute_sparql_query", "site": panic_site(&e)}), detail: json!({"panic": e, "query": text, "dataset": snap.to_json()}) },
        Ok(Err(e)) => return Judged::Violation { sig: json!({"kind": "generated_query_rejected", "class": class}), detail: json!({"error": e, "query": text}) },
        Ok(Ok(rows)) => rows,
    };
    let got = match engine_rows(&rows, &cols, &aggs) {
        Ok(g) => g,
        Err(e) => return Judged::Violation { sig: json!({"kind": "malformed_result_table"}), detail: json!({"error": e, "query": text}) },
    };
    let canon = |rows: &[Row]| -> Vec<Row> {
        rows.iter()
            .map(|r| r.iter().map(|(k, v)| (k.clone(), if aggs.contains(k) { v.parse::<f64>().map(canon_num).unwrap_or_else(|_| v.clone()) } else { v.clone() })).collect())
            .collect()
    };
    let full = canon(&ans.full);
    let v = legal(q, &got, &full, &ans.sorted_unprojected, ctx);
    if v.ok {
        return Judged::Held { full: full.len(), rows };
    }
    // attribute: does one relaxed reading of SPARQL's error cases reproduce the engine?
    let mut cause = "unattributed".to_string();
    for (name, sem) in VARIANTS.iter() {
        if let Ok(a2) = Ev::with_sem(snap, q, *sem).eval_select_inner(q, &None) {
            if legal(q, &got, &canon(&a2.full), &a2.sorted_unprojected, ctx).ok {
                cause = name.to_string();
                break;
            }
        }
    }
    if cause == "unattributed" {
        let all = Sem { error_is_false: true, non_numeric_is_zero: true, bind_unbound_is_empty: true, avg_of_nothing_is_unbound: true, graph_variable_prebound: true };
        if let Ok(a2) = Ev::with_sem(snap, q, all).eval_select_inner(q, &None) {
            if legal(q, &got, &canon(&a2.full), &a2.sorted_unprojected, ctx).ok {
                cause = "several_lexical_readings_of_expression_errors_combined".to_string();
            }
        }
    }
    let class = if cause == "unattributed" { class } else { "expression_error_semantics" };
    Judged::Violation {
        sig: json!({"kind": "answer_differs_from_sparql_algebra", "cause": cause, "class": class}),
        detail: json!({
            "why": v.why, "query": text, "entry_point": if legacy { "execute_query_rayon_parallel2_volcano" } else { "execute_sparql_query" },
            "dataset": snap.to_json(),
            "expected_rows": full.iter().take(12).map(|r| json!(r)).collect::<Vec<_>>(), "expected_count": full.len(),
            "engine_rows": rows.iter().take(12).collect::<Vec<_>>(), "engine_count": rows.len(), "columns": cols,
        }),
    }
}

/// Greedy minimisation of a witness: keep a one-step reduction of the query (then of the
/// dataset) whenever the monitor still reports the same signature on it.
fn shrink(data: &ds::Dataset, q: &Select, legacy: bool, class: &str, sig: &Value, ctx: &mut Ctx) -> (ds::Dataset, Select) {
    let mut q = q.clone();
    let mut data = data.clone();
    let mut budget = 400usize;
    let same = |d: &ds::Dataset, q: &Select, ctx: &mut Ctx| -> bool {
        let Ok(Ok(mut db)) = guard(|| ds::load(d, Route::Direct)) else { return false };
        let Ok(snap) = ds::snapshot(&db) else { return false };
        let text = print_select(q, &Style::default());
        matches!(judge(&mut db, &snap, q, &text, legacy, class, ctx), Judged::Violation { sig: s2, .. } if s2 == *sig)
    };
    if !same(&data, &q, ctx) {
        return (data, q); // not reproducible through the Direct route / default style: leave as is
    }
    loop {
        let mut progressed = false;
        for cand in kvk::qshrink::select_reductions(&q) {
            if budget == 0 {
                break;
            }
            if !kvk::qshrink::select_in_fragment(&cand, true) {
                continue;
            }
            budget -= 1;
            if same(&data, &cand, ctx) {
                q = cand;
                progressed = true;
                break;
            }
        }
        if !progressed || budget == 0 {
            break;
        }
    }
    let quads: Vec<ds::LQuad> = data.quads.iter().cloned().collect();
    for qd in quads {
        if budget == 0 {
            break;
        }
        budget -= 1;
        let mut d2 = data.clone();
        d2.quads.remove(&qd);
        if same(&d2, &q, ctx) {
            data = d2;
        }
    }
    (data, q)
}

fn run(ctx: &mut Ctx) {
    let total = ctx.by_tier(40_000, 4_000_000);
    ctx.phase("random", total);
    while let Some(k) = ctx.next_case() {
        let mut r = ctx.rng(k);
        let big = r.chance(1, 12);
        let vocab = if big { Vocab { n_ent: r.range(12, 30), n_pred: r.range(2, 4), n_graph: r.range(0, 3), n_num: r.range(4, 12), n_word: 3 } } else { ds::small_vocab(&mut r) };
        let nq = if big { r.range(150, 400) } else { r.range(0, 40) };
        let data = ds::gen_dataset(&mut r, &vocab, nq);
        let route = *r.pick(&[Route::InsertData, Route::NQuads, Route::Direct]);
        let mut db = match guard(|| ds::load(&data, route)) {
            Ok(Ok(db)) => db,
            Ok(Err(e)) => {
                ctx.violation(json!({"kind": "writer_rejected_generated_dataset", "route": format!("{:?}", route)}), json!({"error": e, "dataset": data.to_json()}));
                continue;
            }
            Err(e) => {
                ctx.violation(json!({"kind": "panic", "api": format!("load/{:?}", route), "site": panic_site(&e)}), json!({"panic": e, "dataset": data.to_json()}));
                continue;
            }
        };
        ctx.count(&format!("datasets_loaded_via.{:?}", route), 1);
        let snap = match ds::snapshot(&db) {
            Ok(s) => s,
            Err(e) => {
                ctx.violation(json!({"kind": "snapshot_undecodable"}), json!({"error": e}));
                continue;
            }
        };
        if snap != data {
            ctx.count("loaded_snapshot_differs_from_generated_dataset", 1);
        }
        let dh = snap.hash();
        for qi in 0..4u64 {
            let mut rq = ctx.rng_labeled("query", k * 8 + qi);
            let mut g = Gen::new(&mut rq, &snap, vocab.n_ent, vocab.n_pred, vocab.n_num);
            if big {
                g.max_depth = 2;
                g.allow_empty = false;
            }
            g.hidden_order_keys = true;
            let (q, _) = g.gen_select(0, true);
            let features: Vec<String> = g.features.iter().cloned().collect();
            let style = random_style(&mut rq);
            let text = print_select(&q, &style);
            let shape = shape_of(&q);
            let class = if features.iter().any(|f| f.starts_with("edge:")) { "edge" } else { "core" };
            let legacy = qi % 3 == 2;
            ctx.add_evals(1);
            if std::env::var("KV_TRACE").is_ok() {
                eprintln!("TRACE case {} query {}: {} quads: {}", k, qi, snap.quads.len(), text);
            }
            match judge(&mut db, &snap, &q, &text, legacy, class, ctx) {
                Judged::Skipped => ctx.count("skipped_oracle_answer_too_big", 1),
                Judged::Held { full, rows } => {
                    ctx.count(if legacy { "queries_via.execute_query_rayon_parallel2_volcano" } else { "queries_via.execute_sparql_query" }, 1);
                    ctx.count(&format!("queries_class.{}", class), 1);
                    for (op, _) in &shape.ops {
                        ctx.note("operators_exercised", op);
                    }
                    for f in &features {
                        ctx.note("query_features", f);
                    }
                    ctx.max("max_oracle_rows", full as u64);
                    if full > 0 && shape.distinct_ops() >= 2 {
                        ctx.nontrivial(hash_str(&format!("{}#{}", shape.key(), dh)));
                        ctx.count(&format!("nontrivial_class.{}", class), 1);
                    }
                    if ctx.wants_sample() && full > 0 && shape.distinct_ops() >= 4 {
                        ctx.sample(json!({"query": text, "dataset_quads": snap.quads.len(), "named_graphs": snap.graphs.len(), "oracle_rows": full, "engine_rows": rows.len(), "class": class, "first_rows": rows.iter().take(3).collect::<Vec<_>>()}));
                    }
                }
                Judged::Violation { sig, detail } => {
                    let mut detail = detail;
                    if sig["kind"] != "generated_query_rejected" {
                        let (d2, q2) = shrink(&snap, &q, legacy, class, &sig, ctx);
                        let t2 = print_select(&q2, &Style::default());
                        let mut small = json!({"query": t2, "dataset": d2.to_json()});
                        if let Ok(Ok(mut db2)) = guard(|| ds::load(&d2, Route::Direct)) {
                            if let Judged::Violation { detail: dd, .. } = judge(&mut db2, &d2, &q2, &t2, legacy, class, ctx) {
                                small = dd;
                            }
                        }
                        detail = json!({"minimised": small, "features": features, "loaded_via": format!("{:?}", route), "original": detail});
                    }
                    ctx.violation(sig, detail);
                }
            }
        }
    }
}

fn main() {
    let mut spec = Spec::new("C01", "exploration", RULE);
    spec.assumptions = &[
        "M-TERM: the store is untyped; generated IRIs (http://k/…), canonical integers and word literals are lexically disjoint, so lexical identity coincides with RDF term equality",
        "ORDER BY keys: numbers by value, other terms by code point, unbound first; pairs mixing a number with a non-number are not judged (counted)",
        "FROM NAMED only lists graphs that have an identity in the store; FROM may list unknown graphs (contribute nothing)",
        "sub-SELECT LIMIT is generated only together with a total ORDER BY over its projected columns (or LIMIT 0), so the inner answer is unique",
        "queries whose intermediate oracle result exceeds 120 000 rows are skipped (counted)",
    ];
    spec.quick_budget_s = 40;
    spec.thorough_budget_s = 900;
    kvcore::run(spec, run);
}
