//! helpers shared by the kolibrie-level monitors: M-DATASET, query AST + printer,
//! M-SPARQL reference evaluator, G-QUERY generator
pub mod ds;
pub mod msparql;
pub mod qast;
pub mod qgen;
pub mod qshrink;
pub mod upd;
