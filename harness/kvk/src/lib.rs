//! helpers shared by the kolibrie-level monitors
