//! SPARQL Update: AST of the six supported forms, printer, generator and the reference
//! semantics on M-DATASET (WHERE once on the pre-state, delete then insert, fresh blank
//! nodes per solution, effective change counts).

use crate::ds::{is_iri, Dataset, LQuad, G};
use crate::msparql::{Ev, EvalError, Row, Sem, View};
use crate::qast::*;
use crate::qgen::Gen;
use kvcore::Rng;
use std::collections::{BTreeMap, BTreeSet};

#[derive(Clone, Debug, PartialEq)]
pub enum TT {
    Var(String),
    Const(String),
    /// template blank node label (without "_:")
    Blank(String),
}

impl TT {
    fn text(&self) -> String {
        match self {
            TT::Var(v) => format!("?{}", v),
            TT::Const(c) => const_text(c),
            TT::Blank(b) => format!("_:{}", b),
        }
    }
}

#[derive(Clone, Debug, PartialEq)]
pub struct QT {
    pub graph: Option<TT>, // None = default graph; Var or Const(iri)
    pub s: TT,
    pub p: TT,
    pub o: TT,
}

#[derive(Clone, Debug, PartialEq)]
pub enum Upd {
    InsertData(Vec<QT>),
    DeleteData(Vec<QT>),
    InsertWhere { ins: Vec<QT>, pattern: Vec<P> },
    DeleteWhere { del: Vec<QT>, pattern: Vec<P> },
    DeleteInsertWhere { del: Vec<QT>, ins: Vec<QT>, pattern: Vec<P> },
    /// DELETE WHERE { quads }: the quad block is template and pattern
    DeleteWhereShort(Vec<QT>),
}

impl Upd {
    pub fn kind(&self) -> &'static str {
        match self {
            Upd::InsertData(_) => "INSERT DATA",
            Upd::DeleteData(_) => "DELETE DATA",
            Upd::InsertWhere { .. } => "INSERT WHERE",
            Upd::DeleteWhere { .. } => "DELETE WHERE(template)",
            Upd::DeleteInsertWhere { .. } => "DELETE INSERT WHERE",
            Upd::DeleteWhereShort(_) => "DELETE WHERE shorthand",
        }
    }
}

pub fn print_quads(qs: &[QT]) -> String {
    let mut s = String::from("{ ");
    for q in qs {
        let t = format!("{} {} {}", q.s.text(), q.p.text(), q.o.text());
        match &q.graph {
            None => s.push_str(&format!("{} . ", t)),
            Some(g) => s.push_str(&format!("GRAPH {} {{ {} }} ", g.text(), t)),
        }
    }
    s.push('}');
    s
}

pub fn print_update(u: &Upd) -> String {
    // the WHERE text alternates between fully parenthesised and precedence-only FILTERs
    // (a pure function of the update, so that a case prints the same way on replay)
    let min_parens = format!("{:?}", u).len() % 2 == 1;
    let st = Style { min_parens, ..Style::default() };
    match u {
        Upd::InsertData(q) => format!("INSERT DATA {}", print_quads(q)),
        Upd::DeleteData(q) => format!("DELETE DATA {}", print_quads(q)),
        Upd::InsertWhere { ins, pattern } => format!("INSERT {} WHERE {}", print_quads(ins), print_group(pattern, &st)),
        Upd::DeleteWhere { del, pattern } => format!("DELETE {} WHERE {}", print_quads(del), print_group(pattern, &st)),
        Upd::DeleteInsertWhere { del, ins, pattern } => format!("DELETE {} INSERT {} WHERE {}", print_quads(del), print_quads(ins), print_group(pattern, &st)),
        Upd::DeleteWhereShort(q) => format!("DELETE WHERE {}", print_quads(q)),
    }
}

// ---------------------------------------------------------------------------------------
// reference semantics

#[derive(Clone, Debug, PartialEq, Eq)]
pub struct Effect {
    pub deleted: usize,
    pub inserted: usize,
    /// placeholders of the blank nodes this step introduced
    pub fresh: Vec<String>,
}

fn short_pattern(qs: &[QT]) -> Vec<P> {
    let t = |x: &TT| match x {
        TT::Var(v) => T::Var(v.clone()),
        TT::Const(c) => T::Const(c.clone()),
        TT::Blank(b) => T::Const(format!("_:{}", b)),
    };
    qs.iter()
        .map(|q| {
            let bgp = P::Bgp(vec![(t(&q.s), t(&q.p), t(&q.o))]);
            match &q.graph {
                None => bgp,
                Some(TT::Var(v)) => P::Graph(GName::Var(v.clone()), vec![bgp]),
                Some(TT::Const(c)) => P::Graph(GName::Iri(c.clone()), vec![bgp]),
                Some(TT::Blank(_)) => bgp,
            }
        })
        .collect()
}

fn legal_subject(t: &str) -> bool {
    is_iri(t) || t.starts_with("_:")
}
fn legal_predicate(t: &str) -> bool {
    is_iri(t)
}
fn legal_graph(t: &str) -> bool {
    is_iri(t)
}

/// Instantiate templates over the solution sequence. `fresh_base`: counter for fresh blank
/// placeholders ("_:fresh#n"), one set per solution, shared inside a solution.
fn instantiate(templates: &[QT], rows: &[Row], insert: bool, fresh_counter: &mut usize, fresh: &mut Vec<String>) -> BTreeSet<LQuad> {
    let mut out = BTreeSet::new();
    for row in rows {
        let mut blanks: BTreeMap<String, String> = BTreeMap::new();
        for q in templates {
            let mut term = |x: &TT, blanks: &mut BTreeMap<String, String>| -> Option<(String, bool)> {
                match x {
                    TT::Const(c) => Some((c.clone(), false)),
                    TT::Var(v) => row.get(v).map(|s| (s.clone(), true)),
                    TT::Blank(b) => {
                        if !insert {
                            return None;
                        }
                        let e = blanks.entry(b.clone()).or_insert_with(|| {
                            *fresh_counter += 1;
                            let name = format!("_:fresh#{}", *fresh_counter);
                            fresh.push(name.clone());
                            name
                        });
                        Some((e.clone(), false))
                    }
                }
            };
            let Some((s, sv)) = term(&q.s, &mut blanks) else { continue };
            if sv && !legal_subject(&s) {
                continue;
            }
            let Some((p, pv)) = term(&q.p, &mut blanks) else { continue };
            if pv && !legal_predicate(&p) {
                continue;
            }
            let Some((o, _)) = term(&q.o, &mut blanks) else { continue };
            let g = match &q.graph {
                None => G::Default,
                Some(gt) => {
                    let Some((g, gv)) = term(gt, &mut blanks) else { continue };
                    if gv && !legal_graph(&g) {
                        continue;
                    }
                    G::Named(g)
                }
            };
            out.insert((s, p, o, g));
        }
    }
    out
}

/// Apply one update to the model state. Err(TooBig) when the WHERE oracle gives up.
pub fn apply(state: &mut Dataset, u: &Upd, fresh_counter: &mut usize) -> Result<Effect, EvalError> {
    apply_sem(state, u, fresh_counter, Sem::default())
}

/// `apply` under a relaxed reading of the WHERE clause (used for attribution only)
pub fn apply_sem(state: &mut Dataset, u: &Upd, fresh_counter: &mut usize, sem: Sem) -> Result<Effect, EvalError> {
    let unit: Vec<Row> = vec![Row::new()];
    let eval = |pattern: &[P], state: &Dataset| -> Result<Vec<Row>, EvalError> {
        let ev = Ev { ds: state, view: View { default: vec![G::Default], named: state.graphs.clone() }, sem };
        ev.eval_group(pattern, &None)
    };
    let mut fresh = vec![];
    let (dels, inss) = match u {
        Upd::InsertData(q) => (BTreeSet::new(), instantiate(q, &unit, true, fresh_counter, &mut fresh)),
        Upd::DeleteData(q) => (instantiate(q, &unit, false, fresh_counter, &mut fresh), BTreeSet::new()),
        Upd::InsertWhere { ins, pattern } => {
            let rows = eval(pattern, state)?;
            (BTreeSet::new(), instantiate(ins, &rows, true, fresh_counter, &mut fresh))
        }
        Upd::DeleteWhere { del, pattern } => {
            let rows = eval(pattern, state)?;
            (instantiate(del, &rows, false, fresh_counter, &mut fresh), BTreeSet::new())
        }
        Upd::DeleteInsertWhere { del, ins, pattern } => {
            let rows = eval(pattern, state)?;
            let d = instantiate(del, &rows, false, fresh_counter, &mut fresh);
            let i = instantiate(ins, &rows, true, fresh_counter, &mut fresh);
            (d, i)
        }
        Upd::DeleteWhereShort(q) => {
            let rows = eval(&short_pattern(q), state)?;
            (instantiate(q, &rows, false, fresh_counter, &mut fresh), BTreeSet::new())
        }
    };
    let mut deleted = 0;
    for d in &dels {
        if state.quads.remove(d) {
            deleted += 1;
        }
    }
    let mut inserted = 0;
    for i in &inss {
        if state.insert(i.clone()) {
            inserted += 1;
        }
    }
    Ok(Effect { deleted, inserted, fresh })
}

// ---------------------------------------------------------------------------------------
// generator

pub struct UGen<'a> {
    pub r: &'a mut Rng,
    pub n_ent: usize,
    pub n_pred: usize,
    pub n_num: usize,
    pub n_graph: usize,
}

impl<'a> UGen<'a> {
    fn ground_quad(&mut self, state: &Dataset, prefer_present: bool, allow_blank: bool) -> QT {
        if prefer_present && !state.quads.is_empty() && self.r.chance(2, 3) {
            let all: Vec<&LQuad> = state.quads.iter().collect();
            let q = all[self.r.below(all.len())];
            // quads holding blank nodes cannot be named in DATA blocks of a delete
            if !q.0.starts_with("_:") && !q.2.starts_with("_:") {
                return QT { graph: q.3.name().map(|g| TT::Const(g.to_string())), s: TT::Const(q.0.clone()), p: TT::Const(q.1.clone()), o: TT::Const(q.2.clone()) };
            }
        }
        let s = if allow_blank && self.r.chance(1, 8) { TT::Blank(format!("b{}", self.r.below(2))) } else { TT::Const(crate::ds::ent(self.r.below(self.n_ent))) };
        let pi = self.r.below(self.n_pred);
        let o = if allow_blank && self.r.chance(1, 10) {
            TT::Blank(format!("b{}", self.r.below(2)))
        } else {
            TT::Const(match pi % 4 {
                0 | 1 => crate::ds::ent(self.r.below(self.n_ent)),
                2 => format!("{}", crate::ds::numv(self.r.below(self.n_num.max(1)))),
                _ => {
                    if self.r.coin() {
                        crate::ds::word(self.r.below(2))
                    } else {
                        format!("{}", crate::ds::numv(self.r.below(self.n_num.max(1))))
                    }
                }
            })
        };
        let graph = if self.r.chance(2, 5) { Some(TT::Const(crate::ds::graph(self.r.below(self.n_graph + 1)))) } else { None };
        QT { graph, s, p: TT::Const(crate::ds::pred(pi)), o }
    }

    fn template(&mut self, vars: &[String], insert: bool) -> Vec<QT> {
        let n = self.r.range(1, 3);
        let mut out = vec![];
        for _ in 0..n {
            let mut pick = |me: &mut Self, kind: u8| -> TT {
                // kind 0 subject, 1 predicate, 2 object, 3 graph
                if !vars.is_empty() && me.r.chance(3, 5) {
                    return TT::Var(me.r.pick(vars).clone());
                }
                if me.r.chance(1, 25) {
                    return TT::Var("unboundvar".to_string());
                }
                if insert && kind != 1 && kind != 3 && me.r.chance(1, 6) {
                    return TT::Blank(format!("b{}", me.r.below(2)));
                }
                match kind {
                    1 => TT::Const(crate::ds::pred(me.r.below(me.n_pred))),
                    3 => TT::Const(crate::ds::graph(me.r.below(me.n_graph + 1))),
                    2 if me.r.chance(1, 3) => TT::Const(format!("{}", crate::ds::numv(me.r.below(me.n_num.max(1))))),
                    _ => TT::Const(crate::ds::ent(me.r.below(me.n_ent))),
                }
            };
            let s = pick(self, 0);
            let p = pick(self, 1);
            let o = pick(self, 2);
            let graph = if self.r.chance(2, 5) { Some(pick(self, 3)) } else { None };
            out.push(QT { graph, s, p, o });
        }
        out
    }

    pub fn gen(&mut self, state: &Dataset) -> Upd {
        match self.r.weighted(&[22, 18, 16, 14, 18, 12]) {
            0 => {
                let n = self.r.range(1, 4);
                Upd::InsertData((0..n).map(|_| { let pp = self.r.chance(1, 4); self.ground_quad(state, pp, true) }).collect())
            }
            1 => {
                let n = self.r.range(1, 4);
                Upd::DeleteData((0..n).map(|_| self.ground_quad(state, true, false)).collect())
            }
            k @ (2 | 3 | 4) => {
                let mut rr = Rng::new(self.r.next_u64());
                let mut g = Gen::new(&mut rr, state, self.n_ent, self.n_pred, self.n_num);
                g.allow_edge = false;
                g.max_depth = 2;
                g.max_top = 2;
                g.max_nested = 2;
                let (pattern, sc) = g.gen_group(0, true);
                let vars: Vec<String> = sc.keys().cloned().collect();
                match k {
                    2 => Upd::InsertWhere { ins: self.template(&vars, true), pattern },
                    3 => Upd::DeleteWhere { del: self.template(&vars, false), pattern },
                    _ => {
                        let del = self.template(&vars, false);
                        let mut ins = self.template(&vars, true);
                        // overlap between the delete and the insert set
                        if self.r.chance(1, 3) {
                            ins.push(del[0].clone());
                        }
                        // self-referential: swap subject/object of a deleted template
                        let d0_object_can_be_subject = !matches!(&del[0].o, TT::Const(c) if !is_iri(c));
                        if d0_object_can_be_subject && self.r.chance(1, 4) {
                            let d = del[0].clone();
                            ins.push(QT { graph: d.graph.clone(), s: d.o.clone(), p: d.p.clone(), o: d.s.clone() });
                        }
                        Upd::DeleteInsertWhere { del, ins, pattern }
                    }
                }
            }
            _ => {
                // DELETE WHERE shorthand: 1-2 quad patterns with variables, possibly in GRAPH blocks
                let n = self.r.range(1, 2);
                let vs = ["a", "b", "c"];
                let mut out = vec![];
                for _ in 0..n {
                    let v = |me: &mut Self, konst: String| if me.r.chance(3, 5) { TT::Var(me.r.pick(&vs).to_string()) } else { TT::Const(konst) };
                    let ks = crate::ds::ent(self.r.below(self.n_ent));
                    let s = v(self, ks);
                    let pi = self.r.below(self.n_pred);
                    let p = if self.r.chance(1, 6) { TT::Var("p".into()) } else { TT::Const(crate::ds::pred(pi)) };
                    let ko = crate::ds::ent(self.r.below(self.n_ent));
                    let o = v(self, ko);
                    let graph = if self.r.chance(2, 5) {
                        Some(if self.r.coin() { TT::Var("g".into()) } else { TT::Const(crate::ds::graph(self.r.below(self.n_graph + 1))) })
                    } else {
                        None
                    };
                    out.push(QT { graph, s, p, o });
                }
                Upd::DeleteWhereShort(out)
            }
        }
    }
}

/// A well-formed update with one illegal term planted at a random quad and position (any
/// quad of the block, also inside GRAPH blocks and in the graph position): the request must
/// be refused as a whole.
pub fn plant_illegal(r: &mut Rng, u: &Upd) -> Option<(Upd, &'static str)> {
    fn plant(r: &mut Rng, qs: &mut [QT], allow_var: bool, allow_blank: bool) -> Option<&'static str> {
        if qs.is_empty() {
            return None;
        }
        let j = r.below(qs.len());
        let pos = r.below(4);
        // blank nodes are terms only in subject / object position
        let blank = allow_blank && (pos == 0 || pos == 2) && (!allow_var || r.coin());
        if !blank && !allow_var {
            return None;
        }
        let t = if blank { TT::Blank("planted".into()) } else { TT::Var("planted".into()) };
        match pos {
            0 => qs[j].s = t,
            1 => qs[j].p = t,
            2 => qs[j].o = t,
            _ => qs[j].graph = Some(t),
        }
        Some(if blank { "blank node planted in a delete block" } else { "variable planted in a DATA block" })
    }
    let mut u2 = u.clone();
    let why = match &mut u2 {
        Upd::InsertData(q) => plant(r, q, true, false),
        Upd::DeleteData(q) => plant(r, q, true, true),
        Upd::DeleteWhere { del, .. } | Upd::DeleteInsertWhere { del, .. } => plant(r, del, false, true),
        Upd::DeleteWhereShort(q) => plant(r, q, false, true),
        Upd::InsertWhere { .. } => None,
    }?;
    Some((u2, why))
}

/// A request that must be rejected by the strict update entry point, with the reason.
pub fn gen_rejected(r: &mut Rng, state: &Dataset) -> (String, &'static str) {
    let e = |i: usize| format!("<{}>", crate::ds::ent(i));
    let p = |i: usize| format!("<{}>", crate::ds::pred(i));
    let some = state.quads.iter().next().map(|q| (q.0.clone(), q.1.clone(), q.2.clone()));
    match r.below(9) {
        0 => (format!("INSERT DATA {{ ?x {} {} }}", p(0), e(1)), "variable in INSERT DATA"),
        1 => (format!("DELETE DATA {{ {} {} ?o }}", e(0), p(0)), "variable in DELETE DATA"),
        2 => (format!("DELETE DATA {{ _:b {} {} }}", p(0), e(1)), "blank node in DELETE DATA"),
        3 => (format!("DELETE {{ ?s {} _:b }} WHERE {{ ?s {} ?o }}", p(0), p(0)), "blank node in DELETE template"),
        4 => (format!("INSERT DATA {{ {} {} {} }} trailing garbage", e(0), p(0), e(1)), "trailing input"),
        5 => (format!("SELECT * WHERE {{ ?s ?p ?o }}"), "SELECT sent to the update entry point"),
        6 => (format!("INSERT {{ {} {} {} }}", e(0), p(0), e(1)), "legacy INSERT alias sent to the strict entry point"),
        7 => match some {
            Some((s, pp, _)) if is_iri(&s) => (format!("DELETE WHERE {{ <{}> <{}> _:x }}", s, pp), "blank node in DELETE WHERE"),
            _ => ("DELETE WHERE { ?s ?p }".to_string(), "incomplete triple"),
        },
        _ => (format!("INSERT DATA {{ {} {} {} ", e(0), p(0), e(1)), "unterminated block"),
    }
}
