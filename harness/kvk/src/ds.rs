//! M-DATASET: a dataset as a set of *lexical* quads plus a named-graph catalog, the
//! snapshot of a live database in that form, generators and loaders.

use kolibrie::sparql_database::SparqlDatabase;
use kvcore::Rng;
use shared::dataset_index::{GraphId, Quad};
use std::collections::BTreeSet;

#[derive(Clone, Debug, PartialEq, Eq, PartialOrd, Ord, Hash)]
pub enum G {
    Default,
    Named(String),
}

impl G {
    pub fn name(&self) -> Option<&str> {
        match self {
            G::Default => None,
            G::Named(n) => Some(n.as_str()),
        }
    }
}

pub type LQuad = (String, String, String, G);

#[derive(Clone, Debug, Default, PartialEq, Eq)]
pub struct Dataset {
    pub quads: BTreeSet<LQuad>,
    /// named-graph catalog (graph identities, also of empty graphs)
    pub graphs: BTreeSet<String>,
}

impl Dataset {
    pub fn triples_of<'a>(&'a self, g: &'a G) -> impl Iterator<Item = (&'a str, &'a str, &'a str)> + 'a {
        self.quads.iter().filter(move |q| &q.3 == g).map(|q| (q.0.as_str(), q.1.as_str(), q.2.as_str()))
    }
    pub fn insert(&mut self, q: LQuad) -> bool {
        if let G::Named(n) = &q.3 {
            self.graphs.insert(n.clone());
        }
        self.quads.insert(q)
    }
    pub fn to_json(&self) -> serde_json::Value {
        serde_json::json!({
            "quads": self.quads.iter().map(|(s,p,o,g)| format!("{} {} {} @{}", s, p, o, g.name().unwrap_or("DEFAULT"))).collect::<Vec<_>>(),
            "named_graph_catalog": self.graphs.iter().cloned().collect::<Vec<_>>(),
        })
    }
    pub fn hash(&self) -> u64 {
        let mut s = String::new();
        for q in &self.quads {
            s.push_str(&format!("{}|{}|{}|{:?};", q.0, q.1, q.2, q.3));
        }
        for g in &self.graphs {
            s.push_str(g);
            s.push(',');
        }
        kvcore::hash_str(&s)
    }
}

/// Lexical snapshot of a live database: decode_any over all_quads + named_graphs.
/// Returns Err when an id cannot be decoded (itself an observation).
pub fn snapshot(db: &SparqlDatabase) -> Result<Dataset, String> {
    let mut d = Dataset::default();
    for g in db.dataset_index.named_graphs() {
        if let GraphId::Named(id) = g {
            d.graphs.insert(db.decode_any(id).ok_or_else(|| format!("graph id {} undecodable", id))?);
        }
    }
    let all = db.dataset_index.all_quads();
    let n = all.len();
    for q in all {
        let dec = |id: u32| db.decode_any(id).ok_or_else(|| format!("term id {} undecodable", id));
        let g = match q.graph {
            GraphId::Default => G::Default,
            GraphId::Named(id) => G::Named(dec(id)?),
        };
        d.quads.insert((dec(q.subject)?, dec(q.predicate)?, dec(q.object)?, g));
    }
    if d.quads.len() != n {
        return Err(format!("all_quads returned {} quads but only {} distinct lexical quads", n, d.quads.len()));
    }
    Ok(d)
}

// ---------------------------------------------------------------------------------------
// vocabulary (M-TERM: kinds are lexically disjoint)

pub const NS: &str = "http://k/";
pub fn ent(i: usize) -> String {
    format!("{}e{}", NS, i)
}
pub fn pred(i: usize) -> String {
    format!("{}p{}", NS, i)
}
pub fn graph(i: usize) -> String {
    format!("{}g{}", NS, i)
}
/// The i-th word (plain literal) of the vocabulary: also one with a space and one outside ASCII.
pub fn word(i: usize) -> String {
    match i {
        1 => "x y".to_string(),
        3 => "\u{e9}\u{20ac}".to_string(),
        _ => format!("w{}", i),
    }
}

pub fn is_iri(t: &str) -> bool {
    t.starts_with("http://")
}
/// The i-th number of the vocabulary. The values are spread so that numeric order and
/// code-point order of the lexical forms disagree ("10" < "9", "100" < "2") as soon as a
/// vocabulary has three numbers.
pub fn numv(i: usize) -> usize {
    const SPREAD: [usize; 14] = [0, 2, 10, 9, 1, 100, 11, 3, 19, 101, 4, 5, 20, 99];
    SPREAD.get(i).copied().unwrap_or(200 + i)
}

pub fn is_num(t: &str) -> bool {
    !t.is_empty() && t.parse::<i64>().is_ok()
}

#[derive(Clone, Debug)]
pub struct Vocab {
    pub n_ent: usize,
    pub n_pred: usize,
    pub n_graph: usize,
    pub n_num: usize,
    pub n_word: usize,
}

impl Vocab {
    pub fn subject(&self, r: &mut Rng) -> String {
        ent(r.below(self.n_ent))
    }
    pub fn predicate(&self, r: &mut Rng) -> String {
        pred(r.below(self.n_pred))
    }
    pub fn object(&self, r: &mut Rng) -> String {
        match r.below(10) {
            0..=5 => ent(r.below(self.n_ent)),
            6..=8 => format!("{}", numv(r.below(self.n_num.max(1)))),
            _ => word(r.below(self.n_word.max(1))),
        }
    }
}

/// Random dataset: default graph + 0..n_graph named graphs, some empty, the same triple
/// deliberately repeated across graphs. Predicates are "typed": p0,p1 entity-valued,
/// p2 numeric-valued, p3 mixed, so joins and numeric filters are both productive.
pub fn gen_dataset(r: &mut Rng, v: &Vocab, n_quads: usize) -> Dataset {
    let mut d = Dataset::default();
    let n_named = r.below(v.n_graph + 1);
    let mut gs: Vec<G> = vec![G::Default];
    for i in 0..n_named {
        d.graphs.insert(graph(i));
        if !r.chance(1, 5) {
            gs.push(G::Named(graph(i))); // 1 in 5 named graphs stays empty
        }
    }
    let mut triples: Vec<(String, String, String)> = vec![];
    for _ in 0..n_quads {
        let t = if !triples.is_empty() && r.chance(1, 4) {
            r.pick(&triples).clone() // same triple again (another graph, or a duplicate)
        } else {
            let p = r.below(v.n_pred);
            let o = match p % 4 {
                0 | 1 => ent(r.below(v.n_ent)),
                2 => format!("{}", numv(r.below(v.n_num.max(1)))),
                _ => v.object(r),
            };
            (v.subject(r), pred(p), o)
        };
        triples.push(t.clone());
        let g = if r.chance(1, 2) { G::Default } else { r.pick(&gs).clone() };
        d.quads.insert((t.0, t.1, t.2, g));
    }
    d
}

pub fn small_vocab(r: &mut Rng) -> Vocab {
    Vocab { n_ent: r.range(2, 5), n_pred: r.range(1, 4), n_graph: r.range(0, 3), n_num: r.range(2, 6), n_word: 2 }
}

// ---------------------------------------------------------------------------------------
// loaders: three independent writers

#[derive(Clone, Copy, Debug, PartialEq, Eq)]
pub enum Route {
    InsertData,
    NQuads,
    Direct,
}

pub fn term_text(t: &str) -> String {
    if is_iri(t) {
        format!("<{}>", t)
    } else if t.starts_with("_:") {
        t.to_string()
    } else if is_num(t) {
        t.to_string()
    } else {
        format!("\"{}\"", t.replace('\\', "\\\\").replace('"', "\\\""))
    }
}

/// N-Quads/N-Triples spelling (numbers must be quoted literals there)
pub fn term_nq(t: &str) -> String {
    if is_iri(t) {
        format!("<{}>", t)
    } else if t.starts_with("_:") {
        t.to_string()
    } else {
        format!("\"{}\"", t.replace('\\', "\\\\").replace('"', "\\\""))
    }
}

pub fn insert_data_text(d: &Dataset) -> String {
    let mut s = String::from("INSERT DATA {\n");
    for (a, b, c, g) in &d.quads {
        match g {
            G::Default => s.push_str(&format!("  {} {} {} .\n", term_text(a), term_text(b), term_text(c))),
            G::Named(n) => s.push_str(&format!("  GRAPH <{}> {{ {} {} {} }}\n", n, term_text(a), term_text(b), term_text(c))),
        }
    }
    s.push_str("}");
    s
}

pub fn nquads_text(d: &Dataset) -> String {
    let mut s = String::new();
    for (a, b, c, g) in &d.quads {
        match g {
            G::Default => s.push_str(&format!("{} {} {} .\n", term_nq(a), term_nq(b), term_nq(c))),
            G::Named(n) => s.push_str(&format!("{} {} {} <{}> .\n", term_nq(a), term_nq(b), term_nq(c), n)),
        }
    }
    s
}

/// Build a fresh database holding exactly `d` through the given writer. Empty named
/// graphs are created through `DatasetIndex::create_graph` in every route (no update form
/// creates an empty graph).
/// Add quads through `add_quad` (an API that does not invalidate cached statistics).
pub fn add_direct(db: &mut SparqlDatabase, quads: &[LQuad]) {
    for (a, b, c, g) in quads {
        let (s, p, o, gid) = {
            let mut dict = db.dictionary.write().unwrap();
            let gid = match g {
                G::Default => GraphId::Default,
                G::Named(n) => GraphId::Named(dict.encode(n)),
            };
            (dict.encode(a), dict.encode(b), dict.encode(c), gid)
        };
        db.add_quad(Quad { subject: s, predicate: p, object: o, graph: gid });
    }
}

pub fn load(d: &Dataset, route: Route) -> Result<SparqlDatabase, String> {
    let mut db = SparqlDatabase::new();
    match route {
        Route::InsertData => {
            if !d.quads.is_empty() {
                kolibrie::execute_query::execute_sparql_update(&insert_data_text(d), &mut db)?;
            }
        }
        Route::NQuads => db.parse_nquads_and_add(&nquads_text(d)),
        Route::Direct => {
            for (a, b, c, g) in &d.quads {
                let (s, p, o, gid) = {
                    let mut dict = db.dictionary.write().unwrap();
                    let gid = match g {
                        G::Default => GraphId::Default,
                        G::Named(n) => GraphId::Named(dict.encode(n)),
                    };
                    (dict.encode(a), dict.encode(b), dict.encode(c), gid)
                };
                db.add_quad(Quad { subject: s, predicate: p, object: o, graph: gid });
            }
        }
    }
    for g in &d.graphs {
        let id = db.dictionary.write().unwrap().encode(g);
        db.dataset_index.create_graph(GraphId::Named(id));
    }
    Ok(db)
}
