//! Owned query AST for the supported SELECT fragment, its printer (query text is always
//! printed from a tree, never the other way round) and a shape descriptor for coverage.

use crate::ds::{is_iri, is_num};
use std::collections::BTreeMap;

#[derive(Clone, Debug, PartialEq, Eq, PartialOrd, Ord, Hash)]
pub enum T {
    Var(String),
    /// a constant by its stored lexical value (IRI without brackets, number, word)
    Const(String),
}

impl T {
    pub fn var(s: &str) -> T {
        T::Var(s.to_string())
    }
    pub fn text(&self) -> String {
        match self {
            T::Var(v) => format!("?{}", v),
            T::Const(c) => const_text(c),
        }
    }
    pub fn as_var(&self) -> Option<&str> {
        match self {
            T::Var(v) => Some(v),
            _ => None,
        }
    }
}

thread_local! {
    /// set by `print_select` while printing with `Style::prefixed`
    static USE_PREFIX: std::cell::Cell<bool> = const { std::cell::Cell::new(false) };
}

pub fn const_text(c: &str) -> String {
    if is_iri(c) {
        if USE_PREFIX.with(|u| u.get()) {
            if let Some(local) = c.strip_prefix(crate::ds::NS) {
                if !local.is_empty() && local.chars().all(|ch| ch.is_ascii_alphanumeric()) {
                    return format!("k:{}", local);
                }
            }
        }
        format!("<{}>", c)
    } else if is_num(c) {
        c.to_string()
    } else {
        format!("\"{}\"", c.replace('\\', "\\\\").replace('"', "\\\""))
    }
}

pub type TP = (T, T, T);

#[derive(Clone, Debug, PartialEq)]
pub enum Arith {
    Var(String),
    Num(i64),
    Add(Box<Arith>, Box<Arith>),
    Sub(Box<Arith>, Box<Arith>),
    Mul(Box<Arith>, Box<Arith>),
    Div(Box<Arith>, Box<Arith>),
}

impl Arith {
    /// fewest parentheses: `*` `/` bind tighter than `+` `-`, all left-associative
    pub fn text_min(&self) -> String {
        fn prec(a: &Arith) -> u8 {
            match a {
                Arith::Add(..) | Arith::Sub(..) => 1,
                Arith::Mul(..) | Arith::Div(..) => 2,
                _ => 3,
            }
        }
        let bin = |l: &Arith, op: &str, r: &Arith, p: u8| {
            let lt = if prec(l) < p { format!("({})", l.text_min()) } else { l.text_min() };
            let rt = if prec(r) <= p { format!("({})", r.text_min()) } else { r.text_min() };
            format!("{} {} {}", lt, op, rt)
        };
        match self {
            Arith::Var(_) | Arith::Num(_) => self.text(),
            Arith::Add(l, r) => bin(l, "+", r, 1),
            Arith::Sub(l, r) => bin(l, "-", r, 1),
            Arith::Mul(l, r) => bin(l, "*", r, 2),
            Arith::Div(l, r) => bin(l, "/", r, 2),
        }
    }
    pub fn text(&self) -> String {
        match self {
            Arith::Var(v) => format!("?{}", v),
            Arith::Num(n) => format!("{}", n),
            Arith::Add(a, b) => format!("({} + {})", a.text(), b.text()),
            Arith::Sub(a, b) => format!("({} - {})", a.text(), b.text()),
            Arith::Mul(a, b) => format!("({} * {})", a.text(), b.text()),
            Arith::Div(a, b) => format!("({} / {})", a.text(), b.text()),
        }
    }
    pub fn vars(&self, out: &mut Vec<String>) {
        match self {
            Arith::Var(v) => out.push(v.clone()),
            Arith::Num(_) => {}
            Arith::Add(a, b) | Arith::Sub(a, b) | Arith::Mul(a, b) | Arith::Div(a, b) => {
                a.vars(out);
                b.vars(out);
            }
        }
    }
    pub fn is_compound(&self) -> bool {
        !matches!(self, Arith::Var(_) | Arith::Num(_))
    }
}

#[derive(Clone, Debug, PartialEq)]
pub enum Expr {
    /// simple comparison: variable `op` (variable | constant)
    Cmp(String, &'static str, T),
    /// comparison with a compound arithmetic side
    ArithCmp(Arith, &'static str, Arith),
    /// comparison with the constant on the left: constant `op` variable
    CmpL(String, &'static str, String),
    And(Box<Expr>, Box<Expr>),
    Or(Box<Expr>, Box<Expr>),
    Not(Box<Expr>),
}

pub fn mirror_op(op: &str) -> &'static str {
    match op {
        "<" => ">",
        "<=" => ">=",
        ">" => "<",
        ">=" => "<=",
        "!=" => "!=",
        _ => "=",
    }
}

impl Expr {
    /// `c op ?v` read as `?v op' c`
    pub fn mirrored(&self) -> Option<Expr> {
        match self {
            Expr::CmpL(c, op, v) => Some(Expr::Cmp(v.clone(), mirror_op(op), T::Const(c.clone()))),
            _ => None,
        }
    }
    pub fn text(&self) -> String {
        match self {
            Expr::Cmp(v, op, t) => format!("?{} {} {}", v, op, t.text()),
            Expr::CmpL(c, op, v) => format!("{} {} ?{}", T::Const(c.clone()).text(), op, v),
            Expr::ArithCmp(a, op, b) => format!("{} {} {}", a.text(), op, b.text()),
            Expr::And(a, b) => format!("({}) && ({})", a.text(), b.text()),
            Expr::Or(a, b) => format!("({}) || ({})", a.text(), b.text()),
            Expr::Not(a) => format!("!({})", a.text()),
        }
    }
    /// the same tree written with the fewest parentheses the grammar allows
    /// (`!` binds tighter than `&&`, `&&` tighter than `||`, both left-associative)
    pub fn text_min(&self) -> String {
        fn prec(e: &Expr) -> u8 {
            match e {
                Expr::Or(..) => 0,
                Expr::And(..) => 1,
                _ => 2,
            }
        }
        fn wrap(e: &Expr, need: u8) -> String {
            if prec(e) < need {
                format!("({})", e.text_min())
            } else {
                e.text_min()
            }
        }
        match self {
            Expr::Cmp(..) | Expr::CmpL(..) => self.text(),
            Expr::ArithCmp(a, op, b) => format!("{} {} {}", a.text_min(), op, b.text_min()),
            Expr::And(a, b) => format!("{} && {}", wrap(a, 1), wrap(b, 2)),
            Expr::Or(a, b) => format!("{} || {}", wrap(a, 0), wrap(b, 1)),
            Expr::Not(a) => match **a {
                Expr::Not(_) => format!("!{}", a.text_min()),
                _ => format!("!({})", a.text_min()),
            },
        }
    }
    pub fn vars(&self, out: &mut Vec<String>) {
        match self {
            Expr::Cmp(v, _, t) => {
                out.push(v.clone());
                if let T::Var(w) = t {
                    out.push(w.clone());
                }
            }
            Expr::CmpL(_, _, v) => out.push(v.clone()),
            Expr::ArithCmp(a, _, b) => {
                a.vars(out);
                b.vars(out);
            }
            Expr::And(a, b) | Expr::Or(a, b) => {
                a.vars(out);
                b.vars(out);
            }
            Expr::Not(a) => a.vars(out),
        }
    }
    pub fn has_not(&self) -> bool {
        match self {
            Expr::Not(_) => true,
            Expr::And(a, b) | Expr::Or(a, b) => a.has_not() || b.has_not(),
            _ => false,
        }
    }
}

#[derive(Clone, Debug, PartialEq)]
pub enum BindArg {
    Var(String),
    Str(String),
}

#[derive(Clone, Debug, PartialEq)]
pub enum GName {
    Iri(String),
    Var(String),
}

#[derive(Clone, Debug, PartialEq)]
pub enum P {
    /// one triples block (each triple printed as its own statement, or with ; , abbreviations)
    Bgp(Vec<TP>),
    /// `{ … }` nested group with its own filter scope
    Group(Vec<P>),
    /// `{…} UNION {…} …`
    Union(Vec<Vec<P>>),
    Graph(GName, Vec<P>),
    Filter(Expr),
    /// BIND(CONCAT(args) AS ?v)
    Bind(Vec<BindArg>, String),
    Values(Vec<String>, Vec<Vec<Option<String>>>),
    Sub(Box<Select>),
}

#[derive(Clone, Copy, Debug, PartialEq, Eq)]
pub enum Agg {
    Sum,
    Min,
    Max,
    Avg,
}

impl Agg {
    pub fn name(&self) -> &'static str {
        match self {
            Agg::Sum => "SUM",
            Agg::Min => "MIN",
            Agg::Max => "MAX",
            Agg::Avg => "AVG",
        }
    }
}

#[derive(Clone, Debug, PartialEq)]
pub enum ProjItem {
    Var(String),
    Agg(Agg, String, String),
}

#[derive(Clone, Debug, PartialEq)]
pub enum Proj {
    Star,
    Items(Vec<ProjItem>),
}

#[derive(Clone, Debug, PartialEq)]
pub struct Select {
    pub distinct: bool,
    pub proj: Proj,
    pub from: Vec<String>,
    pub from_named: Vec<String>,
    pub group: Vec<P>,
    pub group_by: Vec<String>,
    pub order: Vec<(String, bool)>, // (var, desc)
    pub limit: Option<usize>,
}

impl Select {
    pub fn has_aggregates(&self) -> bool {
        match &self.proj {
            Proj::Star => false,
            Proj::Items(v) => v.iter().any(|i| matches!(i, ProjItem::Agg(..))),
        }
    }
    /// output column names in order
    pub fn columns(&self) -> Vec<String> {
        match &self.proj {
            Proj::Star => {
                let mut v = vec![];
                group_vars_in_order(&self.group, &mut v);
                v
            }
            Proj::Items(items) => items
                .iter()
                .map(|i| match i {
                    ProjItem::Var(v) => v.clone(),
                    ProjItem::Agg(_, _, alias) => alias.clone(),
                })
                .collect(),
        }
    }
}

fn push_unique(v: &mut Vec<String>, x: &str) {
    if !v.iter().any(|y| y == x) {
        v.push(x.to_string());
    }
}

/// variables of a group in order of first appearance (the `SELECT *` column order)
pub fn group_vars_in_order(g: &[P], out: &mut Vec<String>) {
    for p in g {
        match p {
            P::Bgp(ts) => {
                for (s, pr, o) in ts {
                    for t in [s, pr, o] {
                        if let T::Var(v) = t {
                            push_unique(out, v);
                        }
                    }
                }
            }
            P::Group(g) => group_vars_in_order(g, out),
            P::Union(bs) => {
                for b in bs {
                    group_vars_in_order(b, out);
                }
            }
            P::Graph(n, g) => {
                if let GName::Var(v) = n {
                    push_unique(out, v);
                }
                group_vars_in_order(g, out);
            }
            P::Filter(_) => {}
            P::Bind(_, v) => push_unique(out, v),
            P::Values(vs, _) => {
                for v in vs {
                    push_unique(out, v);
                }
            }
            P::Sub(s) => {
                for c in s.columns() {
                    push_unique(out, &c);
                }
            }
        }
    }
}

// ---------------------------------------------------------------------------------------
// printing

#[derive(Clone, Debug, Default)]
pub struct Style {
    /// use `;` / `,` abbreviations inside a Bgp where possible
    pub abbreviate: bool,
    pub lowercase_keywords: bool,
    pub newlines: bool,
    /// declare `PREFIX k: <http://k/>` and print vocabulary IRIs as prefixed names
    pub prefixed: bool,
    /// write FILTER expressions with the fewest parentheses (operator precedence decides)
    pub min_parens: bool,
    /// spell one variable occurrence in three with the `$` sigil
    pub dollar: bool,
}

fn kw(s: &Style, k: &str) -> String {
    if s.lowercase_keywords {
        k.to_ascii_lowercase()
    } else {
        k.to_string()
    }
}

pub fn print_bgp(ts: &[TP], st: &Style) -> String {
    let mut out = String::new();
    if st.abbreviate {
        let mut i = 0;
        while i < ts.len() {
            let (s, p, o) = &ts[i];
            out.push_str(&format!("{} {} {}", s.text(), p.text(), o.text()));
            let mut j = i + 1;
            while j < ts.len() && ts[j].0 == *s {
                if ts[j].1 == ts[j - 1].1 {
                    out.push_str(&format!(" , {}", ts[j].2.text()));
                } else {
                    out.push_str(&format!(" ; {} {}", ts[j].1.text(), ts[j].2.text()));
                }
                j += 1;
            }
            out.push_str(" . ");
            i = j;
        }
    } else {
        for (s, p, o) in ts {
            out.push_str(&format!("{} {} {} . ", s.text(), p.text(), o.text()));
        }
    }
    out
}

pub fn print_group(g: &[P], st: &Style) -> String {
    let mut out = String::from("{ ");
    for p in g {
        out.push_str(&print_p(p, st));
        if st.newlines {
            out.push('\n');
        }
    }
    out.push('}');
    out
}

pub fn print_p(p: &P, st: &Style) -> String {
    match p {
        P::Bgp(ts) => print_bgp(ts, st),
        P::Group(g) => format!("{} ", print_group(g, st)),
        P::Union(bs) => {
            let parts: Vec<String> = bs.iter().map(|b| print_group(b, st)).collect();
            format!("{} ", parts.join(&format!(" {} ", kw(st, "UNION"))))
        }
        P::Graph(n, g) => {
            let name = match n {
                GName::Iri(i) => format!("<{}>", i),
                GName::Var(v) => format!("?{}", v),
            };
            format!("{} {} {} ", kw(st, "GRAPH"), name, print_group(g, st))
        }
        P::Filter(e) => format!("{}({}) ", kw(st, "FILTER"), if st.min_parens { e.text_min() } else { e.text() }),
        P::Bind(args, v) => {
            let a: Vec<String> = args
                .iter()
                .map(|a| match a {
                    BindArg::Var(v) => format!("?{}", v),
                    BindArg::Str(s) => format!("\"{}\"", s),
                })
                .collect();
            format!("{}(CONCAT({}) {} ?{}) ", kw(st, "BIND"), a.join(", "), kw(st, "AS"), v)
        }
        P::Values(vars, rows) => {
            let cell = |c: &Option<String>| match c {
                None => "UNDEF".to_string(),
                Some(t) => const_text(t),
            };
            if vars.len() == 1 {
                let r: Vec<String> = rows.iter().map(|r| cell(&r[0])).collect();
                format!("{} ?{} {{ {} }} ", kw(st, "VALUES"), vars[0], r.join(" "))
            } else {
                let vs: Vec<String> = vars.iter().map(|v| format!("?{}", v)).collect();
                let r: Vec<String> = rows.iter().map(|r| format!("({})", r.iter().map(cell).collect::<Vec<_>>().join(" "))).collect();
                format!("{} ({}) {{ {} }} ", kw(st, "VALUES"), vs.join(" "), r.join(" "))
            }
        }
        P::Sub(s) => format!("{{ {} }} ", print_select(s, st)),
    }
}

/// `?v` -> `$v` for about one occurrence in three (outside literals and IRIs); which ones is
/// a function of the text alone
fn mix_sigils(text: &str) -> String {
    let b = text.as_bytes();
    let mut out = String::with_capacity(text.len());
    let (mut in_lit, mut in_iri, mut esc) = (false, false, false);
    for (i, ch) in text.char_indices() {
        if in_lit {
            if esc {
                esc = false;
            } else if ch == '\\' {
                esc = true;
            } else if ch == '"' {
                in_lit = false;
            }
            out.push(ch);
            continue;
        }
        if in_iri {
            if ch == '>' {
                in_iri = false;
            }
            out.push(ch);
            continue;
        }
        match ch {
            '"' => in_lit = true,
            '<' if text[i..].starts_with("<http") => in_iri = true,
            '?' if b.get(i + 1).is_some_and(|c| c.is_ascii_alphabetic()) && (i * 2654435761usize >> 7) % 3 == 0 => {
                out.push('$');
                continue;
            }
            _ => {}
        }
        out.push(ch);
    }
    out
}

pub fn print_select(q: &Select, st: &Style) -> String {
    if st.dollar {
        let plain = Style { dollar: false, ..st.clone() };
        return mix_sigils(&print_select(q, &plain));
    }
    if st.prefixed && !USE_PREFIX.with(|u| u.get()) {
        USE_PREFIX.with(|u| u.set(true));
        let body = print_select(q, st);
        USE_PREFIX.with(|u| u.set(false));
        return format!("{} k: <{}> {}", kw(st, "PREFIX"), crate::ds::NS, body);
    }
    let mut out = kw(st, "SELECT");
    if q.distinct {
        out.push(' ');
        out.push_str(&kw(st, "DISTINCT"));
    }
    match &q.proj {
        Proj::Star => out.push_str(" *"),
        Proj::Items(items) => {
            for i in items {
                match i {
                    ProjItem::Var(v) => out.push_str(&format!(" ?{}", v)),
                    ProjItem::Agg(a, v, alias) => out.push_str(&format!(" ({}(?{}) {} ?{})", a.name(), v, kw(st, "AS"), alias)),
                }
            }
        }
    }
    for f in &q.from {
        out.push_str(&format!(" {} <{}>", kw(st, "FROM"), f));
    }
    for f in &q.from_named {
        out.push_str(&format!(" {} {} <{}>", kw(st, "FROM"), kw(st, "NAMED"), f));
    }
    out.push_str(&format!(" {} ", kw(st, "WHERE")));
    out.push_str(&print_group(&q.group, st));
    if !q.group_by.is_empty() {
        out.push_str(&format!(" {} {}", kw(st, "GROUP"), kw(st, "BY")));
        for v in &q.group_by {
            out.push_str(&format!(" ?{}", v));
        }
    }
    if !q.order.is_empty() {
        out.push_str(&format!(" {} {}", kw(st, "ORDER"), kw(st, "BY")));
        for (v, desc) in &q.order {
            if *desc {
                out.push_str(&format!(" {}(?{})", kw(st, "DESC"), v));
            } else {
                out.push_str(&format!(" {}(?{})", kw(st, "ASC"), v));
            }
        }
    }
    if let Some(l) = q.limit {
        out.push_str(&format!(" {} {}", kw(st, "LIMIT"), l));
    }
    out
}

// ---------------------------------------------------------------------------------------
// shape: multiset of operators, nesting depth, join nodes

#[derive(Clone, Debug, Default)]
pub struct Shape {
    pub ops: BTreeMap<&'static str, usize>,
    pub depth: usize,
    pub triple_patterns: usize,
    pub max_bgp: usize,
}

impl Shape {
    pub fn key(&self) -> String {
        let ops: Vec<String> = self.ops.iter().map(|(k, v)| format!("{}{}", k, v)).collect();
        format!("d{}|{}", self.depth, ops.join(","))
    }
    pub fn distinct_ops(&self) -> usize {
        self.ops.len()
    }
}

fn bump(s: &mut Shape, k: &'static str) {
    *s.ops.entry(k).or_insert(0) += 1;
}

pub fn shape_group(g: &[P], depth: usize, s: &mut Shape) {
    s.depth = s.depth.max(depth);
    for p in g {
        match p {
            P::Bgp(ts) => {
                bump(s, "BGP");
                s.triple_patterns += ts.len();
                s.max_bgp = s.max_bgp.max(ts.len());
                if ts.len() >= 3 && ts.iter().all(|t| t.0 == ts[0].0) {
                    bump(s, "STAR");
                }
            }
            P::Group(g) => {
                bump(s, "GROUP");
                shape_group(g, depth + 1, s);
            }
            P::Union(bs) => {
                bump(s, "UNION");
                for b in bs {
                    shape_group(b, depth + 1, s);
                }
            }
            P::Graph(n, g) => {
                bump(s, match n {
                    GName::Iri(_) => "GRAPH_IRI",
                    GName::Var(_) => "GRAPH_VAR",
                });
                shape_group(g, depth + 1, s);
            }
            P::Filter(e) => {
                bump(s, "FILTER");
                if e.has_not() {
                    bump(s, "FILTER_NOT");
                }
            }
            P::Bind(..) => bump(s, "BIND"),
            P::Values(_, rows) => {
                bump(s, "VALUES");
                if rows.iter().any(|r| r.iter().any(|c| c.is_none())) {
                    bump(s, "UNDEF");
                }
            }
            P::Sub(q) => {
                bump(s, "SUBSELECT");
                shape_select(q, depth + 1, s);
            }
        }
    }
}

pub fn shape_select(q: &Select, depth: usize, s: &mut Shape) {
    if q.distinct {
        bump(s, "DISTINCT");
    }
    if !q.order.is_empty() {
        bump(s, "ORDER");
    }
    if q.limit.is_some() {
        bump(s, "LIMIT");
    }
    if !q.group_by.is_empty() {
        bump(s, "GROUPBY");
    }
    if q.has_aggregates() {
        bump(s, "AGG");
    }
    if !q.from.is_empty() {
        bump(s, "FROM");
    }
    if !q.from_named.is_empty() {
        bump(s, "FROM_NAMED");
    }
    if q.proj == Proj::Star {
        bump(s, "STAR_PROJ");
    }
    shape_group(&q.group, depth, s);
}

pub fn shape_of(q: &Select) -> Shape {
    let mut s = Shape::default();
    shape_select(q, 0, &mut s);
    s
}
