//! G-QUERY: seeded generator of typed SELECT trees over the vocabulary of `ds`.
//!
//! Every FILTER / BIND expression only mentions variables that occur in its own group
//! (the property's quantifier). While generating, the generator tracks for every
//! variable whether it is *certainly bound* and of which *kind*, and records "edge"
//! features — places where the engine's documented lexical semantics and SPARQL's error
//! semantics can legitimately part ways — so that results are classified, not guessed.

use crate::ds::{ent, pred, Dataset};
use crate::qast::*;
use kvcore::Rng;
use std::collections::{BTreeMap, BTreeSet};

#[derive(Clone, Copy, Debug, PartialEq, Eq)]
pub enum Kind {
    Ent,
    Num,
    Pred,
    Graph,
    Str,
    Any,
}

#[derive(Clone, Copy, Debug)]
pub struct VInfo {
    pub certain: bool,
    pub kind: Kind,
}

pub type Scope = BTreeMap<String, VInfo>;

fn merge_kind(a: Kind, b: Kind) -> Kind {
    if a == b {
        a
    } else {
        Kind::Any
    }
}

fn join_scope(a: &mut Scope, b: &Scope) {
    for (k, vb) in b {
        match a.get_mut(k) {
            None => {
                a.insert(k.clone(), *vb);
            }
            Some(va) => {
                // joined value satisfies every side that certainly binds it
                let kind = match (va.certain, vb.certain) {
                    (true, false) => va.kind,
                    (false, true) => vb.kind,
                    _ => merge_kind(va.kind, vb.kind),
                };
                va.certain = va.certain || vb.certain;
                va.kind = kind;
            }
        }
    }
}

fn union_scope(branches: &[Scope]) -> Scope {
    let mut out = Scope::new();
    let mut all: BTreeSet<String> = BTreeSet::new();
    for b in branches {
        all.extend(b.keys().cloned());
    }
    for v in all {
        let mut certain = true;
        let mut kind: Option<Kind> = None;
        for b in branches {
            match b.get(&v) {
                None => certain = false,
                Some(i) => {
                    certain = certain && i.certain;
                    kind = Some(match kind {
                        None => i.kind,
                        Some(k) => merge_kind(k, i.kind),
                    });
                }
            }
        }
        out.insert(v, VInfo { certain, kind: kind.unwrap_or(Kind::Any) });
    }
    out
}

pub struct Gen<'a> {
    pub r: &'a mut Rng,
    pub n_ent: usize,
    pub n_pred: usize,
    pub n_num: usize,
    /// named graphs of the dataset catalog
    pub graphs: Vec<String>,
    pub features: BTreeSet<String>,
    fresh: usize,
    pub max_depth: usize,
    /// allow constructs whose SPARQL error semantics differ from lexical evaluation
    pub allow_edge: bool,
    /// maximum number of elements of the top group / of nested groups
    pub max_top: usize,
    pub max_nested: usize,
    /// top-level ORDER BY may use variables that are not projected (C01 judges those)
    pub hidden_order_keys: bool,
    /// empty groups, empty UNION branches and VALUES without rows (off for large datasets: the
    /// unit solution of an empty branch turns the joins around it into cross products)
    pub allow_empty: bool,
}

const POOL: [&str; 5] = ["a", "b", "c", "d", "e"];

impl<'a> Gen<'a> {
    pub fn new(r: &'a mut Rng, ds: &Dataset, n_ent: usize, n_pred: usize, n_num: usize) -> Gen<'a> {
        Gen { r, n_ent, n_pred, n_num, graphs: ds.graphs.iter().cloned().collect(), features: BTreeSet::new(), fresh: 0, max_depth: 3, allow_edge: true, max_top: 4, max_nested: 3, hidden_order_keys: false, allow_empty: true }
    }

    fn fresh(&mut self, p: &str) -> String {
        self.fresh += 1;
        format!("{}{}", p, self.fresh)
    }

    fn pool_var(&mut self) -> String {
        POOL[self.r.below(POOL.len())].to_string()
    }

    fn obj_kind(p: usize) -> Kind {
        match p % 4 {
            0 | 1 => Kind::Ent,
            2 => Kind::Num,
            _ => Kind::Any,
        }
    }

    fn const_of(&mut self, k: Kind) -> String {
        match k {
            Kind::Num => format!("{}", crate::ds::numv(self.r.below(self.n_num.max(1) + 1))),
            Kind::Pred => pred(self.r.below(self.n_pred)),
            Kind::Graph => {
                if self.graphs.is_empty() || self.r.chance(1, 6) {
                    crate::ds::graph(9)
                } else {
                    self.r.pick(&self.graphs).clone()
                }
            }
            Kind::Str => "w0".to_string(),
            Kind::Ent | Kind::Any => {
                if k == Kind::Any && self.r.chance(1, 3) {
                    format!("{}", crate::ds::numv(self.r.below(self.n_num.max(1))))
                } else if k == Kind::Any && self.r.chance(1, 3) {
                    // a word that the data may hold as an object
                    crate::ds::word(self.r.below(3))
                } else {
                    ent(self.r.below(self.n_ent + 1)) // +1: sometimes an entity that is not in the data
                }
            }
        }
    }

    pub fn gen_bgp(&mut self) -> (P, Scope) {
        let mut sc = Scope::new();
        let star = self.r.chance(1, 5);
        let n = if star { self.r.range(3, 4) } else { self.r.range(1, 3) };
        let star_subject = self.pool_var();
        let mut ts = vec![];
        for _ in 0..n {
            let s = if star {
                T::Var(star_subject.clone())
            } else if self.r.chance(4, 5) {
                T::Var(self.pool_var())
            } else {
                T::Const(ent(self.r.below(self.n_ent)))
            };
            let pi = self.r.below(self.n_pred);
            let p = if self.r.chance(1, 8) { T::Var(if self.r.coin() { "p".into() } else { "q".into() }) } else { T::Const(pred(pi)) };
            let ok = if matches!(p, T::Var(_)) { Kind::Any } else { Self::obj_kind(pi) };
            let o = if self.r.chance(2, 3) { T::Var(self.pool_var()) } else { T::Const(self.const_of(ok)) };
            let mut add = |t: &T, k: Kind, sc: &mut Scope| {
                if let T::Var(v) = t {
                    let mut one = Scope::new();
                    one.insert(v.clone(), VInfo { certain: true, kind: k });
                    join_scope(sc, &one);
                }
            };
            add(&s, Kind::Ent, &mut sc);
            add(&p, Kind::Pred, &mut sc);
            add(&o, ok, &mut sc);
            ts.push((s, p, o));
        }
        (P::Bgp(ts), sc)
    }

    fn can_error(&self, e: &Expr, sc: &Scope) -> bool {
        match e {
            Expr::CmpL(..) => self.can_error(&e.mirrored().expect("mirrored"), sc),
            Expr::Cmp(v, op, t) => {
                let unb = |x: &str| !sc.get(x).map(|i| i.certain).unwrap_or(false);
                let nonnum = |x: &str| sc.get(x).map(|i| i.kind != Kind::Num).unwrap_or(true);
                let ordering = !matches!(*op, "=" | "!=");
                let mut err = unb(v) || (ordering && nonnum(v));
                match t {
                    T::Var(w) => err = err || unb(w) || (ordering && nonnum(w)),
                    T::Const(c) => err = err || (ordering && !crate::ds::is_num(c)),
                }
                err
            }
            Expr::ArithCmp(a, _, b) => {
                let mut vs = vec![];
                a.vars(&mut vs);
                b.vars(&mut vs);
                let has_div = format!("{:?}{:?}", a, b).contains("Div");
                has_div || vs.iter().any(|v| !sc.get(v).map(|i| i.certain && i.kind == Kind::Num).unwrap_or(false))
            }
            Expr::And(a, b) | Expr::Or(a, b) => self.can_error(a, sc) || self.can_error(b, sc),
            Expr::Not(a) => self.can_error(a, sc),
        }
    }

    /// ordering comparison applied to something that is not certainly numeric: SPARQL
    /// raises a type error where lexical evaluation substitutes 0
    fn ordering_on_non_numeric(&self, e: &Expr, sc: &Scope) -> bool {
        match e {
            Expr::CmpL(..) => self.ordering_on_non_numeric(&e.mirrored().expect("mirrored"), sc),
            Expr::Cmp(v, op, t) => {
                if matches!(*op, "=" | "!=") {
                    return false;
                }
                let nonnum = |x: &str| sc.get(x).map(|i| i.kind != Kind::Num).unwrap_or(false);
                nonnum(v)
                    || match t {
                        T::Var(w) => nonnum(w),
                        T::Const(c) => !crate::ds::is_num(c),
                    }
            }
            Expr::ArithCmp(..) => false,
            Expr::And(a, b) | Expr::Or(a, b) => self.ordering_on_non_numeric(a, sc) || self.ordering_on_non_numeric(b, sc),
            Expr::Not(a) => self.ordering_on_non_numeric(a, sc),
        }
    }

    fn not_over_error(&self, e: &Expr, sc: &Scope) -> bool {
        match e {
            Expr::Not(a) => self.can_error(a, sc),
            Expr::And(a, b) | Expr::Or(a, b) => self.not_over_error(a, sc) || self.not_over_error(b, sc),
            _ => false,
        }
    }

    fn gen_arith(&mut self, depth: usize, nums: &[String]) -> Arith {
        if depth == 0 || self.r.chance(1, 4) {
            return if self.r.chance(2, 3) { Arith::Var(self.r.pick(nums).clone()) } else { Arith::Num(crate::ds::numv(self.r.below(self.n_num + 2)) as i64) };
        }
        let l = Box::new(self.gen_arith(depth - 1, nums));
        let r = Box::new(self.gen_arith(depth - 1, nums));
        match self.r.below(7) {
            0 | 1 => Arith::Add(l, r),
            2 | 3 => Arith::Sub(l, r),
            4 | 5 => Arith::Mul(l, r),
            _ => Arith::Div(l, r),
        }
    }

    fn gen_atom(&mut self, sc: &Scope) -> Option<Expr> {
        let vars: Vec<(&String, &VInfo)> = sc.iter().collect();
        if vars.is_empty() {
            return None;
        }
        let (v, info) = vars[self.r.below(vars.len())];
        let (v, info) = (v.clone(), *info);
        let nums: Vec<String> = sc.iter().filter(|(_, i)| i.kind == Kind::Num).map(|(k, _)| k.clone()).collect();
        let choice = self.r.below(10);
        if !nums.is_empty() && choice < 4 {
            let nv = self.r.pick(&nums).clone();
            let op = *self.r.pick(&["<", "<=", ">", ">=", "=", "!="]);
            if self.r.chance(1, 6) {
                // compound arithmetic on both sides (precedence, associativity, division)
                let lhs = self.gen_arith(2, &nums);
                let rhs = self.gen_arith(1, &nums);
                return Some(Expr::ArithCmp(lhs, op, rhs));
            }
            if self.r.chance(1, 3) {
                let k = self.r.below(3) as i64 + 1;
                let lhs = match self.r.below(3) {
                    0 => Arith::Add(Box::new(Arith::Var(nv.clone())), Box::new(Arith::Num(k))),
                    1 => Arith::Mul(Box::new(Arith::Var(nv.clone())), Box::new(Arith::Num(k))),
                    _ => Arith::Sub(Box::new(Arith::Var(nv.clone())), Box::new(Arith::Num(k))),
                };
                let rhs = if nums.len() > 1 && self.r.coin() { Arith::Var(self.r.pick(&nums).clone()) } else { Arith::Num(crate::ds::numv(self.r.below(self.n_num + 2)) as i64) };
                return Some(Expr::ArithCmp(lhs, op, rhs));
            }
            return Some(Expr::Cmp(nv, op, T::Const(format!("{}", crate::ds::numv(self.r.below(self.n_num + 1))))));
        }
        if choice < 8 {
            let op = if self.r.chance(2, 3) { "=" } else { "!=" };
            let rhs = if vars.len() > 1 && self.r.chance(1, 3) {
                let (w, _) = vars[self.r.below(vars.len())];
                T::Var(w.clone())
            } else {
                T::Const(self.const_of(info.kind))
            };
            if let T::Const(c) = &rhs {
                if self.r.chance(1, 5) {
                    // the constant (IRI, word or number) on the left
                    return Some(Expr::CmpL(c.clone(), op, v));
                }
            }
            return Some(Expr::Cmp(v, op, rhs));
        }
        // ordering comparison on an arbitrary variable (edge unless numeric)
        if self.allow_edge || info.kind == Kind::Num {
            let op = *self.r.pick(&["<", ">", "<=", ">="]);
            return Some(Expr::Cmp(v, op, T::Const(format!("{}", crate::ds::numv(self.r.below(self.n_num + 1))))));
        }
        Some(Expr::Cmp(v, "=", T::Const(self.const_of(info.kind))))
    }

    fn gen_bool(&mut self, sc: &Scope, depth: usize) -> Option<Expr> {
        if depth == 0 || self.r.chance(1, 3) {
            return self.gen_atom(sc);
        }
        Some(match self.r.below(5) {
            0 | 1 => Expr::And(Box::new(self.gen_bool(sc, depth - 1)?), Box::new(self.gen_bool(sc, depth - 1)?)),
            2 | 3 => Expr::Or(Box::new(self.gen_bool(sc, depth - 1)?), Box::new(self.gen_bool(sc, depth - 1)?)),
            _ => Expr::Not(Box::new(self.gen_bool(sc, depth - 1)?)),
        })
    }

    pub fn gen_filter(&mut self, sc: &Scope) -> Option<Expr> {
        let a = self.gen_atom(sc)?;
        let e = match self.r.below(13) {
            // a random Boolean tree: negations as operands of && / ||, mixed nesting
            10 | 11 | 12 => {
                let t = self.gen_bool(sc, 3)?;
                if matches!(t, Expr::Cmp(..) | Expr::CmpL(..) | Expr::ArithCmp(..)) { Expr::And(Box::new(Expr::Not(Box::new(a))), Box::new(t)) } else { t }
            }
            0 | 1 => {
                let b = self.gen_atom(sc)?;
                Expr::And(Box::new(a), Box::new(b))
            }
            2 | 3 => {
                let b = self.gen_atom(sc)?;
                Expr::Or(Box::new(a), Box::new(b))
            }
            4 | 5 => Expr::Not(Box::new(a)),
            6 => {
                let b = self.gen_atom(sc)?;
                Expr::Not(Box::new(Expr::Or(Box::new(a), Box::new(Expr::Not(Box::new(b))))))
            }
            _ => a,
        };
        if !self.allow_edge && (self.not_over_error(&e, sc) || self.ordering_on_non_numeric(&e, sc)) {
            return None;
        }
        if self.not_over_error(&e, sc) {
            self.features.insert("edge:negation_over_expression_that_can_raise_an_error".into());
        }
        if self.ordering_on_non_numeric(&e, sc) {
            self.features.insert("edge:ordering_comparison_on_non_numeric_term".into());
        }
        let mut vs = vec![];
        e.vars(&mut vs);
        if vs.iter().any(|v| !sc.get(v).map(|i| i.certain).unwrap_or(false)) {
            self.features.insert("filter_on_possibly_unbound_variable".into());
        }
        Some(e)
    }

    /// a group: elements + filters at random positions; returns scope at group end
    pub fn gen_group(&mut self, depth: usize, top: bool) -> (Vec<P>, Scope) {
        let mut elems: Vec<P> = vec![];
        let mut sc = Scope::new();
        let n = if top { self.r.range(1, self.max_top) } else { self.r.range(1, self.max_nested) };
        for i in 0..n {
            let w: [usize; 8] = if depth >= self.max_depth { [100, 0, 0, 0, 0, 6, 0, 6] } else { [50, 10, 5, 9, 9, 6, 7, 6] };
            match self.r.weighted(&w) {
                0 => {
                    let (p, s) = self.gen_bgp();
                    join_scope(&mut sc, &s);
                    elems.push(p);
                }
                1 => {
                    let nb = self.r.range(2, 3);
                    let mut bs: Vec<Vec<P>> = vec![];
                    let mut scs: Vec<Scope> = vec![];
                    let dup = self.r.chance(1, 6);
                    for b in 0..nb {
                        if b > 0 && !dup && self.allow_empty && self.r.chance(1, 12) {
                            // an empty branch: the unit solution
                            bs.push(vec![]);
                            scs.push(Scope::new());
                            continue;
                        }
                        if dup && b == 1 {
                            let first: Vec<P> = bs[0].clone();
                            scs.push(scs[0].clone());
                            bs.push(first);
                            continue;
                        }
                        let (g, s) = self.gen_group(depth + 1, false);
                        bs.push(g);
                        scs.push(s);
                    }
                    join_scope(&mut sc, &union_scope(&scs));
                    elems.push(P::Union(bs));
                }
                2 => {
                    let (g, s) = if self.allow_empty && self.r.chance(1, 12) { (vec![], Scope::new()) } else { self.gen_group(depth + 1, false) };
                    join_scope(&mut sc, &s);
                    elems.push(P::Group(g));
                }
                3 => {
                    let name = self.const_of(Kind::Graph);
                    let (g, s) = if self.r.chance(1, 8) { (vec![], Scope::new()) } else { self.gen_group(depth + 1, false) };
                    join_scope(&mut sc, &s);
                    elems.push(P::Graph(GName::Iri(name), g));
                }
                4 => {
                    let gv = if self.r.chance(3, 4) { "g".to_string() } else { "h".to_string() };
                    let (g, s) = if self.r.chance(1, 6) { (vec![], Scope::new()) } else { self.gen_group(depth + 1, false) };
                    let mut s2 = s.clone();
                    let mut one = Scope::new();
                    one.insert(gv.clone(), VInfo { certain: true, kind: Kind::Graph });
                    join_scope(&mut s2, &one);
                    join_scope(&mut sc, &s2);
                    elems.push(P::Graph(GName::Var(gv), g));
                }
                5 => {
                    // VALUES over 1-2 variables (pool variables so they join with patterns)
                    let nv = self.r.range(1, 2);
                    let mut vars: Vec<String> = vec![];
                    while vars.len() < nv {
                        let v = self.pool_var();
                        if !vars.contains(&v) {
                            vars.push(v);
                        }
                    }
                    // sometimes the graph variable of the GRAPH ?g blocks: it then arrives bound from
                    // outside, also to names that are no visible graph
                    // (top-level group only: inside a GRAPH ?g block a second binder of ?g meets the
                    // recorded finding about the block's own variable in ways the attribution
                    // cannot reproduce exactly)
                    if top && depth == 0 && self.r.chance(1, 5) {
                        vars[0] = "g".to_string();
                        self.features.insert("graph_variable_bound_by_values".into());
                    }
                    let kinds: Vec<Kind> = vars.iter().map(|v| if v == "g" { Kind::Graph } else { sc.get(v).map(|i| i.kind).unwrap_or(if self.r.coin() { Kind::Ent } else { Kind::Num }) }).collect();
                    let nr = if self.allow_empty && self.r.chance(1, 15) { 0 } else { self.r.range(1, 3) };
                    let mut rows = vec![];
                    for _ in 0..nr {
                        let mut row = vec![];
                        for k in &kinds {
                            if self.r.chance(1, 5) {
                                row.push(None);
                            } else {
                                let k = if *k == Kind::Graph && self.r.chance(1, 5) { Kind::Ent } else { *k };
                                row.push(Some(self.const_of(k)));
                            }
                        }
                        rows.push(row);
                    }
                    let mut s = Scope::new();
                    for (i, v) in vars.iter().enumerate() {
                        let certain = rows.iter().all(|r| r[i].is_some());
                        s.insert(v.clone(), VInfo { certain, kind: kinds[i] });
                    }
                    join_scope(&mut sc, &s);
                    elems.push(P::Values(vars, rows));
                }
                6 => {
                    let (q, s) = self.gen_select(depth + 1, false);
                    join_scope(&mut sc, &s);
                    elems.push(P::Sub(Box::new(q)));
                }
                _ => {
                    // BIND(CONCAT(..) AS fresh) over what precedes it in this group
                    if i == 0 && !self.r.chance(1, 4) {
                        let (p, s) = self.gen_bgp();
                        join_scope(&mut sc, &s);
                        elems.push(p);
                    }
                    // M-TERM: a CONCAT result is a literal, so it must not LOOK like an IRI in the
                    // untyped store. Either it starts with '#' (a plain string of its own kind),
                    // or it is assembled from digits only (a number).
                    let avail: Vec<(String, VInfo)> = sc.iter().map(|(k, v)| (k.clone(), *v)).collect();
                    let numeric_mode = self.r.chance(1, 3);
                    let na = self.r.range(1, 3);
                    let mut args = vec![];
                    if !numeric_mode {
                        args.push(BindArg::Str("#".into()));
                    }
                    for _ in 0..na {
                        let cands: Vec<&(String, VInfo)> = avail.iter().filter(|(_, i)| !numeric_mode || (i.kind == Kind::Num)).collect();
                        if !cands.is_empty() && self.r.chance(2, 3) {
                            let (v, info) = (*self.r.pick(&cands)).clone();
                            if !info.certain {
                                if !self.allow_edge {
                                    args.push(BindArg::Str("1".into()));
                                    continue;
                                }
                                self.features.insert("edge:bind_argument_possibly_unbound".into());
                            }
                            args.push(BindArg::Var(v));
                        } else if numeric_mode {
                            args.push(BindArg::Str(self.r.pick(&["1", "2", "0"]).to_string()));
                        } else {
                            args.push(BindArg::Str(self.r.pick(&["w", "1", "-", "x y"]).to_string()));
                        }
                    }
                    // mostly a fresh name; a numeric BIND sometimes takes a pattern variable that
                    // is not yet in scope of this group, so that other groups (or later
                    // elements) bind the same variable and the BIND takes part in a join
                    let out = match (numeric_mode && self.r.chance(1, 3)).then(|| self.pool_var()) {
                        Some(v) if !sc.contains_key(&v) => {
                            self.features.insert("bind_target_bound_elsewhere_too".into());
                            v
                        }
                        _ => self.fresh("c"),
                    };
                    let certain = args.iter().all(|a| match a {
                        BindArg::Str(_) => true,
                        BindArg::Var(v) => sc.get(v).map(|i| i.certain).unwrap_or(false),
                    });
                    sc.insert(out.clone(), VInfo { certain, kind: if numeric_mode { Kind::Num } else { Kind::Str } });
                    elems.push(P::Bind(args, out));
                }
            }
        }
        // filters: scope is the whole group, position is arbitrary
        let nf = self.r.weighted(&[55, 35, 10]);
        for _ in 0..nf {
            if let Some(e) = self.gen_filter(&sc) {
                let pos = self.r.below(elems.len() + 1);
                elems.insert(pos, P::Filter(e));
            }
        }
        (elems, sc)
    }

    fn single_kind(i: &VInfo) -> bool {
        i.certain && i.kind != Kind::Any
    }

    pub fn gen_select(&mut self, depth: usize, top: bool) -> (Select, Scope) {
        let (group, sc) = self.gen_group(depth, top);
        let vars: Vec<(String, VInfo)> = sc.iter().map(|(k, v)| (k.clone(), *v)).collect();
        let mut q = Select { distinct: false, proj: Proj::Star, from: vec![], from_named: vec![], group, group_by: vec![], order: vec![], limit: None };
        let mut out = Scope::new();
        let nums: Vec<(String, VInfo)> = vars.iter().filter(|(_, i)| i.kind == Kind::Num).cloned().collect();
        // aggregates are only generated over variables whose bound values are numeric
        let agg = !nums.is_empty() && self.r.chance(if top { 22 } else { 26 }, 100);
        if agg {
            // GROUP BY 0-2 vars, 1-2 aggregates
            let ng = self.r.range(0, 2.min(vars.len()));
            let mut gvars: Vec<String> = vec![];
            while gvars.len() < ng {
                let v = self.r.pick(&vars).0.clone();
                if !gvars.contains(&v) {
                    gvars.push(v);
                }
            }
            let mut items: Vec<ProjItem> = gvars.iter().map(|v| ProjItem::Var(v.clone())).collect();
            for v in &gvars {
                out.insert(v.clone(), sc[v]);
            }
            // sometimes no aggregate at all (plain grouping), when there is a key to project
            let na = if ng >= 1 && self.r.chance(1, 5) { 0 } else { self.r.range(1, 2) };
            for _ in 0..na {
                let (av, ai) = self.r.pick(&nums).clone();
                let a = *self.r.pick(&[Agg::Sum, Agg::Min, Agg::Max, Agg::Avg]);
                if gvars.is_empty() && a == Agg::Avg {
                    self.features.insert("edge:avg_over_possibly_empty_group".into());
                }
                let alias = self.fresh("n");
                let certain = match a {
                    Agg::Sum | Agg::Avg => true,
                    _ => !gvars.is_empty() && ai.certain && ai.kind == Kind::Num,
                };
                out.insert(alias.clone(), VInfo { certain, kind: Kind::Num });
                items.push(ProjItem::Agg(a, av, alias));
            }
            // a group key need not be projected, and the projection order is free
            if gvars.len() >= 1 && items.len() >= 2 && self.r.chance(1, 4) {
                let drop = self.r.pick(&gvars).clone();
                items.retain(|i| !matches!(i, ProjItem::Var(v) if *v == drop));
                out.remove(&drop);
                self.features.insert("group_key_not_projected".into());
            }
            if self.r.chance(1, 3) {
                self.r.shuffle(&mut items);
            }
            if na == 0 {
                self.features.insert("group_by_without_aggregate".into());
            }
            q.group_by = gvars;
            q.proj = Proj::Items(items);
        } else if vars.is_empty() || self.r.chance(1, 5) {
            q.proj = Proj::Star;
            out = sc.clone();
        } else {
            let np = self.r.range(1, 3.min(vars.len()));
            let mut pv: Vec<String> = vec![];
            while pv.len() < np {
                let v = self.r.pick(&vars).0.clone();
                if !pv.contains(&v) {
                    pv.push(v);
                }
            }
            for v in &pv {
                out.insert(v.clone(), sc[v]);
            }
            q.proj = Proj::Items(pv.into_iter().map(ProjItem::Var).collect());
        }
        if !agg || q.group_by.is_empty() {
            if self.r.chance(1, 4) {
                q.distinct = true;
            }
        }
        let cols = q.columns();
        if top {
            if !cols.is_empty() && self.r.chance(3, 10) {
                // keys among the projected columns; for a plain projection sometimes among all
                // variables in scope (a key that is not projected)
                let hidden = self.hidden_order_keys && !agg && !q.distinct && matches!(q.proj, Proj::Items(_)) && self.r.chance(1, 3);
                let cols: Vec<String> = if hidden { vars.iter().map(|(k, _)| k.clone()).collect() } else { cols.clone() };
                let out = if hidden { sc.clone() } else { out.clone() };
                if hidden {
                    self.features.insert("order_key_not_projected".into());
                }
                let nk = self.r.range(1, 2.min(cols.len()));
                let mut ks: Vec<String> = vec![];
                while ks.len() < nk {
                    let c = self.r.pick(&cols).clone();
                    if !ks.contains(&c) {
                        ks.push(c);
                    }
                }
                for k in ks {
                    if !out.get(&k).map(Self::single_kind).unwrap_or(false) {
                        self.features.insert("order_key_of_mixed_or_unknown_kind".into());
                    }
                    let desc = self.r.coin();
                    q.order.push((k, desc));
                }
            }
            if self.r.chance(1, 4) {
                q.limit = Some(*self.r.pick(&[0usize, 1, 2, 3, 5, 10]));
            }
            if self.r.chance(15, 100) {
                // dataset clause: FROM (catalog graphs, repeated, or a graph without identity), FROM NAMED (catalog graphs)
                let nf = self.r.range(0, 2);
                for _ in 0..nf {
                    let g = self.const_of(Kind::Graph);
                    q.from.push(g);
                }
                if self.r.chance(1, 4) && !q.from.is_empty() {
                    let g = q.from[0].clone();
                    q.from.push(g);
                }
                let nn = if q.from.is_empty() { self.r.range(1, 2) } else { self.r.range(0, 2) };
                for _ in 0..nn {
                    if !self.graphs.is_empty() {
                        let g = self.r.pick(&self.graphs).clone();
                        q.from_named.push(g);
                    }
                }
            }
        } else {
            // sub-select: LIMIT only with a total order over the projected columns (so the
            // cut is unique up to identical rows), or LIMIT 0
            if self.r.chance(1, 4) {
                if self.r.chance(1, 5) {
                    q.limit = Some(0);
                } else if !cols.is_empty() && cols.iter().all(|c| out.get(c).map(Self::single_kind).unwrap_or(false)) {
                    let mut ks = cols.clone();
                    self.r.shuffle(&mut ks);
                    for k in ks {
                        let desc = self.r.coin();
                        q.order.push((k, desc));
                    }
                    q.limit = Some(self.r.range(1, 4));
                }
            } else if !cols.is_empty() && self.r.chance(1, 6) {
                let k = self.r.pick(&cols).clone();
                q.order.push((k, self.r.coin()));
            }
        }
        (q, out)
    }
}

pub fn random_style(r: &mut Rng) -> Style {
    Style { abbreviate: r.chance(1, 3), lowercase_keywords: r.chance(1, 4), newlines: r.chance(1, 3), prefixed: r.chance(1, 4), min_parens: r.coin(), dollar: r.chance(1, 5) }
}
