//! helpers shared by the datalog/shared-level monitors
